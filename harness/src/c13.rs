//! C13: default ignorables. Runs the real classification, the real `delete_glyphs_inplace`, the real
//! default-ignorable passes of ot_shape.rs (through the guarded hooks in rustybuzz::verif::unicode)
//! and the public shaping API on generated cmap-only fonts.
//!
//!   rbv c13 classify                         exhaustive classification as ranges
//!   rbv c13 delete --seed S --n N            hook: delete_glyphs_inplace cases
//!   rbv c13 passes --seed S --n N            hook: zero_width + hide cases
//!   rbv c13 fonts                            descriptors of the generated fonts
//!   rbv c13 api --seed S --n N --spec R      API cases for the model correspondence (LTR)
//!   rbv c13 search --seed S --spec R --per K [--all 1]   property predicate through the API
//!   rbv c13 one --font F --flags X --level L --dir D --text a,b,c --pos P --cp C   single case
//!   rbv c13 probe --cp C                     classification + shaping of one code point
use crate::shp::{dir_name, dir_parse, level_of};
use crate::util::*;
use rustybuzz::verif::unicode as hook;
use rustybuzz::verif::unicode::VGlyph;
use rustybuzz::{BufferFlags, Direction, Face, UnicodeBuffer};

// ------------------------------------------------------------------------------------------------
// minimal sfnt writer: head hhea maxp(0.5) hmtx cmap(format 12, platform 3 encoding 10)

fn be16(v: &mut Vec<u8>, x: u16) {
    v.extend_from_slice(&x.to_be_bytes());
}
fn be32(v: &mut Vec<u8>, x: u32) {
    v.extend_from_slice(&x.to_be_bytes());
}

pub fn adv_of(gid: u32) -> i32 {
    300 + 7 * (gid % 64) as i32
}

static MAC_CMAP: std::sync::atomic::AtomicBool = std::sync::atomic::AtomicBool::new(false);

/// The font with a space glyph and unmapped ignorables whose only cmap subtable is Macintosh Roman ("SUm").
fn gen_font_mac(spec: &[(u32, u32)]) -> GenFont {
    MAC_CMAP.store(true, std::sync::atomic::Ordering::Relaxed);
    let mut f = gen_font_full(true, false, spec, None, false);
    MAC_CMAP.store(false, std::sync::atomic::Ordering::Relaxed);
    f.name = "SUm".to_string();
    f
}

/// groups: (first char, last char, first glyph), sorted by char.
fn build_font(groups: &[(u32, u32, u32)], num_glyphs: u16, gdef_class: Option<u16>, kern_pairs: &[(u16, u16, i16)]) -> Vec<u8> {
    let mut head = Vec::new();
    be32(&mut head, 0x00010000); // version
    be32(&mut head, 0x00010000); // fontRevision
    be32(&mut head, 0); // checksumAdjustment
    be32(&mut head, 0x5F0F3CF5); // magic
    be16(&mut head, 0); // flags
    be16(&mut head, 1000); // unitsPerEm
    head.extend_from_slice(&[0u8; 16]); // created, modified
    for v in [0i16, -200, 1000, 800] {
        be16(&mut head, v as u16); // xMin yMin xMax yMax
    }
    be16(&mut head, 0); // macStyle
    be16(&mut head, 8); // lowestRecPPEM
    be16(&mut head, 2); // fontDirectionHint
    be16(&mut head, 0); // indexToLocFormat
    be16(&mut head, 0); // glyphDataFormat

    let mut hhea = Vec::new();
    be32(&mut hhea, 0x00010000);
    be16(&mut hhea, 800); // ascender
    be16(&mut hhea, (-200i16) as u16); // descender
    be16(&mut hhea, 0); // lineGap
    be16(&mut hhea, 1000); // advanceWidthMax
    for _ in 0..11 {
        be16(&mut hhea, 0);
    }
    be16(&mut hhea, num_glyphs); // numberOfHMetrics

    let mut maxp = Vec::new();
    be32(&mut maxp, 0x00005000);
    be16(&mut maxp, num_glyphs);

    let mut hmtx = Vec::new();
    for g in 0..num_glyphs {
        be16(&mut hmtx, adv_of(g as u32) as u16);
        be16(&mut hmtx, 0);
    }

    let mut cmap = Vec::new();
    be16(&mut cmap, 0); // version
    be16(&mut cmap, 1); // numTables
    // one encoding record: Windows / Unicode full repertoire, or - MAC_CMAP - Macintosh Roman only (a legacy font without
    // any Unicode-encoded subtable: the shaper still maps ASCII through it, U+0020 included)
    let mac = MAC_CMAP.load(std::sync::atomic::Ordering::Relaxed);
    be16(&mut cmap, if mac { 1 } else { 3 }); // platform
    be16(&mut cmap, if mac { 0 } else { 10 }); // encoding
    be32(&mut cmap, 12); // offset
    be16(&mut cmap, 12); // format
    be16(&mut cmap, 0);
    be32(&mut cmap, 16 + 12 * groups.len() as u32); // length
    be32(&mut cmap, 0); // language
    be32(&mut cmap, groups.len() as u32);
    for (a, b, g) in groups {
        be32(&mut cmap, *a);
        be32(&mut cmap, *b);
        be32(&mut cmap, *g);
    }

    let mut tables: Vec<(&[u8; 4], Vec<u8>)> =
        vec![(b"cmap", cmap), (b"head", head), (b"hhea", hhea), (b"hmtx", hmtx), (b"maxp", maxp)];
    if let Some(class) = gdef_class {
        // GDEF 1.0 whose glyph class definition (format 2, one range) gives every glyph but .notdef `class`
        let mut gdef = Vec::new();
        be32(&mut gdef, 0x00010000);
        be16(&mut gdef, 12); // glyphClassDef
        be16(&mut gdef, 0); // attachList
        be16(&mut gdef, 0); // ligCaretList
        be16(&mut gdef, 0); // markAttachClassDef
        be16(&mut gdef, 2); // ClassDef format 2
        be16(&mut gdef, 1); // one range
        be16(&mut gdef, 1);
        be16(&mut gdef, num_glyphs - 1);
        be16(&mut gdef, class);
        tables.insert(0, (b"GDEF", gdef));
    }
    if !kern_pairs.is_empty() {
        // OpenType 'kern' version 0, one horizontal format-0 subtable; pairs sorted by (left, right)
        let mut pairs = kern_pairs.to_vec();
        pairs.sort();
        let np = pairs.len() as u16;
        let mut es = 0u16;
        while (2u32 << es) <= np as u32 {
            es += 1;
        }
        let sr = (1u16 << es) * 6;
        let mut kern = Vec::new();
        be16(&mut kern, 0); // version
        be16(&mut kern, 1); // nTables
        be16(&mut kern, 0); // subtable version
        be16(&mut kern, 14 + 6 * np); // length
        be16(&mut kern, 0x0001); // coverage: horizontal, format 0
        be16(&mut kern, np);
        be16(&mut kern, sr);
        be16(&mut kern, es);
        be16(&mut kern, np * 6 - sr);
        for (l, r, v) in &pairs {
            be16(&mut kern, *l);
            be16(&mut kern, *r);
            be16(&mut kern, *v as u16);
        }
        tables.push((b"kern", kern));
        tables.sort_by(|a, b| a.0.cmp(b.0));
    }
    let n = tables.len() as u16;
    let mut out = Vec::new();
    be32(&mut out, 0x00010000);
    be16(&mut out, n);
    be16(&mut out, 64); // searchRange
    be16(&mut out, 2); // entrySelector
    be16(&mut out, n * 16 - 64);
    let mut off = 12 + 16 * tables.len() as u32;
    let mut body = Vec::new();
    for (tag, data) in &tables {
        out.extend_from_slice(&tag[..]);
        be32(&mut out, 0); // checksum (not verified by ttf-parser)
        be32(&mut out, off);
        be32(&mut out, data.len() as u32);
        body.extend_from_slice(data);
        let pad = (4 - data.len() % 4) % 4;
        body.extend(std::iter::repeat(0u8).take(pad));
        off += (data.len() + pad) as u32;
    }
    out.extend_from_slice(&body);
    out
}

pub struct GenFont {
    pub name: String,
    pub data: Vec<u8>,
    pub groups: Vec<(u32, u32, u32)>,
    pub space: Option<u32>,
    pub num_glyphs: u32,
}

impl GenFont {
    pub fn gid(&self, cp: u32) -> u32 {
        for (a, b, g) in &self.groups {
            if *a <= cp && cp <= *b {
                return g + (cp - a);
            }
        }
        0
    }
}

/// The letters of the test texts: ASCII a..h (script Latin) and PUA U+E000..U+E01F (script Unknown);
/// all gc != Mark, default shaper, left-to-right.
pub fn letters() -> Vec<u32> {
    let mut v: Vec<u32> = (0x61..=0x68).collect();
    v.extend(0xE000..=0xE01F);
    v
}

/// Code points given own glyphs when `ign_mapped`: every code point of the candidate ranges
/// (the specification's ranges plus the four fillers).
fn gen_font(space: bool, ign_mapped: bool, spec: &[(u32, u32)]) -> GenFont {
    gen_font_gdef(space, ign_mapped, spec, None)
}

/// `gdef_class`: a GDEF that puts every glyph (the ignorables' own glyphs included) into that glyph class;
/// classes: 1 base, 2 ligature, 3 mark, 4 component, anything else undefined.  Default ignorables are
/// decided on the character, never on the glyph class.
fn gen_font_gdef(space: bool, ign_mapped: bool, spec: &[(u32, u32)], gdef_class: Option<u16>) -> GenFont {
    gen_font_full(space, ign_mapped, spec, gdef_class, false)
}

/// `kern`: a legacy 'kern' table kerning every ordered pair of the Latin letters a..h (no GSUB/GPOS): the pair
/// search must step over default ignorables exactly as over nothing.
fn gen_font_full(space: bool, ign_mapped: bool, spec: &[(u32, u32)], gdef_class: Option<u16>, kern: bool) -> GenFont {
    gen_font_full2(space, ign_mapped, spec, gdef_class, kern, false)
}

fn gen_font_full2(space: bool, ign_mapped: bool, spec: &[(u32, u32)], gdef_class: Option<u16>, kern: bool, di_pairs: bool) -> GenFont {
    let mut cps: Vec<u32> = letters();
    if space {
        cps.push(0x20);
    }
    if ign_mapped {
        for (a, b) in spec {
            cps.extend(*a..=*b);
        }
        cps.extend([0x115F, 0x1160, 0x3164, 0xFFA0]);
    }
    if kern {
        // the search-only fonts also map two combining marks and NOT the precomposed letters built from them: the
        // normalizer decomposes U+00E1 / U+00E9 / U+1E0D there (a buffer-wide step that must not disturb the ignorables)
        cps.extend([0x0301, 0x0323]);
    }
    cps.sort();
    cps.dedup();
    let mut groups: Vec<(u32, u32, u32)> = Vec::new();
    let mut gid = 1u32;
    for cp in &cps {
        match groups.last_mut() {
            Some((_, b, _)) if *b + 1 == *cp => *b = *cp,
            _ => groups.push((*cp, *cp, gid)),
        }
        gid += 1;
    }
    let name = format!("{}{}{}{}", if space { "S" } else { "N" }, if ign_mapped { "M" } else { "U" }, gdef_class.map(|c| format!("g{}", c)).unwrap_or_default(), if di_pairs { "kd" } else if kern { "k" } else { "" });
    let mut f = GenFont { name, data: Vec::new(), groups, space: None, num_glyphs: gid };
    let mut pairs: Vec<(u16, u16, i16)> = Vec::new();
    if kern && di_pairs {
        // pairs whose FIRST glyph is an ignorable's own glyph: positioning then moves the ignorable itself (and, through
        // the split of the kerning value, its neighbour) before it is zeroed and hidden
        for d in [0xADu32, 0x200B, 0x200C, 0x200D, 0x2060, 0xFEFF] {
            if f.gid(d) != 0 {
                for b in 0x61..=0x68u32 {
                    pairs.push((f.gid(d) as u16, f.gid(b) as u16, -(40 + 6 * (b - 0x61) as i16)));
                }
            }
        }
    }
    if kern {
        for a in 0x61..=0x68u32 {
            for b in 0x61..=0x68u32 {
                let v = -(20 + 7 * (a - 0x61) as i16 + 3 * (b - 0x61) as i16) * if (a + b) % 3 == 0 { -1 } else { 1 };
                pairs.push((f.gid(a) as u16, f.gid(b) as u16, v));
            }
        }
    }
    f.data = build_font(&f.groups, gid as u16, gdef_class, &pairs);
    if space {
        f.space = Some(f.gid(0x20));
    }
    f
}

pub fn gen_fonts(spec: &[(u32, u32)]) -> Vec<GenFont> {
    vec![
        gen_font(true, true, spec),
        gen_font(false, true, spec),
        gen_font(true, false, spec),
        gen_font(false, false, spec),
        gen_font_gdef(true, true, spec, Some(1)),
        gen_font_gdef(true, true, spec, Some(2)),
        gen_font_gdef(true, true, spec, Some(4)),
        gen_font_gdef(false, true, spec, Some(4)),
        gen_font_gdef(true, true, spec, Some(9)),
    ]
}

fn parse_spec(args: &[String]) -> Vec<(u32, u32)> {
    let s = arg_str(args, "--spec").unwrap_or("");
    let mut v = Vec::new();
    for it in s.split(',') {
        if it.is_empty() {
            continue;
        }
        let (a, b) = it.split_once('-').unwrap_or((it, it));
        v.push((u32::from_str_radix(a, 16).unwrap(), u32::from_str_radix(b, 16).unwrap()));
    }
    if v.is_empty() {
        eprintln!("c13: --spec lo-hi,... (hex) is required");
        std::process::exit(2);
    }
    v
}

// ------------------------------------------------------------------------------------------------

pub fn run(args: &[String]) {
    quiet_panics();
    match args.get(0).map(|s| s.as_str()) {
        Some("classify") => classify(),
        Some("delete") => delete(args),
        Some("passes") => passes(args),
        Some("fonts") => fonts(args),
        Some("api") => api(args),
        Some("search") => search(args),
        Some("one") => one(args),
        Some("probe") => probe(args),
        Some("attach_probe") => attach_probe(),
        _ => {
            eprintln!("c13 classify|delete|passes|fonts|api|search|one|probe");
            std::process::exit(2)
        }
    }
}

fn ranges_of(pred: impl Fn(char) -> bool) -> String {
    let mut out = String::new();
    let mut start: Option<u32> = None;
    for cp in 0..=0x110000u32 {
        let v = if cp < 0x110000 { char::from_u32(cp).map(|c| pred(c)).unwrap_or(false) } else { false };
        match (v, start) {
            (true, None) => start = Some(cp),
            (false, Some(s)) => {
                out.push_str(&format!(" {:X}-{:X}", s, cp - 1));
                start = None;
            }
            _ => {}
        }
    }
    out
}

/// Exhaustive over all 0x110000 code points (surrogates are not chars: reported as not ignorable).
fn classify() {
    println!("ign{}", ranges_of(hook::is_default_ignorable));
    println!("bit{}", ranges_of(|c| hook::init_unicode_props(c).0 & 0x20 != 0));
    println!("scratch{}", ranges_of(|c| hook::init_unicode_props(c).1 & 0x2 != 0));
    println!("classify-summary evaluations={}", 0x110000 - 0x800);
}

fn fmt_v(g: &VGlyph) -> String {
    format!(
        "{},{},{},{},{},{},{},{},{}",
        g.glyph_id, g.cluster, g.mask, g.unicode_props, g.glyph_props, g.pos[0], g.pos[1], g.pos[2], g.pos[3]
    )
}

fn fmt_vs(gs: &[VGlyph]) -> String {
    if gs.is_empty() {
        return "-".to_string();
    }
    gs.iter().map(fmt_v).collect::<Vec<_>>().join(";")
}

fn rand_clusters(r: &mut Rng, n: usize) -> Vec<u32> {
    let mut v = Vec::with_capacity(n);
    let kind = r.below(4);
    let mut c = r.below(4) as u32;
    for _ in 0..n {
        match kind {
            0 => {
                // non-decreasing with repeats
                c += r.below(3) as u32;
            }
            1 => {
                // strictly increasing
                c += 1 + r.below(2) as u32;
            }
            _ => {}
        }
        v.push(match kind {
            0 | 1 => c,
            2 => 0, // placeholder, reversed below
            _ => r.below(6) as u32, // arbitrary
        });
    }
    if kind == 2 {
        let mut c = r.below(3) as u32;
        for i in (0..n).rev() {
            v[i] = c;
            c += r.below(3) as u32;
        }
    }
    v
}

fn rand_glyphs(r: &mut Rng) -> Vec<VGlyph> {
    let n = match r.below(10) {
        0 => 0,
        1 => 1,
        _ => r.range(2, 9) as usize,
    };
    let cl = rand_clusters(r, n);
    let dens = r.range(1, 4);
    (0..n)
        .map(|i| {
            let ign = r.chance(dens, 5);
            let mut up = r.below(0x20) as u16 | ((r.below(4) as u16) << 6) | ((r.below(3) as u16) << 8);
            if ign {
                up |= 0x20;
            }
            let mut gp = [0u16, 2, 4, 8][r.below(4) as usize];
            if r.chance(1, 6) {
                gp |= 0x10;
            }
            if r.chance(1, 8) {
                gp |= 0x20 | 0x40;
            }
            let mask = match r.below(4) {
                0 => 0,
                1 => r.below(8) as u32,
                2 => 0x8000_0000 | r.below(8) as u32,
                _ => (r.next() as u32) & 0x7FFF_FFFF,
            };
            VGlyph {
                glyph_id: r.below(50) as u32,
                cluster: cl[i],
                mask,
                unicode_props: up,
                glyph_props: gp,
                pos: [
                    r.range(0, 900) as i32,
                    -(r.below(3) as i32) * 100,
                    r.below(40) as i32 - 20,
                    r.below(40) as i32 - 20,
                ],
            }
        })
        .collect()
}

fn delete(args: &[String]) {
    let seed = arg_u64(args, "--seed", 1);
    let n = arg_u64(args, "--n", 100);
    let mut r = Rng::new(seed ^ 0xC13D);
    for k in 0..n {
        let level = r.below(3) as u8;
        let gs = rand_glyphs(&mut r);
        let gs2 = gs.clone();
        match catch(move || hook::delete_default_ignorables(level, &gs2)) {
            Ok(out) => println!("delete {} {} | {} | {}", k, level, fmt_vs(&gs), fmt_vs(&out)),
            Err(e) => println!("delete {} {} | {} | panic {}", k, level, fmt_vs(&gs), e),
        }
    }
}

fn passes(args: &[String]) {
    let seed = arg_u64(args, "--seed", 1);
    let n = arg_u64(args, "--n", 100);
    let spec = vec![(0x200Bu32, 0x200Fu32)];
    let fonts = gen_fonts(&spec);
    let faces: Vec<Face> = fonts.iter().map(|f| Face::from_slice(&f.data, 0).expect("generated font")).collect();
    let mut r = Rng::new(seed ^ 0xC13E);
    for k in 0..n {
        let level = r.below(3) as u8;
        let flags = [0u32, 4, 8, 12, 1, 0x40 | 8][r.below(6) as usize];
        let scratch: u32 = match r.below(8) {
            0 => 0,
            1 => 0x1 | 0x20,
            2 => (r.next() as u32) & 0xFF,
            _ => 0x2 | ((r.below(2) as u32) * 0x21),
        };
        let fi = r.below(2) as usize; // S* / N*
        let invisible = if r.chance(1, 5) { Some(r.range(1, 30) as u16) } else { None };
        let gs = rand_glyphs(&mut r);
        let gs2 = gs.clone();
        let face = faces[fi].clone();
        let space = fonts[fi].space.map(|g| g.to_string()).unwrap_or("-".into());
        let inv = invisible.map(|g| g.to_string()).unwrap_or("-".into());
        let res = catch(std::panic::AssertUnwindSafe(move || {
            hook::default_ignorable_passes(&face, level, flags, scratch, invisible, &gs2)
        }));
        let head = format!("passes {} {} {} {} {} {}", k, level, flags, scratch, inv, space);
        match res {
            Ok(out) => println!("{} | {} | {}", head, fmt_vs(&gs), fmt_vs(&out)),
            Err(e) => println!("{} | {} | panic {}", head, fmt_vs(&gs), e),
        }
    }
}

fn fonts(args: &[String]) {
    let spec = parse_spec(args);
    for f in gen_fonts(&spec) {
        let face = Face::from_slice(&f.data, 0).expect("generated font");
        // self-check of the writer: cmap and hmtx read back through the library
        let mut bad = 0;
        for (a, b, _) in &f.groups {
            for cp in *a..=*b {
                let g = f.gid(cp);
                let got = face.glyph_index(char::from_u32(cp).unwrap()).map(|x| x.0 as u32).unwrap_or(0);
                let adv = face.glyph_hor_advance(rustybuzz::ttf_parser::GlyphId(g as u16)).unwrap_or(0) as i32;
                if got != g || adv != adv_of(g) {
                    bad += 1;
                }
            }
        }
        let gs: Vec<String> = f.groups.iter().map(|(a, b, g)| format!("{:X}-{:X}:{}", a, b, g)).collect();
        println!(
            "font {} space={} glyphs={} selfcheck_bad={} groups={}",
            f.name,
            f.space.map(|g| g.to_string()).unwrap_or("-".into()),
            f.num_glyphs,
            bad,
            gs.join(",")
        );
    }
}

#[derive(Clone, Debug)]
struct Out {
    gid: u32,
    cluster: u32,
    pos: [i32; 4],
}

/// When set, `shape` runs every request through a buffer RECYCLED from an earlier, unrelated use (other direction,
/// level and flags, a not-found glyph for variation selectors, text contexts): what the property says about an ignorable
/// holds for every buffer that carries the same request (`hist=1` in the case line).
static RECYCLED: std::sync::atomic::AtomicBool = std::sync::atomic::AtomicBool::new(false);

fn recycled() -> bool {
    RECYCLED.load(std::sync::atomic::Ordering::Relaxed)
}

fn shape(face: &Face, text: &[u32], dir: Option<Direction>, flags: u32, level: u8) -> Result<Vec<Out>, String> {
    let face = face.clone();
    let text = text.to_vec();
    let hist = recycled();
    catch(std::panic::AssertUnwindSafe(move || {
        let mut b = if hist {
            let mut b0 = UnicodeBuffer::new();
            b0.set_pre_context("x");
            b0.push_str("a\u{FE00}b\u{200D}");
            b0.set_post_context("y");
            b0.set_direction(Direction::RightToLeft);
            b0.set_flags(BufferFlags::PRESERVE_DEFAULT_IGNORABLES | BufferFlags::BEGINNING_OF_TEXT);
            b0.set_cluster_level(level_of(2));
            b0.set_not_found_variation_selector_glyph(2);
            rustybuzz::shape(&face, &[], b0).clear()
        } else {
            UnicodeBuffer::new()
        };
        for (i, cp) in text.iter().enumerate() {
            b.add(char::from_u32(*cp).unwrap(), i as u32);
        }
        if let Some(d) = dir {
            b.set_direction(d);
        }
        // Texts with precomposed Latin letters (which some fonts decompose into letter + mark) are shaped with the
        // script set by the caller: otherwise an inserted ignorable that has a script of its own (U+17B4/U+17B5 Khmer,
        // U+061C Arabic, U+180B.. Mongolian) changes the GUESSED script of the run and with it the shaper's treatment
        // of the decomposed marks - a different request, not a different treatment of the ignorable.
        if text.iter().any(|c| matches!(*c, 0xE1 | 0xE9 | 0x1E0D)) {
            b.set_script(rustybuzz::script::LATIN);
        }
        b.set_flags(BufferFlags::from_bits_truncate(flags));
        b.set_cluster_level(level_of(level));
        let gb = rustybuzz::shape(&face, &[], b);
        let infos = gb.glyph_infos();
        let pos = gb.glyph_positions();
        (0..infos.len())
            .map(|i| Out {
                gid: infos[i].glyph_id,
                cluster: infos[i].cluster,
                pos: [pos[i].x_advance, pos[i].y_advance, pos[i].x_offset, pos[i].y_offset],
            })
            .collect()
    }))
}

fn fmt_out(o: &[Out]) -> String {
    if o.is_empty() {
        return "-".into();
    }
    o.iter()
        .map(|g| format!("{},{},{},{},{},{}", g.gid, g.cluster, g.pos[0], g.pos[1], g.pos[2], g.pos[3]))
        .collect::<Vec<_>>()
        .join(";")
}

fn fmt_text(t: &[u32]) -> String {
    if t.is_empty() {
        return "-".into();
    }
    t.iter().map(|c| format!("{:X}", c)).collect::<Vec<_>>().join(",")
}

fn spec_cps(spec: &[(u32, u32)]) -> Vec<u32> {
    let mut v = Vec::new();
    for (a, b) in spec {
        v.extend(*a..=*b);
    }
    v
}

/// Seeded sample that always contains the named representatives.
fn sample_cps(spec: &[(u32, u32)], r: &mut Rng, extra: usize) -> Vec<u32> {
    let all = spec_cps(spec);
    let mut v: Vec<u32> = vec![
        0xAD, 0x34F, 0x61C, 0x17B4, 0x17B5, 0x180B, 0x180C, 0x180D, 0x180E, 0x180F, 0x200B, 0x200C, 0x200D, 0x200E,
        0x200F, 0x202A, 0x202E, 0x2060, 0x2065, 0x206F, 0xFE00, 0xFE0E, 0xFE0F, 0xFEFF, 0xFFF0, 0xFFF8, 0x1BCA0,
        0x1BCA3, 0x1D173, 0x1D17A, 0xE0000, 0xE0001, 0xE0020, 0xE007F, 0xE0100, 0xE01EF, 0xE0FFF,
    ];
    v.retain(|c| all.contains(c));
    for _ in 0..extra {
        v.push(*r.pick(&all));
    }
    v.sort();
    v.dedup();
    v
}

fn rand_text(r: &mut Rng, letters: &[u32], max: u64) -> Vec<u32> {
    let n = r.range(0, max) as usize;
    (0..n).map(|_| *r.pick(letters)).collect()
}

/// Cases for the model correspondence: left-to-right, texts of letters with 0..3 candidate code
/// points inserted; prints the implementation's output.
fn api(args: &[String]) {
    let seed = arg_u64(args, "--seed", 1);
    let n = arg_u64(args, "--n", 200);
    let spec = parse_spec(args);
    let fonts = gen_fonts(&spec);
    let faces: Vec<Face> = fonts.iter().map(|f| Face::from_slice(&f.data, 0).expect("generated font")).collect();
    let letters = letters();
    let mut r = Rng::new(seed ^ 0xC13A);
    let cps = sample_cps(&spec, &mut r, 40);
    let all = spec_cps(&spec);
    for k in 0..n {
        let fi = r.below(4) as usize;
        let flags = [0u32, 4, 8][r.below(3) as usize];
        let level = r.below(3) as u8;
        let mut text = rand_text(&mut r, &letters, 5);
        for _ in 0..r.below(4) {
            let cp = if r.chance(1, 2) { *r.pick(&cps) } else { *r.pick(&all) };
            let at = r.below(text.len() as u64 + 1) as usize;
            text.insert(at, cp);
        }
        // m=: the characters of the text whose general category is a mark (Mc 10, Me 11, Mn 12 in the real
        // init_unicode_props): unless hidden they are positioned as marks, which the simple model leaves out
        let marks: Vec<String> = text
            .iter()
            .filter(|c| {
                let gc = hook::init_unicode_props(char::from_u32(**c).unwrap()).0 & 0x1F;
                (10..=12).contains(&gc)
            })
            .map(|c| format!("{:X}", c))
            .collect();
        // rtl=1: the script guessed from the text is a right-to-left script (only U+061C ARABIC LETTER
        // MARK can cause that here): the run is shaped in its native direction and reversed back, which
        // moves continuation characters in front of their base; outside the simple model
        let rtl = {
            let mut b = UnicodeBuffer::new();
            for (i, cp) in text.iter().enumerate() {
                b.add(char::from_u32(*cp).unwrap(), i as u32);
            }
            b.guess_segment_properties();
            b.direction() == Direction::RightToLeft
        };
        let head = format!(
            "api {} {} {} {} m={} rtl={}",
            k,
            fonts[fi].name,
            flags,
            level,
            if marks.is_empty() { "-".to_string() } else { marks.join(",") },
            rtl as u8
        );
        match shape(&faces[fi], &text, Some(Direction::LeftToRight), flags, level) {
            Ok(o) => println!("{} | {} | {}", head, fmt_text(&text), fmt_out(&o)),
            Err(e) => println!("{} | {} | panic {}", head, fmt_text(&text), e),
        }
    }
}

struct Case<'a> {
    font: &'a GenFont,
    face: &'a Face<'a>,
    flags: u32,
    level: u8,
    dir: Direction,
    text: &'a [u32],
    pos: usize,
    cp: u32,
}

/// The property predicate on the implementation's output. Returns the name of the violated clause.
/// Err = a clause of the property fails; Ok(Some(note)) = the property holds but something it does
/// not speak about changed (other glyphs in a non-LTR run, offsets of other glyphs).
fn predicate(c: &Case) -> Result<Option<String>, String> {
    let base = shape(c.face, c.text, Some(c.dir), c.flags, c.level).map_err(|e| format!("panic-base:{}", e))?;
    let mut with = c.text.to_vec();
    with.insert(c.pos, c.cp);
    let out = shape(c.face, &with, Some(c.dir), c.flags, c.level).map_err(|e| format!("panic:{}", e))?;
    // the text itself may contain ignorables (removed from the base result on a font without a space glyph or under REMOVE)
    let ign_in_text = c.text.iter().filter(|t| char::from_u32(**t).map(hook::is_default_ignorable).unwrap_or(false)).count();
    if base.len() + ign_in_text < c.text.len() {
        return Err(format!("base-length {}<{}", base.len() + ign_in_text, c.text.len()));
    }
    predicate_on(c, &base, &with, &out, false)?;
    Ok(predicate_on(c, &base, &with, &out, true).err())
}

/// `full` = false: exactly the property (identity and advances of the other glyphs for LTR; for the
/// other directions only the hidden/removed clause and the glyph count). `full` = true: the other
/// glyphs must be unchanged in id and all four position fields in every direction.
fn predicate_on(c: &Case, base: &[Out], with: &[u32], out: &[Out], full: bool) -> Result<(), String> {
    let backward = matches!(c.dir, Direction::RightToLeft | Direction::BottomToTop);
    let ltr = c.dir == Direction::LeftToRight;
    // a font that kerns the ignorable's own glyph against its neighbours: the neighbours' positions legitimately change
    // (the kerning table is a positioning table); only what the property says about the ignorable itself is judged
    let only_the_ignorable = c.font.name.ends_with("kd");
    let others_same = |o: &[Out]| -> Result<(), String> {
        if o.len() != base.len() {
            return Err(format!("others-count {}!={}", o.len(), base.len()));
        }
        if !(ltr || full) || only_the_ignorable {
            return Ok(());
        }
        for (a, b) in o.iter().zip(base.iter()) {
            if a.gid != b.gid {
                return Err(format!("other-glyph-identity {}!={}", a.gid, b.gid));
            }
            if a.pos[0] != b.pos[0] || a.pos[1] != b.pos[1] {
                return Err(format!("other-glyph-advance {:?}!={:?}", a.pos, b.pos));
            }
            if full && a.pos != b.pos {
                return Err(format!("other-glyph-offset {:?}!={:?}", a.pos, b.pos));
            }
        }
        Ok(())
    };
    // The inserted character's glyph is looked for at every index (in backward runs a mark stays
    // behind its base when the run is reversed, so its index is not determined by `pos` alone):
    // some glyph must look as `want` demands and the remaining glyphs must be the base result.
    let one_extra = |what: &str, want: &dyn Fn(&Out) -> Result<(), String>| -> Result<(), String> {
        if out.len() != base.len() + 1 {
            return Err(format!("{}-count {}!={}", what, out.len(), base.len() + 1));
        }
        let mut first_err: Option<String> = None;
        for at in 0..out.len() {
            let r = want(&out[at]).and_then(|_| {
                let mut rest = out.to_vec();
                rest.remove(at);
                others_same(&rest)
            });
            match r {
                Ok(()) => return Ok(()),
                Err(e) => {
                    // prefer the diagnosis at the expected index
                    let expected = if backward { with.len() - 1 - c.pos } else { c.pos };
                    if at == expected || first_err.is_none() {
                        first_err = Some(e);
                    }
                }
            }
        }
        Err(first_err.unwrap_or_else(|| "no-glyph".into()))
    };
    let preserve = c.flags & 4 != 0;
    let remove = c.flags & 8 != 0;
    if preserve {
        // rendered with its own glyph
        let own = c.font.gid(c.cp);
        // "rendered with their own glyphs like any other character of their general category": for a format character
        // (gc Cf; marks may be zeroed by fallback mark positioning) that is the glyph's own hmtx advance, horizontally
        let cf = matches!(c.cp, 0xAD | 0x061C | 0x180E | 0x200B..=0x200F | 0x202A..=0x202E | 0x2060..=0x2064 | 0x2066..=0x206F | 0xFEFF);
        let horizontal = matches!(c.dir, Direction::LeftToRight | Direction::RightToLeft);
        return one_extra("preserve", &|g: &Out| {
            if g.gid != own {
                Err(format!("preserve-own-glyph {}!={}", g.gid, own))
            } else if cf && horizontal && own != 0 && !only_the_ignorable && g.pos[0] != adv_of(own) {
                Err(format!("preserve-own-advance {}!={}", g.pos[0], adv_of(own)))
            } else if cf && !horizontal && own != 0 && !only_the_ignorable && g.pos != [0, -1000, -(adv_of(own) / 2), -800] {
                // vertical: like any other glyph of these fonts (no vmtx, no outlines): advance ascender - descender downwards,
                // origin shifted to (half the horizontal advance, ascender)
                Err(format!("preserve-own-vertical-position {:?}!={:?}", g.pos, [0, -1000, -(adv_of(own) / 2), -800]))
            } else {
                Ok(())
            }
        });
    }
    if !remove && c.font.space.is_some() {
        // shown with the space glyph, zero advance and offset
        let sp = c.font.space.unwrap();
        return one_extra("hidden", &|g: &Out| {
            if g.gid != sp {
                Err(format!("hidden-not-space-glyph {}", g.gid))
            } else if g.pos != [0, 0, 0, 0] {
                Err(format!("hidden-not-zero {:?}", g.pos))
            } else {
                Ok(())
            }
        });
    }
    // removed
    others_same(&out).map_err(|e| format!("removed:{}", e))?;
    // cluster merged into a neighbour: every cluster value is an input value, the sequence is
    // monotone in the run direction, and (levels 0,1) the minimum input cluster is still there
    let n = with.len() as u32;
    for g in out {
        if g.cluster >= n {
            return Err(format!("removed:cluster-not-from-input {}", g.cluster));
        }
    }
    for w in out.windows(2) {
        let okm = if backward { w[0].cluster >= w[1].cluster } else { w[0].cluster <= w[1].cluster };
        if !okm {
            return Err("removed:clusters-not-monotone".into());
        }
    }
    if c.level < 2 && !out.is_empty() && !out.iter().any(|g| g.cluster == 0) {
        return Err("removed:min-cluster-lost".into());
    }
    Ok(())
}

fn case_line(c: &Case) -> String {
    format!(
        "font={} flags={} level={} dir={} text={} pos={} cp={:X}{}",
        c.font.name,
        c.flags,
        c.level,
        dir_name(Some(c.dir)),
        fmt_text(c.text),
        c.pos,
        c.cp,
        if recycled() { " hist=1" } else { "" }
    )
}

/// Every candidate code point (all of them with --all 1, else a seeded sample with the named
/// representatives) x {default, PRESERVE, REMOVE} x 4 directions x 4 fonts x `per` random
/// (text, position) pairs, every insertion position of short texts included.
fn search(args: &[String]) {
    let seed = arg_u64(args, "--seed", 1);
    let per = arg_u64(args, "--per", 2);
    let all = arg_u64(args, "--all", 0) != 0;
    let spec = parse_spec(args);
    let mut fonts = gen_fonts(&spec);
    // fonts with a legacy kern table (predicate only: the simple pipeline model of the API correspondence has no kerning)
    fonts.push(gen_font_full(true, true, &spec, None, true));
    fonts.push(gen_font_full(false, false, &spec, None, true));
    fonts.push(gen_font_full2(true, true, &spec, None, true, true));
    fonts.push(gen_font_mac(&spec));
    let faces: Vec<Face> = fonts.iter().map(|f| Face::from_slice(&f.data, 0).expect("generated font")).collect();
    let mut letters = letters();
    // precomposed letters no font maps: .notdef where the font lacks the pieces, decomposed where it has them
    letters.extend([0xE1, 0xE9, 0x1E0D]);
    let mut r = Rng::new(seed ^ 0xC135);
    let cps = if all { spec_cps(&spec) } else { sample_cps(&spec, &mut r, 60) };
    let _ = &letters;
    let dirs = [Direction::LeftToRight, Direction::RightToLeft, Direction::TopToBottom, Direction::BottomToTop];
    let mut evals = 0u64;
    let mut bad = 0u64;
    let mut beyond = 0u64;
    let mut distinct: std::collections::HashSet<u64> = std::collections::HashSet::new();
    let mut failing_cps: Vec<u32> = Vec::new();
    for cp in &cps {
        let mut reported = 0;
        for _ in 0..per {
            let mut text = rand_text(&mut r, &letters, 4);
            // every sixth text already begins with an ignorable (decided without drawing from the random stream): runs of
            // two leading / adjacent ignorables, each a cluster of its own
            if (text.len() + *cp as usize) % 6 == 0 {
                text.insert(0, [0xADu32, 0x200B, 0x2060][*cp as usize % 3]);
            }
            for pos in 0..=text.len() {
                for (fi, font) in fonts.iter().enumerate() {
                    for flags in [0u32, 4, 8] {
                        for dir in dirs {
                            let level = r.below(3) as u8;
                            let c = Case { font, face: &faces[fi], flags, level, dir, text: &text, pos, cp: *cp };
                            evals += 1;
                            // every fifth case goes through a recycled buffer
                            RECYCLED.store(evals % 5 == 0, std::sync::atomic::Ordering::Relaxed);
                            {
                                use std::hash::{Hash, Hasher};
                                let mut h = std::collections::hash_map::DefaultHasher::new();
                                (fi, flags, level, dir_name(Some(dir)), &text, pos, *cp).hash(&mut h);
                                distinct.insert(h.finish());
                            }
                            match predicate(&c) {
                                Err(e) => {
                                    bad += 1;
                                    if !failing_cps.contains(cp) {
                                        failing_cps.push(*cp);
                                    }
                                    if reported < 3 {
                                        reported += 1;
                                        println!("fail {} | {}", case_line(&c), e);
                                    }
                                }
                                Ok(Some(n)) => {
                                    beyond += 1;
                                    if beyond <= 5 {
                                        println!("beyond {} | {}", case_line(&c), n);
                                    }
                                }
                                Ok(None) => {}
                            }
                        }
                    }
                }
            }
        }
    }
    let f: Vec<String> = failing_cps.iter().map(|c| format!("{:X}", c)).collect();
    println!("failing-cps {}", f.join(","));
    println!(
        "search-summary evaluations={} distinct={} codepoints={} bad={} beyond_property={}",
        evals,
        distinct.len(),
        cps.len(),
        bad,
        beyond
    );
}

fn one(args: &[String]) {
    let spec = parse_spec(args);
    let mut fonts = gen_fonts(&spec);
    fonts.push(gen_font_full(true, true, &spec, None, true));
    fonts.push(gen_font_full(false, false, &spec, None, true));
    fonts.push(gen_font_full2(true, true, &spec, None, true, true));
    fonts.push(gen_font_mac(&spec));
    let name = arg_str(args, "--font").unwrap_or("SM");
    let fi = fonts.iter().position(|f| f.name == name).unwrap_or(0);
    let face = Face::from_slice(&fonts[fi].data, 0).expect("generated font");
    let text: Vec<u32> = arg_str(args, "--text")
        .unwrap_or("-")
        .split(',')
        .filter_map(|x| u32::from_str_radix(x, 16).ok())
        .collect();
    let cp = u32::from_str_radix(arg_str(args, "--cp").unwrap_or("200D"), 16).unwrap();
    let c = Case {
        font: &fonts[fi],
        face: &face,
        flags: arg_u64(args, "--flags", 0) as u32,
        level: arg_u64(args, "--level", 0) as u8,
        dir: dir_parse(arg_str(args, "--dir").unwrap_or("ltr")).unwrap_or(Direction::LeftToRight),
        text: &text,
        pos: arg_u64(args, "--pos", 0) as usize,
        cp,
    };
    RECYCLED.store(arg_u64(args, "--hist", 0) != 0, std::sync::atomic::Ordering::Relaxed);
    let mut with = text.clone();
    with.insert(c.pos.min(text.len()), cp);
    let base = shape(&face, &text, Some(c.dir), c.flags, c.level);
    let out = shape(&face, &with, Some(c.dir), c.flags, c.level);
    println!("case {}", case_line(&c));
    println!("without {}", base.map(|o| fmt_out(&o)).unwrap_or_else(|e| format!("panic {}", e)));
    println!("with    {}", out.map(|o| fmt_out(&o)).unwrap_or_else(|e| format!("panic {}", e)));
    match predicate(&c) {
        Ok(None) => println!("holds"),
        Ok(Some(n)) => println!("holds (beyond the property: {})", n),
        Err(e) => println!("fail {} | {}", case_line(&c), e),
    }
}

/// One code point end to end: classification, props, and U+E000 cp U+E001 on the font with a space
/// glyph and own glyphs for all candidates (default flags, LTR).
fn probe(args: &[String]) {
    let spec = parse_spec(args);
    let cp = u32::from_str_radix(arg_str(args, "--cp").unwrap_or("180F"), 16).unwrap();
    let fonts = gen_fonts(&spec);
    let face = Face::from_slice(&fonts[0].data, 0).expect("generated font");
    let ch = char::from_u32(cp).unwrap();
    let (props, scratch) = hook::init_unicode_props(ch);
    println!(
        "probe cp={:X} is_default_ignorable={} unicode_props=0x{:X} scratch=0x{:X} own_glyph={} space_glyph={}",
        cp,
        hook::is_default_ignorable(ch),
        props,
        scratch,
        fonts[0].gid(cp),
        fonts[0].space.unwrap()
    );
    let text = [0xE000, cp, 0xE001];
    let out = shape(&face, &text, Some(Direction::LeftToRight), 0, 0);
    println!("shape E000,{:X},E001 -> {}", cp, out.map(|o| fmt_out(&o)).unwrap_or_else(|e| format!("panic {}", e)));
    let c = Case { font: &fonts[0], face: &face, flags: 0, level: 0, dir: Direction::LeftToRight, text: &[0xE000, 0xE001], pos: 1, cp };
    match predicate(&c) {
        Ok(_) => println!("hidden yes"),
        Err(e) => println!("hidden no | {}", e),
    }
}

/// Deterministic probe: a font whose GPOS attaches an ignorable's own glyph (GDEF class mark) to a base.
/// zero_width_default_ignorables runs before GPOS::position_finish_offsets (which turns the attachment into an
/// offset), so the hidden glyph ends up with the attachment offset.
fn attach_probe() {
    use crate::fontgen::*;
    let mut f = FontSpec::basic(5);
    f.cmap = vec![(0x20, 4), (0x61, 1), (0x034F, 2), (0x200D, 3)];
    f.gdef = Some(Gdef { glyph_classes: vec![(1, 1), (2, 3), (3, 3), (4, 1)], mark_attach_classes: vec![], mark_glyph_sets: vec![] });
    f.gpos = Some(Layout::single_feature(
        *b"mark",
        vec![Lookup::one(PosSubtable::MarkBase {
            mark_coverage: Coverage::Glyphs(vec![2, 3]),
            base_coverage: Coverage::Glyphs(vec![1]),
            class_count: 1,
            marks: vec![(0, Anchor { x: 50, y: 60 }), (0, Anchor { x: 50, y: 60 })],
            bases: vec![vec![Some(Anchor { x: 300, y: 400 })]],
        })],
    ));
    let data = build(&f);
    let face = Face::from_slice(&data, 0).expect("generated font");
    for (cp, flags) in [(0x034Fu32, 0u32), (0x200D, 0), (0x034F, 4)] {
        let out = shape(&face, &[0x61, cp], Some(Direction::LeftToRight), flags, 0);
        println!("attach_probe text=61,{:X} flags={} -> {}", cp, flags, out.map(|o| fmt_out(&o)).unwrap_or_else(|e| format!("panic {}", e)));
    }
}
