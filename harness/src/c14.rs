//! C14: harness commands for property C14 (stub).

pub fn run(_args: &[String]) {
    eprintln!("c14: not implemented");
    std::process::exit(2);
}
