//! C14: user features act on exactly their cluster range with their value.
//! Sub-commands (line oriented):
//!   new                      Feature::new over the six range forms (boundary + exhaustive small)
//!   parse    --seed --n      Feature::from_str on grammar-generated and byte-mutated strings
//!   setmasks --seed --n      the real hb_buffer_t::set_masks through the hook
//!   plan     --seed --n      feature infos -> compiled mask fields of real plans (hook)
//!   api      --seed --values all|few    implementation-level predicate on generated fonts
//!   corpus   --seed --per-font N        the same predicate on single/alternate features of corpus fonts
//!   witness  FORM A B C      one Feature::new coverage fact (known-finding replay)
use crate::shp;
use crate::util::*;
use rustybuzz::ttf_parser::Tag;
use rustybuzz::verif::feature as hook;
use rustybuzz::{Direction, Face, Feature, UnicodeBuffer};
use std::str::FromStr;

pub fn run(args: &[String]) {
    quiet_panics();
    match args.get(0).map(|s| s.as_str()) {
        Some("consts") => consts(),
        Some("new") => new_cmd(),
        Some("parse") => parse_cmd(args),
        Some("parsein") => parsein_cmd(),
        Some("newprop") => newprop_cmd(),
        Some("setmasks") => setmasks_cmd(args),
        Some("plan") => plan_cmd(args),
        Some("api") => api_cmd(args),
        Some("corpus") => corpus_cmd(args),
        Some("witness") => witness_cmd(args),
        Some("dumpfont") => dumpfont_cmd(args),
        _ => {
            eprintln!("c14 consts|new|parse|setmasks|plan|api|corpus|witness");
            std::process::exit(2)
        }
    }
}

fn consts() {
    println!("consts max_bits={} max_value={} defined={}", hook::MAX_BITS, hook::MAX_VALUE, hook::GLYPH_FLAG_DEFINED);
}

// ------------------------------------------------------------------------------------------------
// Feature::new
// forms: 0 a..b   1 a..=b   2 ..b   3 ..=b   4 a..   5 ..

fn feature_new(form: u8, a: usize, b: usize, value: u32) -> Feature {
    let t = Tag::from_bytes(b"test");
    match form {
        0 => Feature::new(t, value, a..b),
        1 => Feature::new(t, value, a..=b),
        2 => Feature::new(t, value, ..b),
        3 => Feature::new(t, value, ..=b),
        4 => Feature::new(t, value, a..),
        _ => Feature::new(t, value, ..),
    }
}

fn bounds() -> Vec<usize> {
    let mut v: Vec<u128> = vec![0, 1, 2, 3, (1 << 31) - 1, 1 << 31, (1u128 << 32) - 2, (1u128 << 32) - 1, 1u128 << 32, (1u128 << 32) + 1];
    v.push(usize::MAX as u128 - 1);
    v.push(usize::MAX as u128);
    v.into_iter().filter(|x| *x <= usize::MAX as u128).map(|x| x as usize).collect()
}

fn new_cmd() {
    let bs = bounds();
    let mut cases: Vec<(u8, usize, usize)> = Vec::new();
    for form in 0..2u8 {
        for &a in &bs {
            for &b in &bs {
                cases.push((form, a, b));
            }
        }
        for a in 0..=6usize {
            for b in 0..=6usize {
                cases.push((form, a, b));
            }
        }
    }
    for form in 2..5u8 {
        for &x in &bs {
            cases.push((form, x, x));
        }
        for x in 0..=6usize {
            cases.push((form, x, x));
        }
    }
    cases.push((5, 0, 0));
    for (form, a, b) in cases {
        match catch(move || feature_new(form, a, b, 1)) {
            Ok(f) => println!("new {} {} {} -> {} {}", form, a, b, f.start, f.end),
            Err(e) => println!("new {} {} {} -> panic {}", form, a, b, e),
        }
    }
}

/// Implementation-level predicate for Feature::new: the feature acts (through the real set_masks) on
/// cluster c iff the Rust range contains c. One line per deviation; clusters stay below u32::MAX
/// (u32::MAX is the "end of text" sentinel of the range encoding, see the evidence note).
fn newprop_cmd() {
    let mut evals = 0u64;
    let mut nontrivial = 0u64;
    let mut bad = 0u64;
    let cl: Vec<u32> = vec![0, 1, 2, 3, 4, 5, 6, 7, (1 << 31) - 1, 1 << 31, u32::MAX - 2, u32::MAX - 1];
    let bs = bounds();
    let mut cases: Vec<(u8, usize, usize)> = Vec::new();
    for form in 0..6u8 {
        for a in 0..=7usize {
            for b in 0..=7usize {
                cases.push((form, a, b));
            }
        }
        for &a in &bs {
            for &b in &bs {
                cases.push((form, a, b));
            }
        }
    }
    for (form, a, b) in cases {
        let f = match catch(move || feature_new(form, a, b, 1)) {
            Ok(f) => f,
            Err(e) => {
                bad += 1;
                println!("newdev form={} a={} b={} panic={}", form, a, b, e);
                continue;
            }
        };
        let glyphs: Vec<(u32, u32)> = cl.iter().map(|c| (*c, 0)).collect();
        let out = hook::set_masks(&glyphs, 0x10, 0x10, f.start, f.end);
        for (i, c) in cl.iter().enumerate() {
            evals += 1;
            let acts = out[i] != 0;
            let want = in_range(form, a, b, *c as usize);
            if want {
                nontrivial += 1;
            }
            if acts != want {
                bad += 1;
                println!("newdev form={} a={} b={} c={} start={} end={} acts={} in_range={}", form, a, b, c, f.start, f.end, acts as u8, want as u8);
            }
        }
    }
    println!("newprop-summary evaluations={} nontrivial={} bad={}", evals, nontrivial, bad);
}

fn witness_cmd(args: &[String]) {
    // witness FORM A B C : does the implementation's Feature::new(range) act on cluster C? (through the
    // real set_masks), and does the Rust range contain C?
    let form: u8 = args.get(1).and_then(|s| s.parse().ok()).unwrap_or(0);
    let a: usize = args.get(2).and_then(|s| s.parse().ok()).unwrap_or(0);
    let b: usize = args.get(3).and_then(|s| s.parse().ok()).unwrap_or(0);
    let c: u32 = args.get(4).and_then(|s| s.parse().ok()).unwrap_or(0);
    let f = feature_new(form, a, b, 1);
    let acted = hook::set_masks(&[(c, 0)], 0x10, 0x10, f.start, f.end)[0] != 0;
    println!("witness form={} a={} b={} c={} start={} end={} acts={} in_range={}", form, a, b, c, f.start, f.end, acted as u8, in_range(form, a, b, c as usize) as u8);
}

fn in_range(form: u8, a: usize, b: usize, c: usize) -> bool {
    use std::ops::RangeBounds;
    match form {
        0 => (a..b).contains(&c),
        1 => (a..=b).contains(&c),
        2 => (..b).contains(&c),
        3 => (..=b).contains(&c),
        4 => (a..).contains(&c),
        _ => (..).contains(&c),
    }
}

// ------------------------------------------------------------------------------------------------
// Feature::from_str

fn hex(b: &[u8]) -> String {
    if b.is_empty() {
        return "-".to_string();
    }
    b.iter().map(|x| format!("{:02x}", x)).collect()
}

fn gen_number(r: &mut Rng) -> String {
    match r.below(14) {
        0 => "".to_string(),
        1 => format!("{}", r.below(10)),
        2 => format!("{}", r.below(300)),
        3 => format!("-{}", r.below(5)),
        4 => format!("+{}", r.below(50)),
        5 => format!("00{}", r.below(100)),
        6 => ["2147483647", "2147483648", "-2147483648", "-2147483649", "4294967295", "4294967296", "4294967294", "99999999999", "-1", "-0", "+0", "-", "+"][r.below(13) as usize].to_string(),
        7 => format!("{}", r.next() % (1u64 << 33)),
        8 => format!("{}", r.below(1 << 31)),
        _ => format!("{}", r.below(8)),
    }
}

fn gen_tag(r: &mut Rng) -> String {
    const CH: &[u8] = b"abcdefghijklmnopqrstuvwxyzABCDEFGHIJKLMNOPQRSTUVWXYZ0123456789_";
    let n = match r.below(12) {
        0 => 0,
        1 => 5,
        2 => 1,
        3 => 2,
        4 => 3,
        _ => 4,
    };
    if n == 4 && r.chance(1, 2) {
        return ["kern", "liga", "aalt", "salt", "ss01", "smcp", "calt", "on", "off"][r.below(9) as usize].to_string();
    }
    (0..n).map(|_| CH[r.below(CH.len() as u64) as usize] as char).collect()
}

fn gen_spaces(r: &mut Rng) -> String {
    match r.below(8) {
        0 => " ".to_string(),
        1 => "\t ".to_string(),
        2 => "\n".to_string(),
        3 => "\x0c\r".to_string(),
        _ => String::new(),
    }
}

fn gen_feature_string(r: &mut Rng) -> String {
    let mut s = String::new();
    match r.below(6) {
        0 => s.push('+'),
        1 => s.push('-'),
        _ => {}
    }
    s += &gen_spaces(r);
    let q = match r.below(8) {
        0 => Some('\''),
        1 => Some('"'),
        _ => None,
    };
    if let Some(q) = q {
        s.push(q);
    }
    s += &gen_tag(r);
    if let Some(q) = q {
        match r.below(10) {
            0 => {}
            1 => s.push(if q == '"' { '\'' } else { '"' }),
            _ => s.push(q),
        }
    }
    s += &gen_spaces(r);
    match r.below(10) {
        0 => s += "[]",
        1 => s += "[:]",
        2 => s += &format!("[{}]", gen_number(r)),
        3 => s += &format!("[{}:]", gen_number(r)),
        4 => s += &format!("[:{}]", gen_number(r)),
        5 => s += &format!("[{}:{}]", gen_number(r), gen_number(r)),
        6 => s += &format!("[{};{}]", gen_number(r), gen_number(r)),
        _ => {}
    }
    match r.below(12) {
        0 => s += &format!("={}", gen_number(r)),
        1 => s += "=on",
        2 => s += "=off",
        3 => s += ["=oN", "=OFF", "=oFf", "=o", "=of", "=onn", "= on", "=-on", "on", " off", "=+off"][r.below(11) as usize],
        4 => s += &gen_number(r),
        5 => s += &format!("={}", r.below(300)),
        6 => s += &format!(" {}", gen_number(r)),
        _ => {}
    }
    s += &gen_spaces(r);
    if r.chance(1, 25) {
        s.push(['x', ']', '=', ',', '\u{b}', '\u{e9}'][r.below(6) as usize]);
    }
    s
}

fn mutate(r: &mut Rng, s: &str) -> String {
    const INTERESTING: &[u8] = b"[]:;=+-'\" \t\n\x0b\x0c\r_09azAZ,.onf\x00\x7f";
    let mut b = s.as_bytes().to_vec();
    let k = 1 + r.below(3);
    for _ in 0..k {
        let pos = r.below(b.len() as u64 + 1) as usize;
        let byte = if r.chance(3, 4) { INTERESTING[r.below(INTERESTING.len() as u64) as usize] } else { r.below(256) as u8 };
        match r.below(4) {
            0 if pos < b.len() => b[pos] = byte,
            1 => b.insert(pos, byte),
            2 if pos < b.len() => {
                b.remove(pos);
            }
            _ if pos < b.len() => {
                let c = b[pos];
                b.insert(pos, c)
            }
            _ => b.push(byte),
        }
    }
    String::from_utf8_lossy(&b).to_string()
}

fn parse_one(s: &str) {
    let s2 = s.to_string();
    let res = catch(move || Feature::from_str(&s2).ok());
    match res {
        Ok(Some(f)) => println!("parse {} -> {} {} {} {}", hex(s.as_bytes()), f.tag.0, f.value, f.start, f.end),
        Ok(None) => println!("parse {} -> none", hex(s.as_bytes())),
        Err(e) => println!("parse {} -> panic {}", hex(s.as_bytes()), e),
    }
}

/// stdin: one hex-encoded string per line ("-" = empty)
fn parsein_cmd() {
    use std::io::BufRead;
    for line in std::io::stdin().lock().lines().flatten() {
        let l = line.trim();
        let bytes: Vec<u8> = if l == "-" { Vec::new() } else { (0..l.len() / 2).filter_map(|i| u8::from_str_radix(&l[2 * i..2 * i + 2], 16).ok()).collect() };
        match String::from_utf8(bytes) {
            Ok(s) => parse_one(&s),
            Err(_) => println!("parse {} -> notutf8", l),
        }
    }
}

fn parse_cmd(args: &[String]) {
    let seed = arg_u64(args, "--seed", 1);
    let n = arg_u64(args, "--n", 2000);
    // the crate's own 20 test strings, the documented forms and some fixed edge cases
    for s in [
        "kern", "+kern", "-kern", "kern=0", "kern=1", "kern=2", "kern[]", "kern[:]", "kern[5:]", "kern[:5]", "kern[3:5]", "kern[3]",
        "kern[3:5]=2", "kern[3;5]=2", "kern[:-1]", "kern[-1]", "kern=on", "kern=off", "kern=oN", "kern=oFf", "aalt=2", "aalt[3:5]=2",
        "", " ", "+", "-", "=1", "[1]", "k", "ke rn", "kern ", " kern", "'kern'", "\"kern\"", "'kern\"", "'kern", "kern'", "kern[", "kern]",
        "kern[1", "kern[1:2", "kern[1:2]]", "kern[1:2]=", "kern=", "kern==1", "kern=1 1", "kern=1x", "kern 1", "kern[0:1]", "kern[0:0]",
        "kern[2:1]", "kern[4294967295]", "kern[2147483647]", "kern[2147483648]", "kern[-2147483648]", "kern[0:4294967295]", "kern[-:5]",
        "kern[+:5]", "kern[+3:+5]", "kern[3:5]on", "kern[3:5] off", "kern=-1", "kern=4294967295", "kern=2147483647", "kern=-2147483648",
        "kern=99999999999", "kerning", "ke_n", "k\u{e9}rn", "kern\u{b}", "kern[1]\u{b}", "kern = 1", "kern =1", "kern= 1", "-kern=1",
        "+kern=0", "- kern", "--kern", "kern[ 1]", "kern[1 ]", "kern[1: 2]", "kern [1]", "kern[1] =2", "kern[1]= 2", "kern=on1", "kern=1on",
        "on", "off", "=on", "kern=\ton", "kern=o n",
    ] {
        parse_one(s);
    }
    let mut r = Rng::new(seed);
    for i in 0..n {
        let s = gen_feature_string(&mut r);
        if i % 3 == 2 {
            let m = mutate(&mut r, &s);
            parse_one(&m);
        } else {
            parse_one(&s);
        }
    }
}

// ------------------------------------------------------------------------------------------------
// set_masks

fn rand_cluster(r: &mut Rng) -> u32 {
    match r.below(12) {
        0 => u32::MAX,
        1 => u32::MAX - 1,
        2 => 1 << 31,
        3 => r.next() as u32,
        _ => r.below(9) as u32,
    }
}

fn field_mask(shift: u32, bits: u32) -> u32 {
    (((1u64 << (shift + bits)) - (1u64 << shift)) & 0xFFFF_FFFF) as u32
}

fn setmasks_cmd(args: &[String]) {
    let seed = arg_u64(args, "--seed", 1);
    let n = arg_u64(args, "--n", 2000);
    let mut r = Rng::new(seed);
    for _ in 0..n {
        let len = r.below(10) as usize;
        let infos: Vec<(u32, u32)> = (0..len)
            .map(|_| {
                let m = match r.below(4) {
                    0 => 0,
                    1 => u32::MAX,
                    2 => 0x8000_0000,
                    _ => r.next() as u32,
                };
                (rand_cluster(&mut r), m)
            })
            .collect();
        let shift = r.below(32) as u32;
        let bits = r.below(9) as u32;
        let mask = match r.below(8) {
            0 => 0,
            1 => r.next() as u32,
            2 => u32::MAX,
            _ => field_mask(shift, bits.min(32 - shift)),
        };
        let value = match r.below(5) {
            0 => r.next() as u32,
            1 => 0,
            _ => (r.below(300) as u32).wrapping_shl(shift),
        };
        let (start, end) = match r.below(8) {
            0 => (0, u32::MAX),
            1 => (0, u32::MAX - 1),
            2 => (1, u32::MAX),
            3 => (u32::MAX, u32::MAX),
            4 => (rand_cluster(&mut r), rand_cluster(&mut r)),
            _ => {
                let a = r.below(9) as u32;
                (a, a + r.below(6) as u32)
            }
        };
        let inf2 = infos.clone();
        let res = catch(move || hook::set_masks(&inf2, value, mask, start, end));
        let ins: Vec<String> = infos.iter().map(|(c, m)| format!("{}:{}", c, m)).collect();
        let ins = if ins.is_empty() { "-".to_string() } else { ins.join(",") };
        match res {
            Ok(o) => {
                let os: Vec<String> = o.iter().map(|m| m.to_string()).collect();
                println!("sm {} {} {} {} {} -> {}", value, mask, start, end, ins, if os.is_empty() { "-".to_string() } else { os.join(",") })
            }
            Err(e) => println!("sm {} {} {} {} {} -> panic {}", value, mask, start, end, ins, e),
        }
    }
}

// ------------------------------------------------------------------------------------------------
// generated fonts (private minimal sfnt writer: head hhea maxp hmtx cmap GSUB GPOS)

#[derive(Clone, Debug)]
pub enum Kind {
    /// SingleSubstFormat1 on `glyphs` with this delta
    Single { glyphs: Vec<u16>, delta: i16 },
    /// AlternateSubstFormat1: for glyph g the alternates are `first(g) .. first(g)+count`
    Alt { glyphs: Vec<u16>, firsts: Vec<u16>, count: u16 },
    /// GPOS SinglePosFormat1: x_advance += adv
    Pos { glyphs: Vec<u16>, adv: i16 },
    /// this (GSUB) feature lists the lookup of feature `k` of the same font (k < own index, a Single feature):
    /// one lookup shared by several features, gated by the union of their masks
    Same(usize),
}

#[derive(Clone, Debug)]
pub struct Feat {
    pub tag: [u8; 4],
    pub kind: Kind,
}

struct W(Vec<u8>);
impl W {
    fn u16(&mut self, v: u16) {
        self.0.extend_from_slice(&v.to_be_bytes());
    }
    fn i16(&mut self, v: i16) {
        self.0.extend_from_slice(&v.to_be_bytes());
    }
    fn u32(&mut self, v: u32) {
        self.0.extend_from_slice(&v.to_be_bytes());
    }
    fn tag(&mut self, t: &[u8; 4]) {
        self.0.extend_from_slice(t);
    }
    fn set16(&mut self, at: usize, v: usize) {
        assert!(v <= 0xFFFF, "offset overflow");
        self.0[at..at + 2].copy_from_slice(&(v as u16).to_be_bytes());
    }
}

fn coverage(w: &mut W, glyphs: &[u16]) {
    let mut g = glyphs.to_vec();
    g.sort();
    w.u16(1);
    w.u16(g.len() as u16);
    for x in g {
        w.u16(x);
    }
}

fn subtable(kind: &Kind) -> (u16, Vec<u8>) {
    let mut w = W(Vec::new());
    match kind {
        Kind::Single { glyphs, delta } => {
            w.u16(1);
            w.u16(6);
            w.i16(*delta);
            coverage(&mut w, glyphs);
            (1, w.0)
        }
        Kind::Alt { glyphs, firsts, count } => {
            // sort by glyph (coverage order)
            let mut idx: Vec<usize> = (0..glyphs.len()).collect();
            idx.sort_by_key(|i| glyphs[*i]);
            w.u16(1);
            let cov_at = w.0.len();
            w.u16(0);
            w.u16(glyphs.len() as u16);
            let offs_at = w.0.len();
            for _ in 0..glyphs.len() {
                w.u16(0);
            }
            for (k, i) in idx.iter().enumerate() {
                let here = w.0.len();
                w.set16(offs_at + 2 * k, here);
                w.u16(*count);
                for a in 0..*count {
                    w.u16(firsts[*i] + a);
                }
            }
            let here = w.0.len();
            w.set16(cov_at, here);
            coverage(&mut w, glyphs);
            (3, w.0)
        }
        Kind::Pos { glyphs, adv } => {
            w.u16(1);
            w.u16(8);
            w.u16(0x0004);
            w.i16(*adv);
            coverage(&mut w, glyphs);
            (1, w.0)
        }
        Kind::Same(_) => {
            // the feature's own lookup slot: a single substitution that covers nothing
            w.u16(1);
            w.u16(6);
            w.i16(0);
            coverage(&mut w, &[]);
            (1, w.0)
        }
    }
}

/// One layout table (GSUB or GPOS): script DFLT with a default LangSys listing every feature; feature i
/// owns lookup i.
fn layout_table(feats: &[&Feat]) -> Vec<u8> {
    let mut order: Vec<usize> = (0..feats.len()).collect();
    order.sort_by_key(|i| feats[*i].tag);
    let mut w = W(Vec::new());
    w.u16(1);
    w.u16(0);
    w.u16(10); // script list
    let fl_at = w.0.len();
    w.u16(0);
    let ll_at = w.0.len();
    w.u16(0);
    // ScriptList @10
    w.u16(1);
    w.tag(b"DFLT");
    w.u16(8);
    // Script @18: defaultLangSys at +4
    w.u16(4);
    w.u16(0);
    // LangSys
    w.u16(0);
    w.u16(0xFFFF);
    w.u16(feats.len() as u16);
    for i in 0..feats.len() {
        w.u16(i as u16);
    }
    // FeatureList (sorted by tag; feature record k -> lookup order[k])
    let fl = w.0.len();
    w.set16(fl_at, fl);
    w.u16(feats.len() as u16);
    let rec_at = w.0.len();
    for k in 0..feats.len() {
        w.tag(&feats[order[k]].tag);
        w.u16(0);
        let _ = k;
    }
    for k in 0..feats.len() {
        let here = w.0.len() - fl;
        w.set16(rec_at + 6 * k + 4, here);
        w.u16(0);
        w.u16(1);
        let li = match feats[order[k]].kind {
            Kind::Same(j) => j,
            _ => order[k],
        };
        w.u16(li as u16);
    }
    // LookupList
    let ll = w.0.len();
    w.set16(ll_at, ll);
    w.u16(feats.len() as u16);
    let lo_at = w.0.len();
    for _ in 0..feats.len() {
        w.u16(0);
    }
    for (i, f) in feats.iter().enumerate() {
        let here = w.0.len() - ll;
        w.set16(lo_at + 2 * i, here);
        let (ty, st) = subtable(&f.kind);
        w.u16(ty);
        w.u16(0);
        w.u16(1);
        w.u16(8);
        w.0.extend_from_slice(&st);
    }
    w.0
}

pub const BASE_CP: u32 = 0xE000;
pub const ADVANCE: i32 = 500;

/// Font with `nbase` base glyphs (gid 1..=nbase for U+E000..), `nglyphs` glyphs, and the given features.
pub fn build_font(nbase: u16, nglyphs: u16, feats: &[Feat]) -> Vec<u8> {
    let mut tables: Vec<([u8; 4], Vec<u8>)> = Vec::new();
    // head
    let mut w = W(Vec::new());
    w.u32(0x0001_0000);
    w.u32(0x0001_0000);
    w.u32(0);
    w.u32(0x5F0F_3CF5);
    w.u16(0);
    w.u16(1000);
    w.u32(0);
    w.u32(0);
    w.u32(0);
    w.u32(0);
    for _ in 0..4 {
        w.i16(0);
    }
    w.u16(0);
    w.u16(8);
    w.i16(2);
    w.i16(0);
    w.i16(0);
    tables.push((*b"head", w.0));
    // hhea
    let mut w = W(Vec::new());
    w.u32(0x0001_0000);
    w.i16(800);
    w.i16(-200);
    w.i16(0);
    w.u16(ADVANCE as u16);
    for _ in 0..11 {
        w.i16(0);
    }
    w.u16(1);
    tables.push((*b"hhea", w.0));
    // maxp 0.5
    let mut w = W(Vec::new());
    w.u32(0x0000_5000);
    w.u16(nglyphs);
    tables.push((*b"maxp", w.0));
    // hmtx
    let mut w = W(Vec::new());
    w.u16(ADVANCE as u16);
    w.i16(0);
    for _ in 1..nglyphs {
        w.i16(0);
    }
    tables.push((*b"hmtx", w.0));
    // cmap format 12
    let mut w = W(Vec::new());
    w.u16(0);
    w.u16(1);
    w.u16(3);
    w.u16(10);
    w.u32(12);
    w.u16(12);
    w.u16(0);
    w.u32(16 + 12);
    w.u32(0);
    w.u32(1);
    w.u32(BASE_CP);
    w.u32(BASE_CP + nbase as u32 - 1);
    w.u32(1);
    tables.push((*b"cmap", w.0));
    let gsub: Vec<&Feat> = feats.iter().filter(|f| !matches!(f.kind, Kind::Pos { .. })).collect();
    let gpos: Vec<&Feat> = feats.iter().filter(|f| matches!(f.kind, Kind::Pos { .. })).collect();
    if !gsub.is_empty() {
        tables.push((*b"GSUB", layout_table(&gsub)));
    }
    if !gpos.is_empty() {
        tables.push((*b"GPOS", layout_table(&gpos)));
    }
    tables.sort_by_key(|t| t.0);
    let n = tables.len();
    let mut out = W(Vec::new());
    out.u32(0x0001_0000);
    out.u16(n as u16);
    out.u16(0);
    out.u16(0);
    out.u16(0);
    let mut off = 12 + 16 * n;
    for (t, d) in &tables {
        out.tag(t);
        out.u32(0);
        out.u32(off as u32);
        out.u32(d.len() as u32);
        off += (d.len() + 3) & !3;
    }
    for (_, d) in &tables {
        out.0.extend_from_slice(d);
        while out.0.len() % 4 != 0 {
            out.0.push(0);
        }
    }
    out.0
}

fn tag4(s: &str) -> [u8; 4] {
    let b = s.as_bytes();
    [b[0], b[1], b[2], b[3]]
}

/// Font A: one feature per base glyph (glyph i+1 belongs to feature i).
///   ss01 single, salt alt(5), liga single (default on), kern pos (default on), aalt alt(300), calt single
///   (default on), ss02 single, smcp alt(2)
fn font_a() -> (Vec<u8>, Vec<Feat>) {
    let mut feats = Vec::new();
    let names = ["ss01", "salt", "liga", "kern", "aalt", "calt", "ss02", "smcp"];
    let mut next: u16 = 100;
    for (i, n) in names.iter().enumerate() {
        let g = i as u16 + 1;
        let kind = match *n {
            "salt" => Kind::Alt { glyphs: vec![g], firsts: vec![next], count: 5 },
            "aalt" => Kind::Alt { glyphs: vec![g], firsts: vec![next], count: 300 },
            "smcp" => Kind::Alt { glyphs: vec![g], firsts: vec![next], count: 2 },
            "kern" => Kind::Pos { glyphs: vec![g], adv: 50 + i as i16 },
            _ => Kind::Single { glyphs: vec![g], delta: (next - g) as i16 },
        };
        next += match *n {
            "aalt" => 300,
            _ => 10,
        };
        feats.push(Feat { tag: tag4(n), kind });
    }
    (build_font(names.len() as u16, next + 10, &feats), feats)
}

/// Font B: 40 alternate features f000..f039 (16 alternates each), feature i on base glyph i+1.
fn font_b() -> (Vec<u8>, Vec<Feat>) {
    let mut feats = Vec::new();
    for i in 0..40u16 {
        let tag = format!("f{:03}", i);
        feats.push(Feat { tag: tag4(&tag), kind: Kind::Alt { glyphs: vec![i + 1], firsts: vec![100 + 20 * i], count: 16 } });
    }
    (build_font(40, 1000, &feats), feats)
}

/// Font C: two single features on the same glyphs: ss01: 1->2 ; ss02: 1->3, 2->4  (lookup order ss01, ss02)
fn font_c() -> (Vec<u8>, Vec<Feat>) {
    let feats = vec![
        Feat { tag: *b"ss01", kind: Kind::Single { glyphs: vec![1], delta: 1 } },
        Feat { tag: *b"ss02", kind: Kind::Single { glyphs: vec![1, 2], delta: 2 } },
    ];
    (build_font(1, 10, &feats), feats)
}

/// Font D: lookups shared between features: ss01 and ss02 list one lookup (1 -> 11), ss03 its own (2 -> 22),
/// cv01 and cv02 and ss04 list another one (3 -> 33), kern positions glyph 4.
fn font_d() -> (Vec<u8>, Vec<Feat>) {
    let feats = vec![
        Feat { tag: *b"ss01", kind: Kind::Single { glyphs: vec![1], delta: 10 } },
        Feat { tag: *b"ss02", kind: Kind::Same(0) },
        Feat { tag: *b"ss03", kind: Kind::Single { glyphs: vec![2], delta: 20 } },
        Feat { tag: *b"cv01", kind: Kind::Single { glyphs: vec![3], delta: 30 } },
        Feat { tag: *b"cv02", kind: Kind::Same(3) },
        Feat { tag: *b"ss04", kind: Kind::Same(3) },
        Feat { tag: *b"kern", kind: Kind::Pos { glyphs: vec![4], adv: 70 } },
    ];
    (build_font(4, 50, &feats), feats)
}

fn dumpfont_cmd(args: &[String]) {
    let (d, _) = match args.get(1).map(|s| s.as_str()) {
        Some("b") => font_b(),
        Some("c") => font_c(),
        Some("d") => font_d(),
        _ => font_a(),
    };
    use std::io::Write;
    std::io::stdout().write_all(&d).unwrap();
}

const DEFAULT_ON: &[&str] = &["abvm", "blwm", "ccmp", "locl", "mark", "mkmk", "rlig", "calt", "clig", "curs", "dist", "kern", "liga", "rclt", "rvrn"];

fn default_on(tag: &[u8; 4]) -> bool {
    DEFAULT_ON.iter().any(|t| t.as_bytes() == tag)
}

// ------------------------------------------------------------------------------------------------
// plan dumps

fn fmt_tag(t: u32) -> String {
    t.to_string()
}

fn plan_line(label: &str, face: &Face, dir: Direction, script: Option<rustybuzz::Script>, feats: &[Feature]) {
    let f2 = feats.to_vec();
    // hb_font_t is not UnwindSafe-friendly by type, assert it
    let res = catch(std::panic::AssertUnwindSafe(|| hook::plan_dump(face, dir, script, None, &f2)));
    match res {
        Ok(d) => {
            let infos: Vec<String> = d.infos.iter().map(|(t, s, m, f, dv, fd)| format!("{}:{}:{}:{}:{}:{}", fmt_tag(*t), s, m, f, dv, *fd as u8)).collect();
            let fs: Vec<String> = d.features.iter().map(|(t, s, m, o)| format!("{}:{}:{}:{}", fmt_tag(*t), s, m, o)).collect();
            let um: Vec<String> = feats.iter().zip(d.user_masks.iter()).map(|(f, (m, s))| format!("{}:{}:{}:{}:{}", f.tag.0, m, s, f.value, (f.start == 0 && f.end == u32::MAX) as u8)).collect();
            println!(
                "plan {} simple={} infos={} gm={} feats={} um={}",
                label,
                d.simple as u8,
                if infos.is_empty() { "-".into() } else { infos.join(",") },
                d.global_mask,
                if fs.is_empty() { "-".into() } else { fs.join(",") },
                if um.is_empty() { "-".into() } else { um.join(",") }
            );
        }
        Err(e) => println!("plan {} panic {}", label, e),
    }
}

fn rand_value(r: &mut Rng) -> u32 {
    match r.below(14) {
        0 => 0,
        1 | 2 | 3 => 1,
        4 => 2,
        5 => 3,
        6 => 7,
        7 => 8,
        8 => 255,
        9 => 256,
        10 => 1000,
        11 => u32::MAX,
        _ => r.below(300) as u32,
    }
}

fn rand_user_features(r: &mut Rng, tags: &[[u8; 4]], maxn: u64) -> Vec<Feature> {
    let n = r.below(maxn + 1);
    (0..n)
        .map(|_| {
            let tag = if r.chance(1, 12) { *b"zzzz" } else if r.chance(1, 8) { tag4(DEFAULT_ON[r.below(DEFAULT_ON.len() as u64) as usize]) } else { tags[r.below(tags.len() as u64) as usize] };
            let (start, end) = match r.below(5) {
                0 => (0, u32::MAX),
                1 => (0, r.below(7) as u32),
                2 => (r.below(7) as u32, u32::MAX),
                _ => {
                    let a = r.below(7) as u32;
                    (a, a + r.below(5) as u32)
                }
            };
            Feature { tag: Tag::from_bytes(&tag), value: rand_value(r), start, end }
        })
        .collect()
}

fn font_feature_tags(face: &Face) -> Vec<[u8; 4]> {
    let mut out = Vec::new();
    if let Some(t) = face.tables().gsub {
        for f in t.features {
            out.push(f.tag.to_bytes());
        }
    }
    if let Some(t) = face.tables().gpos {
        for f in t.features {
            out.push(f.tag.to_bytes());
        }
    }
    out.sort();
    out.dedup();
    if out.is_empty() {
        out.push(*b"liga");
    }
    out
}

fn plan_cmd(args: &[String]) {
    let seed = arg_u64(args, "--seed", 1);
    let n = arg_u64(args, "--n", 600);
    let mut r = Rng::new(seed);
    let gens = [font_a().0, font_b().0, font_c().0];
    let corpus = shp::corpus_fonts(&shp::repo_root());
    let mut datas: Vec<(String, Vec<u8>)> = Vec::new();
    for (i, g) in gens.iter().enumerate() {
        datas.push((format!("gen{}", i), g.clone()));
    }
    // a deterministic sample of corpus fonts
    let mut picked = 0;
    let mut k = (seed as usize) % 7;
    while picked < 12 && k < corpus.len() {
        if let Ok(d) = std::fs::read(&corpus[k]) {
            if Face::from_slice(&d, 0).map_or(false, |f| f.tables().gsub.is_some() || f.tables().gpos.is_some()) {
                datas.push((corpus[k].rsplit('/').next().unwrap_or("?").to_string(), d));
                picked += 1;
            }
        }
        k += 37;
    }
    let scripts = [None, Some(rustybuzz::script::LATIN), Some(rustybuzz::script::ARABIC), Some(rustybuzz::script::DEVANAGARI), Some(rustybuzz::script::HANGUL)];
    for i in 0..n {
        let (label, data) = &datas[(i as usize) % datas.len()];
        let Some(face) = Face::from_slice(data, 0) else { continue };
        let tags = font_feature_tags(&face);
        // small lists often, long lists (bit exhaustion) regularly
        let maxn = match r.below(4) {
            0 => 0,
            1 => 3,
            2 => 12,
            _ => 45,
        };
        let feats = rand_user_features(&mut r, &tags, maxn);
        let script = scripts[r.below(scripts.len() as u64) as usize];
        let dir = match (script, r.below(6)) {
            (Some(s), _) if s == rustybuzz::script::ARABIC => Direction::RightToLeft,
            (_, 0) => Direction::TopToBottom,
            (_, 1) => Direction::RightToLeft,
            _ => Direction::LeftToRight,
        };
        plan_line(label, &face, dir, script, &feats);
    }
}

// ------------------------------------------------------------------------------------------------
// implementation-level predicate on generated fonts

#[derive(Clone, Debug)]
struct Case {
    font: &'static str,
    text: Vec<(u32, u32)>, // (base glyph index 0.., cluster)
    feats: Vec<Feature>,
    dir: Direction,
    level: u8,
}

fn fmt_feature(f: &Feature) -> String {
    let t = f.tag.to_bytes();
    format!("{}[{}:{}]={}", String::from_utf8_lossy(&t), f.start, f.end, f.value)
}

fn fmt_case(c: &Case) -> String {
    let t: Vec<String> = c.text.iter().map(|(g, k)| format!("{:X}:{}", BASE_CP + g, k)).collect();
    let f: Vec<String> = c.feats.iter().map(fmt_feature).collect();
    format!("font={} text={} feats={} dir={} level={}", c.font, t.join(","), if f.is_empty() { "-".into() } else { f.join(";") }, shp::dir_name(Some(c.dir)), c.level)
}

/// (gid, cluster, x_advance) per output glyph
fn shape_case(face: &Face, c: &Case) -> Vec<(u32, u32, i32)> {
    let mut b = UnicodeBuffer::new();
    for (g, k) in &c.text {
        b.add(char::from_u32(BASE_CP + g).unwrap(), *k);
    }
    b.set_direction(c.dir);
    b.set_cluster_level(shp::level_of(c.level));
    let gb = rustybuzz::shape(face, &c.feats, b);
    gb.glyph_infos().iter().zip(gb.glyph_positions().iter()).map(|(i, p)| (i.glyph_id, i.cluster, p.x_advance)).collect()
}

/// The property's own reading of "the value of feature `tag` at cluster c": the (single) user feature of
/// that tag decides inside its range; elsewhere (and without one) the default.
fn value_at(feats: &[Feature], tag: &[u8; 4], c: u32) -> u32 {
    let dflt = if default_on(tag) { 1 } else { 0 };
    let mut v = dflt;
    for f in feats {
        if f.tag == Tag::from_bytes(tag) {
            let global = f.start == 0 && f.end == u32::MAX;
            if global || (f.start <= c && c < f.end) {
                v = f.value;
            }
        }
    }
    v
}

/// Expected (gid, advance) of base glyph `g` (1-based gid) under the font's features at cluster c.
/// `allocated(tag)`: whether the plan gave the feature a mask (features dropped for lack of bits do nothing).
fn expected(featsdef: &[Feat], user: &[Feature], gid0: u16, c: u32, allocated: &dyn Fn(&[u8; 4]) -> bool) -> (u32, i32) {
    let mut gid = gid0;
    let mut adv = ADVANCE;
    // GSUB lookups in lookup order = feature order in `featsdef` (GSUB ones), then GPOS
    for (fi, f) in featsdef.iter().enumerate() {
        let mut v = value_at(user, &f.tag, c);
        if !allocated(&f.tag) {
            v = 0;
        }
        // a lookup listed by several features fires where any of them is on
        for g in featsdef {
            if let Kind::Same(j) = g.kind {
                if j == fi && allocated(&g.tag) && value_at(user, &g.tag, c) != 0 {
                    v = v.max(1);
                }
            }
        }
        match &f.kind {
            Kind::Same(_) => {}
            Kind::Single { glyphs, delta } => {
                if v != 0 && glyphs.contains(&gid) {
                    gid = (gid as i32 + *delta as i32) as u16;
                }
            }
            Kind::Alt { glyphs, firsts, count } => {
                if let Some(i) = glyphs.iter().position(|x| *x == gid) {
                    if v >= 1 && v <= *count as u32 {
                        gid = firsts[i] + (v as u16 - 1);
                    }
                }
            }
            Kind::Pos { .. } => {}
        }
    }
    for f in featsdef {
        if let Kind::Pos { glyphs, adv: a } = &f.kind {
            let mut v = value_at(user, &f.tag, c);
            if !allocated(&f.tag) {
                v = 0;
            }
            if v != 0 && glyphs.contains(&gid) {
                adv += *a as i32;
            }
        }
    }
    (gid as u32, adv)
}

struct Stats {
    evals: u64,
    nontrivial: u64,
    bad: u64,
}

/// Returns true when the case satisfies the predicate. `nontrivial` = some glyph expected to differ from
/// the all-features-default result.
fn check_case(face: &Face, featsdef: &[Feat], c: &Case, st: &mut Stats) -> bool {
    st.evals += 1;
    // which user features got a mask (hook): a tag is "allocated" when it is global-default or its get_mask != 0
    let dump = catch(std::panic::AssertUnwindSafe(|| hook::plan_dump(face, c.dir, None, None, &c.feats)));
    let dump = match dump {
        Ok(d) => d,
        Err(e) => {
            st.bad += 1;
            println!("fail kind=plan-panic:{} {}", e, fmt_case(c));
            return false;
        }
    };
    let mapped: Vec<u32> = dump.features.iter().map(|f| f.0).collect();
    let allocated = |t: &[u8; 4]| mapped.contains(&Tag::from_bytes(t).0);
    let out = catch(std::panic::AssertUnwindSafe(|| shape_case(face, c)));
    let out = match out {
        Ok(o) => o,
        Err(e) => {
            st.bad += 1;
            println!("fail kind=shape-panic:{} {}", e, fmt_case(c));
            return false;
        }
    };
    if out.len() != c.text.len() {
        st.bad += 1;
        println!("fail kind=glyph-count {} got={:?}", fmt_case(c), out);
        return false;
    }
    let rtl = c.dir == Direction::RightToLeft;
    let mut ok = true;
    let mut nontrivial = false;
    for (i, (g, k)) in c.text.iter().enumerate() {
        let o = if rtl { out[c.text.len() - 1 - i] } else { out[i] };
        let (eg, ea) = expected(featsdef, &c.feats, *g as u16 + 1, *k, &allocated);
        let (dg, da) = expected(featsdef, &[], *g as u16 + 1, *k, &|_| true);
        if (eg, ea) != (dg, da) {
            nontrivial = true;
        }
        if o.1 != *k || o.0 != eg || o.2 != ea {
            ok = false;
            println!("fail kind=range-value-predicate {} at={} cluster={} expected=gid{}+{} got=gid{}+{}@{}", fmt_case(c), i, k, eg, ea, o.0, o.2, o.1);
            break;
        }
    }
    // a dropped feature must really be out of bits: checked by the plan correspondence + theorem; here we
    // only insist that a single user feature is never dropped
    if c.feats.len() == 1 && c.feats[0].value != 0 {
        let t = c.feats[0].tag.to_bytes();
        if featsdef.iter().any(|f| f.tag == t) && !allocated(&t) {
            ok = false;
            println!("fail kind=single-feature-dropped {}", fmt_case(c));
        }
    }
    if nontrivial {
        st.nontrivial += 1;
    }
    if !ok {
        st.bad += 1;
    }
    ok
}

fn clusters(scheme: u64, n: usize) -> Vec<u32> {
    (0..n as u32)
        .map(|i| match scheme {
            0 => i,
            1 => i / 2,
            2 => 2 * i + 1,
            _ => i + 5,
        })
        .collect()
}

fn api_cmd(args: &[String]) {
    let seed = arg_u64(args, "--seed", 1);
    let all_values = arg_str(args, "--values") == Some("all");
    let nrand = arg_u64(args, "--n", 3000);
    let mut r = Rng::new(seed);
    let mut st = Stats { evals: 0, nontrivial: 0, bad: 0 };
    let max_report = 12;
    // ---- T1: one feature, own glyph, exhaustive (start, end) over texts of length <= 6
    let (da, fa) = font_a();
    let face_a = Face::from_slice(&da, 0).expect("font A parses");
    let values: Vec<u32> = if all_values { (0..=255).collect() } else { vec![0, 1, 2, 3, 5, 6, 255] };
    let mut tags: Vec<([u8; 4], u32)> = fa.iter().enumerate().map(|(i, f)| (f.tag, i as u32)).collect();
    tags.push((*b"zzzz", 0));
    'outer: for (tag, gi) in &tags {
        for n in 1..=6usize {
            for s in 0..=(n as u32 + 1) {
                let mut ends: Vec<u32> = (0..=(n as u32 + 1)).collect();
                ends.push(u32::MAX);
                ends.push(u32::MAX - 1);
                for e in ends {
                    for &v in &values {
                      for scheme in 0..4u64 {
                        if !all_values && scheme != (s as u64 + e as u64 + v as u64 + n as u64) % 4 {
                            continue;
                        }
                        let cl = clusters(scheme, n);
                        let c = Case {
                            font: "A",
                            text: cl.iter().map(|k| (*gi, *k)).collect(),
                            feats: vec![Feature { tag: Tag::from_bytes(tag), value: v, start: s, end: e }],
                            dir: if s.wrapping_add(e).wrapping_add(v) % 3 == 0 { Direction::RightToLeft } else { Direction::LeftToRight },
                            level: ((s + v) % 3) as u8,
                        };
                        check_case(&face_a, &fa, &c, &mut st);
                        if st.bad >= max_report {
                            break 'outer;
                        }
                      }
                    }
                }
            }
        }
    }
    let t1 = st.evals;
    // ---- T2: several simultaneous features (fonts A, B, C), mixed texts, up to mask exhaustion
    let (db, fb) = font_b();
    let face_b = Face::from_slice(&db, 0).expect("font B parses");
    let (dc, fc) = font_c();
    let face_c = Face::from_slice(&dc, 0).expect("font C parses");
    let (dd, fdd) = font_d();
    let face_d = Face::from_slice(&dd, 0).expect("font D parses");
    for it in 0..nrand {
        if st.bad >= max_report {
            break;
        }
        let which = it % 4;
        let (face, fd, name, nbase): (&Face, &Vec<Feat>, &'static str, u32) = match which {
            0 => (&face_a, &fa, "A", fa.len() as u32),
            1 => (&face_b, &fb, "B", 40),
            2 => (&face_c, &fc, "C", 1),
            _ => (&face_d, &fdd, "D", 4),
        };
        // distinct tags, each at most once
        let mut avail: Vec<[u8; 4]> = fd.iter().map(|f| f.tag).collect();
        avail.push(*b"zzzz");
        let k = match which {
            1 => 1 + r.below(34),
            _ => 1 + r.below(avail.len() as u64),
        };
        let mut feats = Vec::new();
        for _ in 0..k {
            if avail.is_empty() {
                break;
            }
            let i = r.below(avail.len() as u64) as usize;
            let tag = avail.swap_remove(i);
            let (start, end) = match r.below(6) {
                0 => (0, u32::MAX),
                1 => (r.below(5) as u32, u32::MAX),
                _ => {
                    let a = r.below(7) as u32;
                    (a, a + r.below(6) as u32)
                }
            };
            let value = match (which, r.below(6)) {
                (_, 0) => 0,
                (1, 1) => 255,
                (1, _) => 1 + r.below(17) as u32,
                (_, 1) => 2 + r.below(5) as u32,
                (0, 2) => 255,
                _ => 1,
            };
            feats.push(Feature { tag: Tag::from_bytes(&tag), value, start, end });
        }
        let n = 1 + r.below(7) as usize;
        let cl = clusters(r.below(4), n);
        // text: glyphs of the features in play (and a few others)
        let text: Vec<(u32, u32)> = cl
            .iter()
            .map(|kk| {
                let g = if r.chance(3, 4) && !feats.is_empty() {
                    let t = feats[r.below(feats.len() as u64) as usize].tag.to_bytes();
                    fd.iter().position(|f| f.tag == t).map(|p| match &fd[p].kind {
                        Kind::Single { glyphs, .. } | Kind::Alt { glyphs, .. } | Kind::Pos { glyphs, .. } => glyphs[0] as u32 - 1,
                        Kind::Same(j) => match &fd[*j].kind {
                            Kind::Single { glyphs, .. } => glyphs[0] as u32 - 1,
                            _ => 0,
                        },
                    }).unwrap_or(0)
                } else {
                    r.below(nbase as u64) as u32
                };
                (g.min(nbase - 1), *kk)
            })
            .collect();
        let c = Case { font: name, text, feats, dir: if r.chance(1, 4) { Direction::RightToLeft } else { Direction::LeftToRight }, level: r.below(3) as u8 };
        check_case(face, fd, &c, &mut st);
    }
    // ---- T3: a font with a default-on `rand` feature (random alternate of glyph 1, lower lookup index) next to ordinary
    //      alternate features on other glyphs: the value of `aalt` / `salt` selects the alternate - also the values 254,
    //      255 (the value `rand` itself uses to ask for a random pick) and 256
    {
        let feats_e = vec![
            Feat { tag: *b"rand", kind: Kind::Alt { glyphs: vec![1], firsts: vec![100], count: 3 } },
            Feat { tag: *b"aalt", kind: Kind::Alt { glyphs: vec![2], firsts: vec![200], count: 4 } },
            Feat { tag: *b"salt", kind: Kind::Alt { glyphs: vec![3], firsts: vec![300], count: 256 } },
        ];
        let de = build_font(3, 600, &feats_e);
        let face_e = Face::from_slice(&de, 0).expect("font E parses");
        let det = &feats_e[1..]; // what the oracle predicts: everything but the random feature
        for v in [0u32, 1, 2, 4, 5, 254, 255] {
            for (tagname, ranged) in [("aalt", false), ("aalt", true), ("salt", false), ("salt", true)] {
                for order in 0..3u32 {
                    let text: Vec<(u32, u32)> = match order { 0 => vec![(0, 0), (1, 1), (2, 2), (1, 3)], 1 => vec![(1, 0), (2, 1), (0, 2), (2, 3)], _ => vec![(2, 0), (1, 1), (1, 2), (0, 3)] };
                    let mut feats = vec![Feature { tag: Tag::from_bytes(&tag4(tagname)), value: v, start: if ranged { 1 } else { 0 }, end: if ranged { 3 } else { u32::MAX } }];
                    if order == 2 {
                        feats.push(Feature { tag: Tag::from_bytes(b"rand"), value: 1, start: 0, end: u32::MAX });
                    }
                    let c = Case { font: "E", text, feats, dir: Direction::LeftToRight, level: 0 };
                    st.evals += 1;
                    let out = match catch(std::panic::AssertUnwindSafe(|| shape_case(&face_e, &c))) {
                        Ok(o) => o,
                        Err(e) => {
                            st.bad += 1;
                            println!("fail kind=shape-panic:{} {}", e, fmt_case(&c));
                            continue;
                        }
                    };
                    if out.len() != c.text.len() {
                        st.bad += 1;
                        println!("fail kind=glyph-count {} got={:?}", fmt_case(&c), out);
                        continue;
                    }
                    let mut nontrivial = false;
                    for (i, (g, k)) in c.text.iter().enumerate() {
                        let o = out[i];
                        if *g == 0 {
                            // the glyph the random feature acts on: one of its alternates or itself
                            if ![1u32, 100, 101, 102].contains(&o.0) {
                                st.bad += 1;
                                println!("fail kind=random-alternate-outside-its-set {} at={} got=gid{}", fmt_case(&c), i, o.0);
                                break;
                            }
                            continue;
                        }
                        let (eg, _) = expected(det, &c.feats, *g as u16 + 1, *k, &|_| true);
                        if eg != *g + 1 {
                            nontrivial = true;
                        }
                        if o.0 != eg || o.1 != *k {
                            st.bad += 1;
                            println!("fail kind=range-value-predicate {} at={} cluster={} expected=gid{} got=gid{}@{}", fmt_case(&c), i, k, eg, o.0, o.1);
                            break;
                        }
                    }
                    if nontrivial {
                        st.nontrivial += 1;
                    }
                }
            }
        }
    }
    // ---- T4: a multi-glyph lookup under a range-restricted feature: a ligature (and a two-glyph context rule) applies only
    //      where EVERY glyph it consumes lies in a cluster where the feature is on
    {
        use crate::fontgen::*;
        let mut spec = FontSpec::basic(12);
        let lig = Lookup::one(SubstSubtable::Ligature { coverage: Coverage::Glyphs(vec![1]), ligature_sets: vec![vec![Ligature { glyph: 9, components: vec![2, 3] }, Ligature { glyph: 8, components: vec![2] }]] });
        let ctx = Lookup::one(SubstSubtable::Context3 { coverages: vec![Coverage::Glyphs(vec![4]), Coverage::Glyphs(vec![5])], lookups: vec![SeqLookup { sequence_index: 0, lookup_index: 2 }] });
        let single = Lookup::one(SubstSubtable::Single1 { coverage: Coverage::Glyphs(vec![4]), delta: 6 });
        // ss06: a reverse-chaining single substitution (type 8, applied back to front): 6 -> 11 when a 1 follows
        let rev = Lookup::one(SubstSubtable::ReverseChain { coverage: Coverage::Glyphs(vec![6]), backtrack: vec![], lookahead: vec![Coverage::Glyphs(vec![1])], substitutes: vec![11] });
        spec.gsub = Some(Layout::with_features(vec![(*b"dlig", vec![0]), (*b"ss05", vec![1]), (*b"ss06", vec![3])], vec![lig, ctx, single, rev]));
        let data = build(&spec);
        let face_f = Face::from_slice(&data, 0).expect("font F parses");
        // glyphs 1 2 3 (-> 9, or 1 2 -> 8) and 4 5 (4 -> 10 before 5)
        let text: Vec<u32> = vec![0, 1, 2, 5, 3, 4, 0, 1];
        // (glyph 6 = text value 5 stands at index 3, followed by 4 - not a 1; a second text puts it before a 1)
        for tagname in ["dlig", "ss05", "ss06"] {
            let text: Vec<u32> = if tagname == "ss06" { vec![5, 0, 1, 5, 0, 5, 5, 0] } else { text.clone() };
            for start in 0..=8u32 {
                for end in start..=9u32 {
                    for on in [true, false] {
                        // `on`: the feature is switched ON inside [start, end); else globally on and switched OFF inside
                        let tag = rustybuzz::ttf_parser::Tag::from_bytes(&tag4(tagname));
                        let feats = if on { vec![Feature { tag, value: 1, start, end }] } else { vec![Feature { tag, value: 1, start: 0, end: u32::MAX }, Feature { tag, value: 0, start, end }] };
                        let active = |c: u32| -> bool { let inside = start <= c && c < end; if on { inside } else { !inside } };
                        let mut b = UnicodeBuffer::new();
                        for (i, g) in text.iter().enumerate() {
                            b.add(char::from_u32(BASE_CP + g).unwrap(), i as u32);
                        }
                        b.set_direction(Direction::LeftToRight);
                        st.evals += 1;
                        let f2 = &face_f;
                        let fs = feats.clone();
                        let out = match catch(std::panic::AssertUnwindSafe(move || { let gb = rustybuzz::shape(f2, &fs, b); gb.glyph_infos().iter().map(|i| (i.glyph_id, i.cluster)).collect::<Vec<_>>() })) {
                            Ok(o) => o,
                            Err(e) => {
                                st.bad += 1;
                                println!("fail kind=shape-panic:{} font=F feats={:?}", e, feats.iter().map(fmt_feature).collect::<Vec<_>>());
                                continue;
                            }
                        };
                        // expected, by the property's reading: scan left to right
                        let gl: Vec<u32> = text.iter().map(|g| g + 1).collect();
                        let mut want: Vec<(u32, u32)> = Vec::new();
                        let mut i = 0usize;
                        while i < gl.len() {
                            let c = i as u32;
                            if tagname == "dlig" && gl[i] == 1 && active(c) {
                                if i + 2 < gl.len() && gl[i + 1] == 2 && gl[i + 2] == 3 && active(c + 1) && active(c + 2) {
                                    want.push((9, c));
                                    i += 3;
                                    continue;
                                }
                                if i + 1 < gl.len() && gl[i + 1] == 2 && active(c + 1) {
                                    want.push((8, c));
                                    i += 2;
                                    continue;
                                }
                            }
                            if tagname == "ss05" && gl[i] == 4 && active(c) && i + 1 < gl.len() && gl[i + 1] == 5 && active(c + 1) {
                                want.push((10, c));
                                i += 1;
                                continue;
                            }
                            // the lookahead glyph only has to be there: it is matched without regard to its own mask
                            if tagname == "ss06" && gl[i] == 6 && active(c) && i + 1 < gl.len() && gl[i + 1] == 1 {
                                want.push((11, c));
                                i += 1;
                                continue;
                            }
                            want.push((gl[i], c));
                            i += 1;
                        }
                        if want != gl.iter().enumerate().map(|(i, g)| (*g, i as u32)).collect::<Vec<_>>() {
                            st.nontrivial += 1;
                        }
                        if out != want {
                            st.bad += 1;
                            if st.bad <= max_report {
                                println!("fail kind=range-value-predicate font=F text={:?} feats={} expected={:?} got={:?}", gl, feats.iter().map(fmt_feature).collect::<Vec<_>>().join(";"), want, out);
                            }
                        }
                    }
                }
            }
        }
    }
    // ---- T5: a glyph deleted by an earlier lookup (MultipleSubst with an empty sequence) hands its cluster to a neighbour;
    //      the neighbour keeps ITS OWN feature values (the value of the cluster its character was entered with), in both
    //      directions (a run shaped against its script's direction holds descending clusters: the merge goes backward)
    {
        use crate::fontgen::*;
        let mut spec = FontSpec::basic(12);
        let del = Lookup::one(SubstSubtable::Multiple { coverage: Coverage::Glyphs(vec![3]), sequences: vec![vec![]] });
        let alt = Lookup::one(SubstSubtable::Alternate { coverage: Coverage::Glyphs(vec![1, 2]), alternates: vec![vec![4, 5, 6], vec![7, 8, 9]] });
        spec.gsub = Some(Layout::with_features(vec![(*b"ccmp", vec![0]), (*b"salt", vec![1])], vec![del, alt]));
        let data = build(&spec);
        let face_g = Face::from_slice(&data, 0).expect("font G parses");
        let tag = rustybuzz::ttf_parser::Tag::from_bytes(b"salt");
        for k in 0..(nrand / 4).max(300) {
            let n = 2 + r.below(5) as usize;
            // glyph 3 (deleted) often, so that it sits first, last and between survivors
            let gl: Vec<u32> = (0..n).map(|_| if r.chance(2, 5) { 3 } else { 1 + r.below(2) as u32 }).collect();
            let vals: Vec<u32> = (0..n).map(|_| r.below(5) as u32).collect();
            let feats: Vec<Feature> = (0..n).map(|i| Feature { tag, value: vals[i], start: i as u32, end: i as u32 + 1 }).collect();
            let dir = if k % 2 == 0 { Direction::LeftToRight } else { Direction::RightToLeft };
            let level = if (k / 2) % 2 == 0 { rustybuzz::BufferClusterLevel::MonotoneGraphemes } else { rustybuzz::BufferClusterLevel::MonotoneCharacters };
            let mut b = UnicodeBuffer::new();
            for (i, g) in gl.iter().enumerate() {
                b.add(char::from_u32(BASE_CP + g - 1).unwrap(), i as u32);
            }
            b.set_direction(dir);
            b.set_script(rustybuzz::script::LATIN);
            b.set_cluster_level(level);
            st.evals += 1;
            let f2 = &face_g;
            let fs = feats.clone();
            let out = match catch(std::panic::AssertUnwindSafe(move || { let gb = rustybuzz::shape(f2, &fs, b); gb.glyph_infos().iter().map(|i| i.glyph_id).collect::<Vec<_>>() })) {
                Ok(o) => o,
                Err(e) => {
                    st.bad += 1;
                    println!("fail kind=shape-panic:{} font=G text={:?}", e, gl);
                    continue;
                }
            };
            let mut want: Vec<u32> = gl.iter().zip(vals.iter()).filter(|(g, _)| **g != 3).map(|(g, v)| if (1..=3).contains(v) { 4 + 3 * (*g - 1) + (*v - 1) } else { *g }).collect();
            if dir == Direction::RightToLeft {
                want.reverse();
            }
            if gl.contains(&3) && vals.iter().any(|v| *v != vals[0]) {
                st.nontrivial += 1;
            }
            if out != want {
                st.bad += 1;
                if st.bad <= max_report {
                    println!("fail kind=range-value-predicate font=G text={:?} dir={:?} feats={} expected={:?} got={:?}", gl, dir, feats.iter().map(fmt_feature).collect::<Vec<_>>().join(";"), want, out);
                }
            }
        }
    }
    // ---- T6: the same predicate on an AAT font (morx + feat: one non-contextual subtable switched by `liga`): a glyph is
    //      substituted iff its cluster lies in one of the ranges - with cluster numberings that have GAPS (byte offsets of
    //      multi-byte text, every third number, squares), so that consecutive glyphs hop over whole ranges, both directions
    {
        use crate::fontgen::*;
        let mut f = FontSpec::basic(8);
        f.feat = Some(Feat { names: vec![FeatName { feature: 1, settings: vec![2, 3, 4, 5], exclusive: false, default_index: None }] });
        let nonctx = MorxSubtable { coverage: 0, sub_feature_flags: 1, kind: MorxKind::NonContextual(AatLookup::new(6, (1..4u16).map(|g| (g, g + 3)).collect())) };
        f.morx = Some(Morx { version: 2, chains: vec![MorxChain { default_flags: 0, features: vec![MorxFeature { feature_type: 1, feature_setting: 2, enable_flags: 1, disable_flags: 0xFFFF_FFFF }], subtables: vec![nonctx] }] });
        let data = build(&f);
        let face_h = Face::from_slice(&data, 0).expect("font H parses");
        let tag = rustybuzz::ttf_parser::Tag::from_bytes(b"liga");
        for k in 0..(nrand / 3).max(400) {
            let n = 2 + r.below(5) as usize;
            let gl: Vec<u32> = (0..n).map(|_| 1 + r.below(3) as u32).collect();
            let cl: Vec<u32> = match r.below(5) {
                0 => (0..n as u32).collect(),
                1 => (0..n as u32).map(|i| 3 * i).collect(),
                2 => (0..n as u32).map(|i| i * i + 1).collect(),
                3 => { let mut c = 0u32; (0..n).map(|_| { let v = c; c += 1 + r.below(4) as u32; v }).collect() }
                _ => (0..n as u32).map(|i| 2 * i + (i % 2)).collect(),
            };
            let maxc = *cl.iter().max().unwrap();
            let nf = 1 + r.below(3) as usize;
            let ranges: Vec<(u32, u32)> = (0..nf).map(|_| { let a = r.below(maxc as u64 + 2) as u32; (a, a + r.below((maxc + 3 - a) as u64) as u32) }).collect();
            let feats: Vec<Feature> = ranges.iter().map(|(a, b)| Feature { tag, value: 1, start: *a, end: *b }).collect();
            let dir = if k % 2 == 0 { Direction::LeftToRight } else { Direction::RightToLeft };
            let mut b = UnicodeBuffer::new();
            for (g, c) in gl.iter().zip(cl.iter()) {
                b.add(char::from_u32(BASE_CP + g - 1).unwrap(), *c);
            }
            b.set_direction(dir);
            b.set_script(rustybuzz::script::LATIN);
            b.set_cluster_level(rustybuzz::BufferClusterLevel::MonotoneCharacters);
            st.evals += 1;
            let f2 = &face_h;
            let fs = feats.clone();
            let out = match catch(std::panic::AssertUnwindSafe(move || { let gb = rustybuzz::shape(f2, &fs, b); gb.glyph_infos().iter().map(|i| (i.glyph_id, i.cluster)).collect::<Vec<_>>() })) {
                Ok(o) => o,
                Err(e) => {
                    st.bad += 1;
                    println!("fail kind=shape-panic:{} font=H text={:?}", e, gl);
                    continue;
                }
            };
            let inside = |c: u32| ranges.iter().any(|(a, b)| *a <= c && c < *b);
            let mut want: Vec<(u32, u32)> = gl.iter().zip(cl.iter()).map(|(g, c)| (if inside(*c) { *g + 3 } else { *g }, *c)).collect();
            if dir == Direction::RightToLeft {
                want.reverse();
            }
            if want.iter().any(|(g, _)| *g > 3) && want.iter().any(|(g, _)| *g <= 3) {
                st.nontrivial += 1;
            }
            if out != want {
                st.bad += 1;
                if st.bad <= max_report {
                    println!("fail kind=range-value-predicate font=H text={:?} clusters={:?} dir={:?} feats={} expected={:?} got={:?}", gl, cl, dir, feats.iter().map(fmt_feature).collect::<Vec<_>>().join(";"), want, out);
                }
            }
        }
    }
    // ---- T7: the legacy kern table under a range-restricted `kern` feature (no GPOS): a pair is kerned iff the feature is on
    //      for BOTH of its glyphs; every (start, end), `kern[s:e]=0` and `-kern` + `kern[s:e]=1`
    {
        use crate::fontgen::*;
        let mut f = FontSpec::basic(6);
        f.kern = Some(vec![KernSubtable { horizontal: true, minimum: false, cross_stream: false, override_: false, pairs: vec![(1, 2, -80), (2, 1, -61), (2, 2, 33)] }]);
        let data = build(&f);
        let face_k = Face::from_slice(&data, 0).expect("font K parses");
        let tag = rustybuzz::ttf_parser::Tag::from_bytes(b"kern");
        let kern_of = |a: u32, b: u32| -> i32 { match (a, b) { (1, 2) => -80, (2, 1) => -61, (2, 2) => 33, _ => 0 } };
        for text in [vec![1u32, 2, 1, 2, 1, 2], vec![2, 2, 1, 2, 2], vec![1, 2, 3, 2, 1]] {
            let n = text.len() as u32;
            for start in 0..=n {
                for end in start..=n + 1 {
                    for on in [true, false] {
                        let end_v = if end == n + 1 { u32::MAX } else { end };
                        let feats = if on { vec![Feature { tag, value: 0, start: 0, end: u32::MAX }, Feature { tag, value: 1, start, end: end_v }] } else { vec![Feature { tag, value: 0, start, end: end_v }] };
                        let active = |c: u32| -> bool { let inside = start <= c && c < end_v; if on { inside } else { !inside } };
                        let mut b = UnicodeBuffer::new();
                        for (i, g) in text.iter().enumerate() {
                            b.add(char::from_u32(BASE_CP + g - 1).unwrap(), i as u32);
                        }
                        b.set_direction(Direction::LeftToRight);
                        b.set_script(rustybuzz::script::LATIN);
                        st.evals += 1;
                        let f2 = &face_k;
                        let fs = feats.clone();
                        let out = match catch(std::panic::AssertUnwindSafe(move || { let gb = rustybuzz::shape(f2, &fs, b); gb.glyph_positions().iter().map(|p| (p.x_advance, p.x_offset)).collect::<Vec<_>>() })) {
                            Ok(o) => o,
                            Err(e) => {
                                st.bad += 1;
                                println!("fail kind=shape-panic:{} font=K feats={:?}", e, feats.iter().map(fmt_feature).collect::<Vec<_>>());
                                continue;
                            }
                        };
                        let mut want: Vec<(i32, i32)> = text.iter().map(|g| (FontSpec::basic_hadv(*g as u16) as i32, 0)).collect();
                        let mut any = false;
                        for i in 0..text.len() - 1 {
                            let k = kern_of(text[i], text[i + 1]);
                            if k != 0 && active(i as u32) && active(i as u32 + 1) {
                                let k1 = k >> 1;
                                let k2 = k - k1;
                                want[i].0 += k1;
                                want[i + 1].0 += k2;
                                want[i + 1].1 += k2;
                                any = true;
                            }
                        }
                        if any && (0..n).any(|c| !active(c)) {
                            st.nontrivial += 1;
                        }
                        if out != want {
                            st.bad += 1;
                            if st.bad <= max_report {
                                println!("fail kind=range-value-predicate font=K text={:?} feats={} expected={:?} got={:?}", text, feats.iter().map(fmt_feature).collect::<Vec<_>>().join(";"), want, out);
                            }
                        }
                    }
                }
            }
        }
    }
    println!("api-summary evaluations={} nontrivial={} bad={} t1={} t2={}", st.evals, st.nontrivial, st.bad, t1, st.evals - t1);
}

// ------------------------------------------------------------------------------------------------
// corpus fonts: features whose lookups are all single (type 1) or all alternate (type 3) substitutions

struct CorpusFeature {
    tag: [u8; 4],
    alternate: bool,
}

fn simple_features(face: &Face) -> Vec<CorpusFeature> {
    use rustybuzz::ttf_parser::gsub::SubstitutionSubtable as S;
    let mut out = Vec::new();
    let Some(gsub) = face.tables().gsub else { return out };
    // a tag may have several feature records (per script/language): all of them must be of one simple kind
    let mut tags: Vec<[u8; 4]> = Vec::new();
    for f in gsub.features {
        let tag = f.tag.to_bytes();
        if !tags.contains(&tag) {
            tags.push(tag);
        }
    }
    for tag in tags {
        let mut singles = 0;
        let mut alts = 0;
        let mut other = 0;
        for f in gsub.features {
            if f.tag.to_bytes() != tag {
                continue;
            }
            for li in f.lookup_indices {
                let Some(l) = gsub.lookups.get(li) else {
                    other += 1;
                    continue;
                };
                for st in l.subtables.into_iter::<S>() {
                    match st {
                        S::Single(_) => singles += 1,
                        S::Alternate(_) => alts += 1,
                        _ => other += 1,
                    }
                }
            }
        }
        if other == 0 && (singles > 0) != (alts > 0) {
            out.push(CorpusFeature { tag, alternate: alts > 0 });
        }
    }
    out
}

fn corpus_shape(face: &Face, ch: char, n: usize, feats: &[Feature], level: u8) -> Vec<(u32, u32)> {
    let mut b = UnicodeBuffer::new();
    for i in 0..n {
        b.add(ch, i as u32);
    }
    b.set_direction(Direction::LeftToRight);
    b.set_script(rustybuzz::script::LATIN);
    b.set_cluster_level(shp::level_of(level));
    let gb = rustybuzz::shape(face, feats, b);
    gb.glyph_infos().iter().map(|i| (i.glyph_id, i.cluster)).collect()
}

fn corpus_cmd(args: &[String]) {
    let seed = arg_u64(args, "--seed", 1);
    let per_font = arg_u64(args, "--per-font", 40);
    let max_fonts = arg_u64(args, "--fonts", 10_000);
    let mut r = Rng::new(seed);
    let mut st = Stats { evals: 0, nontrivial: 0, bad: 0 };
    let mut fonts_used = 0;
    let mut alt_cases = 0u64;
    // every other default feature is switched off globally, so that the feature under test is the only
    // optional lookup source (value 0 features allocate nothing)
    let off: Vec<Feature> = DEFAULT_ON.iter().chain(["frac", "numr", "dnom", "rand"].iter()).map(|t| Feature { tag: Tag::from_bytes(&tag4(t)), value: 0, start: 0, end: u32::MAX }).collect();
    for path in shp::corpus_fonts(&shp::repo_root()) {
        if fonts_used >= max_fonts || st.bad >= 10 {
            break;
        }
        let Ok(data) = std::fs::read(&path) else { continue };
        let Some(face) = Face::from_slice(&data, 0) else { continue };
        let sf = simple_features(&face);
        if sf.is_empty() {
            continue;
        }
        let chars: Vec<char> = ('a'..='z').chain('A'..='Z').chain('0'..='9').filter(|c| face.glyph_index(*c).is_some()).collect();
        if chars.is_empty() {
            continue;
        }
        let mut used = false;
        let mut budget = per_font;
        for f in &sf {
            // features the shaper drives itself (default-on, automatic fractions, random) are not tested here
            if default_on(&f.tag) || [*b"frac", *b"numr", *b"dnom", *b"rand"].contains(&f.tag) || budget == 0 {
                continue;
            }
            let tag = Tag::from_bytes(&f.tag);
            // find a character the feature changes (value 1 globally vs off), context-free
            let mut hit = None;
            for &ch in &chars {
                let mut fs = off.clone();
                let base = match catch(std::panic::AssertUnwindSafe(|| corpus_shape(&face, ch, 3, &fs, 1))) {
                    Ok(b) => b,
                    Err(_) => continue,
                };
                fs.push(Feature { tag, value: 1, start: 0, end: u32::MAX });
                let on = match catch(std::panic::AssertUnwindSafe(|| corpus_shape(&face, ch, 3, &fs, 1))) {
                    Ok(b) => b,
                    Err(_) => continue,
                };
                let uniform = |v: &Vec<(u32, u32)>| v.len() == 3 && v.iter().all(|x| x.0 == v[0].0) && v.iter().enumerate().all(|(i, x)| x.1 == i as u32);
                if uniform(&base) && uniform(&on) && base[0].0 != on[0].0 {
                    hit = Some((ch, base[0].0, on[0].0));
                    break;
                }
            }
            let Some((ch, g_off, g_on)) = hit else { continue };
            used = true;
            // per-value expectation for alternates: shape with the global value (context-free)
            let vals: Vec<u32> = if f.alternate { vec![0, 1, 2, 3] } else { vec![0, 1, 2] };
            for &v in &vals {
                let mut fs = off.clone();
                fs.push(Feature { tag, value: v, start: 0, end: u32::MAX });
                let glob = match catch(std::panic::AssertUnwindSafe(|| corpus_shape(&face, ch, 1, &fs, 1))) {
                    Ok(b) if b.len() == 1 => b[0].0,
                    _ => continue,
                };
                // independent reading of the alternate set: value k selects the k-th alternate of the set
                let mut want_g = if v == 0 { g_off } else { glob };
                if f.alternate {
                    if let Some(k) = kth_alternate(&face, &f.tag, g_off, v) {
                        want_g = k;
                        alt_cases += 1;
                    }
                } else if v >= 1 {
                    want_g = g_on;
                }
                if glob != want_g {
                    st.bad += 1;
                    println!("fail kind=corpus-global-value font={} feature={} char={} value={} expected=gid{} got=gid{}", path, String::from_utf8_lossy(&f.tag), ch, v, want_g, glob);
                    continue;
                }
                for _ in 0..3 {
                    if budget == 0 {
                        break;
                    }
                    budget -= 1;
                    let n = 1 + r.below(6) as usize;
                    let s = r.below(n as u64 + 1) as u32;
                    let e = if r.chance(1, 6) { u32::MAX } else { s + r.below(n as u64 + 2 - s as u64) as u32 };
                    let level = r.below(3) as u8;
                    let mut fs = off.clone();
                    fs.push(Feature { tag, value: v, start: s, end: e });
                    st.evals += 1;
                    let got = match catch(std::panic::AssertUnwindSafe(|| corpus_shape(&face, ch, n, &fs, level))) {
                        Ok(g) => g,
                        Err(e2) => {
                            st.bad += 1;
                            println!("fail kind=corpus-panic:{} font={} feature={}[{}:{}]={} char={} n={}", e2, path, String::from_utf8_lossy(&f.tag), s, e, v, ch, n);
                            continue;
                        }
                    };
                    let global = s == 0 && e == u32::MAX;
                    let want: Vec<(u32, u32)> = (0..n as u32).map(|c| (if global || (s <= c && c < e) { want_g } else { g_off }, c)).collect();
                    if want.iter().any(|x| x.0 != g_off) {
                        st.nontrivial += 1;
                    }
                    if got != want {
                        st.bad += 1;
                        println!("fail kind=corpus-range-value-predicate font={} feature={}[{}:{}]={} char={} n={} level={} expected={:?} got={:?}", path, String::from_utf8_lossy(&f.tag), s, e, v, ch, n, level, want, got);
                    }
                }
            }
        }
        if used {
            fonts_used += 1;
        }
    }
    println!("corpus-summary fonts={} evaluations={} nontrivial={} alternates_read={} bad={}", fonts_used, st.evals, st.nontrivial, alt_cases, st.bad);
}

/// The k-th (1-based) alternate of glyph `g` in the first alternate lookup of feature `tag` covering g; k = 0
/// or k beyond the set leaves the glyph. None when the font's tables do not give a unique answer.
fn kth_alternate(face: &Face, tag: &[u8; 4], g: u32, k: u32) -> Option<u32> {
    use rustybuzz::ttf_parser::gsub::SubstitutionSubtable as S;
    use rustybuzz::ttf_parser::GlyphId;
    let gsub = face.tables().gsub?;
    let f = gsub.features.into_iter().find(|f| f.tag.to_bytes() == *tag)?;
    let mut found: Option<u32> = None;
    let mut hits = 0;
    for li in f.lookup_indices {
        let l = gsub.lookups.get(li)?;
        for st in l.subtables.into_iter::<S>() {
            if let S::Alternate(a) = st {
                if let Some(ci) = a.coverage.get(GlyphId(g as u16)) {
                    hits += 1;
                    let set = a.alternate_sets.get(ci)?;
                    found = Some(if k == 0 { g } else { set.alternates.get((k - 1) as u16).map(|x| x.0 as u32).unwrap_or(g) });
                }
            }
        }
    }
    if hits == 1 {
        found
    } else {
        None
    }
}
