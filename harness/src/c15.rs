//! C15: harness commands for property C15 (stub).

pub fn run(_args: &[String]) {
    eprintln!("c15: not implemented");
    std::process::exit(2);
}
