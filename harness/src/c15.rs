//! C15: deterministic probe of the known class `feature_range_splits_grapheme`: a non-global feature
//! whose range splits a grapheme selects different glyphs at level 0 (the mark is merged into the base
//! cluster before masks are set) than at levels 1 and 2.
//!   rbv c15 probe
use crate::fontgen::*;
use crate::shp::*;
use crate::util::*;

pub fn run(args: &[String]) {
    quiet_panics();
    match args.get(0).map(|s| s.as_str()) {
        Some("probe") => probe(),
        _ => {
            eprintln!("c15 probe");
            std::process::exit(2)
        }
    }
}

fn probe() {
    // glyphs: 1 = 'a', 2 = U+0301, 3 = 'b', 4 = substitute of the mark
    let mut f = FontSpec::basic(5);
    f.cmap = vec![(0x61, 1), (0x62, 3), (0x301, 2)];
    f.gsub = Some(Layout::single_feature(
        *b"ss01",
        vec![Lookup::one(SubstSubtable::Single2 { coverage: Coverage::Glyphs(vec![2]), substitutes: vec![4] })],
    ));
    let bytes = build(&f);
    let face = rustybuzz::Face::from_slice(&bytes, 0).expect("face");
    let mut outs = Vec::new();
    for level in 0..3u8 {
        let req = Req {
            text: vec![(0x61, 0), (0x301, 1), (0x62, 2)],
            features: vec!["ss01[1:2]".to_string()],
            flags: 3,
            level,
            dir: Some(rustybuzz::Direction::LeftToRight),
            ..Default::default()
        };
        let g = shape_req(&face, &req);
        let ids: Vec<String> = g.iter().map(|x| x.gid.to_string()).collect();
        println!("probe level={} gids={}", level, ids.join(","));
        outs.push(ids);
    }
    println!("probe-result levels_agree={}", (outs[0] == outs[1] && outs[1] == outs[2]) as u8);
}
