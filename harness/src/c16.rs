//! C16: harness commands for property C16 (stub).

pub fn run(_args: &[String]) {
    eprintln!("c16: not implemented");
    std::process::exit(2);
}
