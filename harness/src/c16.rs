//! C16: without layout tables glyphs and positions are the font's cmap and metrics; axis discipline
//! (horizontal => y_advance = 0, vertical => x_advance = 0) and glyph ids <= 0xFFFF in every font.
//!
//!   rbv c16 alphabet                              checks the generator's character classes against the real Unicode functions
//!   rbv c16 simple --seed S --fonts F --per K     generated cmap/hmtx(/vmtx) fonts x requests, for the Gallina model
//!   rbv c16 inv --seed S --per K --part I --parts N   axis/range invariants on the corpus fonts
//!   rbv c16 gen --seed S --n N                    axis/range invariants on generated GPOS/kern fonts
//!   rbv c16 one (--font PATH | --fonthex HEX) --req R [--nf G] [--var "wght=300,.."]   one request (replays)
//!   rbv c16 witness                               the not-found-variation-selector witness
use crate::fontgen::coq::ToCoq;
use crate::fontgen::*;
use crate::shp::*;
use crate::util::*;
use rustybuzz::verif::normalize as nhook;
use rustybuzz::verif::unicode as uhook;
use rustybuzz::{script, Direction, Face, UnicodeBuffer};

// ------------------------------------------------------------------------------------------------
// character classes of the generator

const MIRROR: &[(u32, u32)] = &[
    (0x28, 0x29), (0x29, 0x28), (0x3C, 0x3E), (0x3E, 0x3C), (0x5B, 0x5D), (0x5D, 0x5B), (0x7B, 0x7D), (0x7D, 0x7B),
    (0xAB, 0xBB), (0xBB, 0xAB), (0x3008, 0x3009), (0x3009, 0x3008), (0x300C, 0x300D), (0x300D, 0x300C),
    (0xFF08, 0xFF09), (0xFF09, 0xFF08),
];
const VERT: &[(u32, u32)] = &[
    (0x2014, 0xFE31), (0x2026, 0xFE19), (0x3001, 0xFE11), (0x3002, 0xFE12), (0x3008, 0xFE3F), (0x3009, 0xFE40),
    (0x300C, 0xFE41), (0x300D, 0xFE42), (0xFF08, 0xFE35), (0xFF09, 0xFE36),
];
const VS: &[u32] = &[0xFE00, 0xFE01, 0xFE0F, 0xE0100];

fn plain_pool() -> Vec<u32> {
    let mut v: Vec<u32> = Vec::new();
    v.extend(0x30..=0x39); // digits
    v.extend(0x41..=0x5A);
    v.extend(0x61..=0x7A);
    v.extend([0x21, 0x22, 0x23, 0x25, 0x26, 0x27, 0x2A, 0x2C, 0x2D, 0x2E, 0x2F, 0x3A, 0x3B, 0x3F, 0x40, 0x5C, 0x5F]);
    v.extend(0x410..=0x418); // Cyrillic without the two decomposable letters
    v.extend(0x41A..=0x438);
    v.extend(0x43A..=0x44F);
    v.extend(0x5D0..=0x5EA); // Hebrew letters
    v.extend(0x4E00..=0x4E3F); // CJK ideographs
    v.extend(0xE000..=0xE07F); // PUA
    v.extend(0xF0000..=0xF000F); // supplementary PUA
    v
}

fn alt_pool() -> Vec<u32> {
    // characters with a mirrored and/or vertical alternate, and the alternates themselves (as cmap keys)
    let mut v: Vec<u32> = MIRROR.iter().map(|p| p.0).collect();
    v.extend(VERT.iter().map(|p| p.0));
    v.sort();
    v.dedup();
    v
}

fn vert_targets() -> Vec<u32> {
    VERT.iter().map(|p| p.1).collect()
}

fn props(c: u32) -> (u32, bool) {
    let ch = char::from_u32(c).unwrap();
    let (p, _) = uhook::init_unicode_props(ch);
    ((p & 0x1F) as u32, uhook::is_default_ignorable(ch))
}

fn cmd_alphabet() {
    let mut bad = 0;
    let mut n = 0;
    for c in plain_pool().into_iter().chain(alt_pool()).chain(vert_targets()) {
        n += 1;
        let ch = char::from_u32(c).unwrap();
        let (gc, ign) = props(c);
        let (is_mark, _, is_space, fb) = nhook::info_props(ch);
        if is_mark || (10..=12).contains(&gc) || ign || is_space || fb || gc == 29 || c == 0x2011 || nhook::decompose(ch).is_some() {
            println!("anomaly alphabet {:X} gc={} ign={} mark={} space={} decomposes={}", c, gc, ign, is_mark, is_space, nhook::decompose(ch).is_some());
            bad += 1;
        }
    }
    for c in VS {
        n += 1;
        let (gc, ign) = props(*c);
        if gc != 12 || !ign {
            println!("anomaly vs {:X} gc={} ign={}", c, gc, ign);
            bad += 1;
        }
    }
    println!("alphabet-summary chars={} anomalies={}", n, bad);
}

// ------------------------------------------------------------------------------------------------
// effective segment properties

fn probe(req: &Req) -> (Direction, u8) {
    // what guess_segment_properties makes of the request: effective direction and the native horizontal
    // direction of the script (0 invalid, 1 ltr, 2 rtl, 9 = a script this generator does not expect)
    let mut b = fill(req, UnicodeBuffer::new());
    b.guess_segment_properties();
    let d = b.direction();
    let s = b.script();
    let hor = if s == script::UNKNOWN {
        0
    } else if s == script::LATIN || s == script::CYRILLIC || s == script::HAN {
        1
    } else if s == script::HEBREW {
        2
    } else {
        9
    };
    (d, hor)
}

fn effective_dir(req: &Req) -> Direction {
    let mut b = fill(req, UnicodeBuffer::new());
    b.guess_segment_properties();
    b.direction()
}

// ------------------------------------------------------------------------------------------------
// generated cmap/hmtx(/vmtx) fonts

struct SimpleFont {
    /// unmapped ASCII characters whose private-use twins U+F000 + c the font maps (symbol-like fonts)
    twins: Vec<u32>,
    spec: FontSpec,
    mapped: Vec<u32>,
    unmapped: Vec<u32>,
}

fn gen_simple_font(rng: &mut Rng, idx: u64) -> SimpleFont {
    // "symbol-like" fonts: ONE encoding record (any of the eight kinds, none of them Windows Symbol) and private-use
    // entries at U+F000 + c for ASCII characters c the font does not map: only a (3, 0) subtable may fall back from c to
    // U+F000 + c, so these characters must come out as .notdef
    // every eighth font, not left to chance; the (0, 0) record in every other one of them
    let symbol_like = idx % 8 == 3;
    let fmt = match idx % 4 {
        0 => CmapFormat::Format12,
        1 => CmapFormat::Format4,
        2 => CmapFormat::Both,
        // (0, 0) - Unicode 1.0, whose encoding id equals Windows Symbol's - half of the time
        _ if symbol_like => CmapFormat::Records(if (idx / 8) % 2 == 0 { 0x80 } else { 1u8 << rng.below(8) }),
        // several encoding records, the mapping in the most preferred one and decoys in the others
        _ => CmapFormat::Records((1 + rng.below(255)) as u8),
    };
    let mut pool = plain_pool();
    pool.extend(alt_pool());
    // the vertical presentation forms are mapped in half of the fonts (so the replacement fires)
    let with_vert = rng.chance(1, 2);
    if with_vert {
        for t in vert_targets() {
            if rng.chance(3, 4) {
                pool.push(t);
            }
        }
    }
    // a font maps U+FE00 itself now and then (the selector then has a nominal glyph)
    if rng.chance(1, 4) {
        pool.push(0xFE00);
    }
    if fmt.is_16bit() {
        pool.retain(|c| *c <= 0xFFFF);
    }
    let want = rng.range(20, 200) as usize;
    // keep mirrored characters at a higher rate so that rotate_chars has work
    let mut chosen: Vec<u32> = Vec::new();
    let mut rest: Vec<u32> = Vec::new();
    let alts = alt_pool();
    for c in pool {
        let p = if alts.contains(&c) { 2 } else { 1 };
        if rng.chance(p * want as u64, 330) {
            chosen.push(c);
        } else {
            rest.push(c);
        }
    }
    let mut twins: Vec<u32> = Vec::new();
    if symbol_like {
        // unmapped ASCII letters / digits whose private-use twins are mapped
        let ascii: Vec<u32> = rest.iter().copied().filter(|c| (0x30..=0x7A).contains(c)).collect();
        twins = ascii.iter().take(8).copied().collect();
        for c in ascii.iter().take(8) {
            chosen.push(0xF000 + *c);
        }
        // and put those characters first in the list of unmapped ones the texts draw from
        rest.retain(|c| !ascii.iter().take(8).any(|a| a == c));
        let mut front: Vec<u32> = ascii.iter().take(8).copied().collect();
        front.extend(rest.iter().copied());
        rest = front;
    }
    chosen.sort();
    chosen.dedup();
    let n = chosen.len() as u16;
    let spare = rng.below(3) as u16;
    let num_glyphs = n + 1 + spare;
    // glyph ids: random permutation of 1..=n, sometimes two characters share a glyph
    let mut gids: Vec<u16> = (1..=n).collect();
    for i in (1..gids.len()).rev() {
        let j = rng.below(i as u64 + 1) as usize;
        gids.swap(i, j);
    }
    if n > 3 && rng.chance(1, 3) {
        let a = rng.below(n as u64) as usize;
        let b = rng.below(n as u64) as usize;
        gids[a] = gids[b];
    }
    let hadv: Vec<u16> = (0..num_glyphs)
        .map(|_| match rng.below(8) {
            0 => 0,
            1 => rng.range(32768, 65535) as u16,
            2 => (rng.range(0, 2000) as u16) | 1,
            _ => rng.range(0, 3000) as u16,
        })
        .collect();
    let extreme = rng.chance(1, 6);
    let (asc, desc) = if extreme {
        (rng.range(20000, 32767) as i16, -(rng.range(15000, 32768) as i32) as i16)
    } else {
        (rng.range(0, 2000) as i16 - 200, -(rng.range(0, 900) as i16) + 100)
    };
    let vmetrics = if rng.chance(1, 2) {
        Some(VMetrics {
            ascender: rng.range(0, 1000) as i16,
            descender: -(rng.range(0, 1000) as i16),
            line_gap: 0,
            vadv: (0..num_glyphs).map(|_| if rng.chance(1, 8) { rng.range(32768, 65535) as u16 } else { rng.range(0, 4000) as u16 }).collect(),
        })
    } else {
        None
    };
    let cmap: Vec<(u32, u16)> = chosen.iter().cloned().zip(gids.iter().cloned()).collect();
    // cmap 14: a few (base, selector, glyph) entries over mapped and unmapped bases
    let mut cmap14: Vec<(u32, u32, u16)> = Vec::new();
    if rng.chance(2, 3) && n > 2 {
        for _ in 0..rng.range(1, 6) {
            let base = if rng.chance(5, 6) { *rng.pick(&chosen) } else { *rng.pick(&rest) };
            if VS.contains(&base) || (fmt.is_16bit() && base > 0xFFFF) {
                continue;
            }
            let vs = *rng.pick(VS);
            let g = rng.range(1, n as u64) as u16;
            if !cmap14.iter().any(|e| e.0 == base && e.1 == vs) {
                cmap14.push((base, vs, g));
            }
        }
        cmap14.sort_by_key(|e| (e.1, e.0));
    }
    let spec = FontSpec {
        num_glyphs,
        units_per_em: *rng.pick(&[16u16, 1000, 1000, 2048, 16384]),
        ascender: asc,
        descender: desc,
        line_gap: 0,
        hadv,
        vmetrics,
        cmap,
        cmap_format: fmt,
        cmap14,
        ..FontSpec::default()
    };
    let mut spec = spec;
    // an OS/2 table whose line metrics differ from hhea's: they take over when USE_TYPO_METRICS (version >= 4) is set or
    // where hhea holds a zero; the vertical advance and origin of a font without vmtx come from the face's line metrics
    if rng.chance(1, 3) {
        spec.os2 = Some(Os2 {
            version: *rng.pick(&[3u16, 4, 4, 5]),
            fs_selection: *rng.pick(&[0u16, 0x40, 0x80, 0x80, 0xC0]),
            typo_ascender: rng.range(0, 1500) as i16,
            typo_descender: -(rng.range(0, 700) as i16),
            typo_line_gap: 0,
            win_ascent: rng.range(0, 1800) as u16,
            win_descent: rng.range(0, 800) as u16,
        });
        match rng.below(6) {
            0 => spec.ascender = 0,
            1 => spec.descender = 0,
            2 => {
                spec.ascender = 0;
                spec.descender = 0;
            }
            _ => {}
        }
    }
    let mut unmapped: Vec<u32> = rest.into_iter().filter(|c| !VS.contains(c)).collect();
    if fmt.is_16bit() {
        unmapped.extend([0xF0000, 0xF0001]);
    }
    SimpleFont { twins, spec, mapped: chosen.into_iter().filter(|c| !VS.contains(c)).collect(), unmapped }
}

fn gen_simple_req(rng: &mut Rng, f: &SimpleFont) -> Req {
    let mut r = Req::default();
    let len = match rng.below(10) {
        0 => 0,
        1 => 1,
        _ => rng.range(2, 12),
    } as usize;
    let with_vs = rng.chance(1, 4);
    // one text = one "flavour" of characters most of the time, so that script guessing sees all scripts
    let flavour = rng.below(8);
    let sub: Vec<u32> = match flavour {
        0 => f.mapped.iter().cloned().filter(|c| (0x5D0..=0x5EA).contains(c) || (0x30..=0x39).contains(c) || alt_pool().contains(c)).collect(),
        1 => f.mapped.iter().cloned().filter(|c| *c >= 0xE000 && !(0xFE00..=0xFFFF).contains(c)).collect(),
        2 => f.mapped.iter().cloned().filter(|c| (0x3000..=0x4FFF).contains(c) || (0xFF00..=0xFF60).contains(c) || (0x2000..=0x20FF).contains(c)).collect(),
        3 => f.mapped.iter().cloned().filter(|c| *c < 0x80 || alt_pool().contains(c)).collect(),
        _ => f.mapped.clone(),
    };
    let sub = if sub.is_empty() { f.mapped.clone() } else { sub };
    let mut cl = rng.below(4) as u32;
    let free_clusters = !with_vs && rng.chance(1, 5);
    let mut i = 0;
    while i < len {
        let mut c = if !f.twins.is_empty() && rng.chance(1, 3) { *rng.pick(&f.twins) } else if rng.chance(1, 10) && !f.unmapped.is_empty() { *rng.pick(&f.unmapped) } else { *rng.pick(&sub) };
        let mut force_vs = false;
        if with_vs && !f.spec.cmap14.is_empty() && rng.chance(1, 4) {
            c = rng.pick(&f.spec.cmap14).0;
            force_vs = true;
        }
        r.text.push((c, cl));
        if with_vs && (force_vs || rng.chance(1, 3)) {
            cl += rng.range(1, 2) as u32;
            // prefer a selector the font has a cmap-14 entry for, half of the time
            let hit: Vec<u32> = f.spec.cmap14.iter().filter(|e| e.0 == c).map(|e| e.1).collect();
            let vs = if !hit.is_empty() && (force_vs || rng.chance(1, 2)) && rng.chance(5, 6) { *rng.pick(&hit) } else { *rng.pick(VS) };
            r.text.push((vs, cl));
        }
        if free_clusters {
            cl = rng.below(6) as u32;
        } else {
            cl += rng.range(1, 3) as u32;
        }
        i += 1;
    }
    r.dir = match rng.below(6) {
        0 => None,
        1 | 5 => Some(Direction::LeftToRight),
        2 => Some(Direction::RightToLeft),
        3 => Some(Direction::TopToBottom),
        _ => Some(Direction::BottomToTop),
    };
    r.script = match rng.below(12) {
        0 => Some("Hebr".to_string()),
        1 => Some("Latn".to_string()),
        2 => Some("Hani".to_string()),
        _ => None,
    };
    r.level = rng.below(3) as u8;
    r.flags = if rng.chance(1, 2) { 0 } else { (rng.below(256) as u32) & !0x20 };
    if with_vs {
        r.nf_vs = Some(match rng.below(6) {
            0 => 0,
            1 => 0xFFFF,
            2 => 64000,
            3 => 0x10000 + rng.below(0x20000) as u32,
            _ => rng.below(300) as u32,
        });
        // a variation selector as first character would call for the dotted circle: not in the domain
    } else if rng.chance(1, 8) {
        r.nf_vs = Some(rng.below(70000) as u32);
    }
    if rng.chance(1, 4) {
        r.features = vec![rng.pick(&["kern", "-kern", "liga=0", "vert", "ss01[1:3]", "rtlm", "vkrn", "mark=0"]).to_string()];
    }
    if rng.chance(1, 6) {
        r.pre = vec![0xE000];
    }
    if rng.chance(1, 6) {
        r.post = vec![0x41];
    }
    r
}

fn list_u32(v: &[(u32, u32)]) -> String {
    let s: Vec<String> = v.iter().map(|(a, b)| format!("{}:{}", a, b)).collect();
    if s.is_empty() { "-".into() } else { s.join(",") }
}

fn fmt_out(gs: &[G]) -> String {
    if gs.is_empty() {
        return "-".into();
    }
    let v: Vec<String> = gs.iter().map(|g| format!("{}:{}:{}:{}:{}:{}", g.gid, g.cluster, g.xa, g.ya, g.xo, g.yo)).collect();
    v.join("|")
}

fn cmd_simple(args: &[String]) {
    let seed = arg_u64(args, "--seed", 1);
    let nfonts = arg_u64(args, "--fonts", 10);
    let per = arg_u64(args, "--per", 20);
    println!("tables mir={} vert={}", list_u32(MIRROR), list_u32(VERT));
    let mut rng = Rng::new(seed ^ 0xC16);
    for fi in 0..nfonts {
        let f = gen_simple_font(&mut rng, fi);
        let problems = check(&f.spec);
        if !problems.is_empty() {
            println!("anomaly font {} spec: {}", fi, problems.join("; "));
            continue;
        }
        let bytes = build(&f.spec);
        let Some(face) = Face::from_slice(&bytes, 0) else {
            println!("anomaly font {} rejected", fi);
            continue;
        };
        println!("font {} {}", fi, f.spec.coq());
        let vm = match &f.spec.vmetrics {
            Some(v) => v.vadv.iter().map(|x| x.to_string()).collect::<Vec<_>>().join(","),
            None => "-".into(),
        };
        println!(
            "fontdata {} asc={} desc={} hadv={} vadv={} cmap={} cmap14={} hex={}",
            fi,
            f.spec.line_metrics().0,
            f.spec.line_metrics().1,
            f.spec.hadv.iter().map(|x| x.to_string()).collect::<Vec<_>>().join(","),
            vm,
            list_u32(&f.spec.cmap.iter().map(|(c, g)| (*c, *g as u32)).collect::<Vec<_>>()),
            if f.spec.cmap14.is_empty() { "-".to_string() } else { f.spec.cmap14.iter().map(|(b, s, g)| format!("{}:{}:{}", b, s, g)).collect::<Vec<_>>().join(",") },
            hex(&bytes),
        );
        for _ in 0..per {
            let req = gen_simple_req(&mut rng, &f);
            let (d, hor) = probe(&req);
            if hor == 9 {
                println!("anomaly script-not-expected {}", fmt_req(&req));
                continue;
            }
            // oracle values for the characters of the text and of both tables
            let mut chars: Vec<u32> = req.text.iter().map(|t| t.0).collect();
            chars.sort();
            chars.dedup();
            let gcs: Vec<String> = chars
                .iter()
                .map(|c| {
                    let (gc, ign) = props(*c);
                    format!("{}:{}:{}", c, gc, ign as u8)
                })
                .collect();
            let face_ref = &face;
            let req2 = req.clone();
            let res = catch(std::panic::AssertUnwindSafe(move || shape_req(face_ref, &req2)));
            let out = match res {
                Ok(o) => fmt_out(&o),
                Err(c) => format!("panic:{}", c),
            };
            println!(
                "case {} dir={} hor={} level={} nf={} zi={} gc={} text={} req={} out={}",
                fi,
                dir_name(Some(d)),
                hor,
                req.level,
                req.nf_vs.map(|g| g.to_string()).unwrap_or("-".into()),
                if req.flags & 0xC == 0 { 1 } else { 0 },
                if gcs.is_empty() { "-".to_string() } else { gcs.join(",") },
                list_u32(&req.text),
                fmt_req(&req).replace(' ', "~"),
                out
            );
        }
    }
}

// ------------------------------------------------------------------------------------------------
// universal invariants

#[derive(Default)]
struct InvStats {
    shapes: u64,
    glyphs: u64,
    nontrivial: u64,
    horizontal: u64,
    vertical: u64,
    known: u64,
    viol: u64,
    panics: u64,
    nf_over: u64,
}

/// returns (what, known_class) for every broken invariant
fn broken(d: Direction, out: &[G], nf: Option<u32>) -> Vec<(String, bool)> {
    let mut v = Vec::new();
    let horizontal = matches!(d, Direction::LeftToRight | Direction::RightToLeft);
    let vertical = matches!(d, Direction::TopToBottom | Direction::BottomToTop);
    for (i, g) in out.iter().enumerate() {
        if horizontal && g.ya != 0 {
            v.push((format!("horizontal-y_advance glyph#{} gid={} y_advance={}", i, g.gid, g.ya), false));
        }
        if vertical && g.xa != 0 {
            v.push((format!("vertical-x_advance glyph#{} gid={} x_advance={}", i, g.gid, g.xa), false));
        }
        if g.gid > 0xFFFF {
            let known = nf == Some(g.gid);
            v.push((format!("gid-over-0xFFFF glyph#{} gid={}", i, g.gid), known));
        }
    }
    if !horizontal && !vertical {
        v.push(("direction-invalid".to_string(), false));
    }
    v
}

const FEATS: &[&str] = &[
    "kern", "-kern", "liga", "-liga", "dlig", "vkrn", "vert", "vrt2", "valt", "vpal", "vhal", "palt", "halt", "smcp", "frac", "mark=0", "curs",
    "dist", "ss01", "aalt=2", "kern[1:3]", "vpal[0:2]", "trak", "-trak", "opbd", "lfbd", "rtbd", "cpsp", "case", "sups", "ordn", "locl=0", "ccmp=0",
    "mkmk=0", "abvm=0", "blwm=0", "rlig=0", "calt=0", "rclt=0", "init", "fina", "medi", "isol",
];
const EXTRA_CHARS: &[u32] = &[
    0x20, 0xA0, 0x2009, 0x202F, 0x3000, 0x301, 0x308, 0x323, 0x200D, 0x200C, 0x200B, 0xAD, 0x34F, 0x25CC, 0x2011, 0xFE00, 0xFE0F, 0xE0100,
    0x180B, 0x640, 0x64E, 0x651, 0x5B4, 0x93C, 0x94D, 0xE31, 0xE47, 0x1F3FB, 0x1F1E6, 0x1F1FA, 0x2044, 0x31, 0x32, 0x28, 0x29, 0x3001, 0xFF08,
];
const NF_VALUES: &[u32] = &[0, 1, 3, 64000, 0xFFFF, 0x10000, 0x12345, 0xFFFF_FFFF, 0x110000];

fn gen_inv_req(rng: &mut Rng, chars: &[u32]) -> Req {
    let mut r = Req::default();
    let len = rng.range(1, 14) as usize;
    let mut cl = 0u32;
    // texts stay close together in the cmap most of the time (same script), with foreign characters mixed in
    let base = rng.below(chars.len().max(1) as u64) as usize;
    for _ in 0..len {
        let c = if chars.is_empty() || rng.chance(1, 7) {
            *rng.pick(EXTRA_CHARS)
        } else if rng.chance(3, 4) {
            chars[(base + rng.below(40) as usize) % chars.len()]
        } else {
            *rng.pick(chars)
        };
        r.text.push((c, cl));
        if rng.chance(1, 12) {
            cl += 1;
            r.text.push((*rng.pick(VS), cl));
        }
        cl += rng.range(0, 2) as u32;
    }
    r.level = rng.below(3) as u8;
    r.flags = if rng.chance(1, 2) { 0 } else { (rng.below(256) as u32) & !0x20 };
    let nfeat = match rng.below(4) {
        0 => 0,
        1 => 1,
        2 => 2,
        _ => rng.range(1, 5),
    };
    for _ in 0..nfeat {
        r.features.push(rng.pick(FEATS).to_string());
    }
    if rng.chance(1, 5) {
        r.nf_vs = Some(*rng.pick(NF_VALUES));
    }
    if rng.chance(1, 10) {
        r.script = Some(rng.pick(&["Arab", "Hebr", "Deva", "Latn", "Hani", "Mong", "Thai", "Hang", "Khmr", "Mymr", "Zzzz"]).to_string());
    }
    if rng.chance(1, 12) {
        r.lang = Some(rng.pick(&["en", "ar", "zh-hant", "ja", "tr", "sr", "ur"]).to_string());
    }
    r
}

const DIRS: [Option<Direction>; 5] =
    [Some(Direction::LeftToRight), Some(Direction::RightToLeft), Some(Direction::TopToBottom), Some(Direction::BottomToTop), None];

fn shape_checked(face: &Face, req: &Req, st: &mut InvStats, describe: &dyn Fn() -> String, has_pos_tables: bool) {
    let d = effective_dir(req);
    let req2 = req.clone();
    let res = catch(std::panic::AssertUnwindSafe(move || shape_req(face, &req2)));
    st.shapes += 1;
    match res {
        Err(c) => {
            // panics are C01's business; counted, not judged here
            st.panics += 1;
            let _ = c;
        }
        Ok(out) => {
            st.glyphs += out.len() as u64;
            if matches!(d, Direction::LeftToRight | Direction::RightToLeft) {
                st.horizontal += 1;
            } else {
                st.vertical += 1;
            }
            // non-trivial: a positioning table exists and some glyph carries an offset or the cross-axis
            // could have been touched (any non-zero offset), or a not-found-VS glyph was written
            let moved = out.iter().any(|g| g.xo != 0 || g.yo != 0);
            if (has_pos_tables && moved) || req.nf_vs.is_some() {
                st.nontrivial += 1;
            }
            if let Some(g) = req.nf_vs {
                if g > 0xFFFF {
                    st.nf_over += 1;
                }
            }
            for (what, known) in broken(d, &out, req.nf_vs) {
                if known {
                    st.known += 1;
                    if st.known <= 5 {
                        println!("known {} dir={} what={} nf={} out={}", describe(), dir_name(Some(d)), what.replace(' ', ";"), req.nf_vs.unwrap_or(0), fmt_out(&out));
                    }
                } else {
                    st.viol += 1;
                    println!(
                        "viol {} dir={} what={} nf={} out={}",
                        describe(),
                        dir_name(Some(d)),
                        what.replace(' ', ";"),
                        req.nf_vs.map(|g| g.to_string()).unwrap_or("-".into()),
                        fmt_out(&out)
                    );
                }
            }
        }
    }
}

fn parse_vars(s: &str) -> Vec<(String, f32)> {
    s.split(',')
        .filter_map(|kv| {
            let (k, v) = kv.split_once('=')?;
            Some((k.to_string(), v.parse().ok()?))
        })
        .collect()
}

fn apply_vars(face: &mut Face, vars: &[(String, f32)]) {
    for (k, v) in vars {
        if k == "ppem" {
            let p = *v as u16;
            face.set_pixels_per_em(Some((p, p)));
        } else if k.len() == 4 {
            let tag = rustybuzz::ttf_parser::Tag::from_bytes_lossy(k.as_bytes());
            face.set_variation(tag, *v);
        }
    }
}

fn cmd_inv(args: &[String]) {
    let seed = arg_u64(args, "--seed", 1);
    let per = arg_u64(args, "--per", 8);
    let part = arg_u64(args, "--part", 0) as usize;
    let parts = arg_u64(args, "--parts", 1).max(1) as usize;
    let fonts = corpus_fonts(&repo_root());
    let mut st = InvStats::default();
    let mut nfonts = 0;
    let mut nrejected = 0;
    for (i, path) in fonts.iter().enumerate() {
        if i % parts != part {
            continue;
        }
        let Ok(data) = std::fs::read(path) else { continue };
        let mut rng = Rng::new(seed ^ 0xC16_0000 ^ ((i as u64) << 20));
        let nfaces = rustybuzz::ttf_parser::fonts_in_collection(&data).unwrap_or(1).min(3);
        for index in 0..nfaces {
            let d2 = data.clone();
            let face0 = catch(std::panic::AssertUnwindSafe(|| Face::from_slice(&d2, index).is_some()));
            if !matches!(face0, Ok(true)) {
                nrejected += 1;
                continue;
            }
            let Some(mut face) = Face::from_slice(&data, index) else { continue };
            nfonts += 1;
            let chars = cmap_chars(&face, 600);
            let t = face.tables();
            let has_pos = t.gpos.is_some() || t.kern.is_some() || t.kerx.is_some() || t.trak.is_some();
            let has_trak = t.trak.is_some();
            let axes: Vec<(String, f32, f32)> = t
                .fvar
                .map(|f| f.axes.into_iter().map(|a| (a.tag.to_string(), a.min_value, a.max_value)).collect())
                .unwrap_or_default();
            for k in 0..per {
                let mut vars: Vec<(String, f32)> = Vec::new();
                if !axes.is_empty() && k % 2 == 1 {
                    for (tag, lo, hi) in &axes {
                        let v = lo + (hi - lo) * (rng.below(101) as f32) / 100.0;
                        vars.push((tag.clone(), v));
                    }
                    apply_vars(&mut face, &vars);
                }
                let mut base = gen_inv_req(&mut rng, &chars);
                // fonts with an AAT tracking table: a point size makes tracking live (horizontal data only is the rule:
                // a vertical run then gets no tracking, and never an advance across its axis)
                if has_trak {
                    let pt = [1u32, 9, 12, 24][(k % 4) as usize];
                    face.set_points_per_em(Some(pt as f32));
                    base.ptem = Some(pt);
                }
                for d in DIRS {
                    let mut req = base.clone();
                    req.dir = d;
                    let vs: String = vars.iter().map(|(k, v)| format!("{}={}", k, v)).collect::<Vec<_>>().join(",");
                    let p = path.clone();
                    let r2 = req.clone();
                    let describe = move || format!("font={} index={} var={} req={}", p, index, if vs.is_empty() { "-".to_string() } else { vs.clone() }, fmt_req(&r2).replace(' ', "~"));
                    shape_checked(&face, &req, &mut st, &describe, has_pos);
                }
            }
        }
    }
    println!(
        "inv-summary fonts={} rejected={} shapes={} glyphs={} horizontal={} vertical={} nontrivial={} nf_over_16bit={} known={} viol={} panics={}",
        nfonts, nrejected, st.shapes, st.glyphs, st.horizontal, st.vertical, st.nontrivial, st.nf_over, st.known, st.viol, st.panics
    );
}

// ------------------------------------------------------------------------------------------------
// generated fonts with GPOS / kern

fn rv(rng: &mut Rng) -> i16 {
    match rng.below(4) {
        0 => 0,
        _ => rng.range(0, 600) as i16 - 300,
    }
}

fn rvr(rng: &mut Rng) -> ValueRecord {
    let mut v = match rng.below(5) {
        0 => ValueRecord::new(0, 0, 0, rv(rng) | 1), // only a y_advance
        1 => ValueRecord::new(0, 0, rv(rng) | 1, 0), // only an x_advance
        _ => ValueRecord::new(rv(rng), rv(rng), rv(rng), rv(rng)),
    };
    // hinting device tables (active only when the face has a ppem inside their size range)
    if rng.chance(1, 3) {
        for k in 0..4 {
            if rng.chance(1, 2) {
                let start = 9 + rng.below(4) as u16;
                v.devices[k] = Some(DeviceSpec { start_size: start, end_size: start + rng.below(4) as u16, delta: (rng.range(1, 9) as i8) * if rng.chance(1, 2) { 1 } else { -1 } });
            }
        }
    }
    v
}

fn ranchor(rng: &mut Rng) -> Option<Anchor> {
    if rng.chance(1, 5) {
        None
    } else {
        Some(Anchor { x: rng.range(0, 800) as i16 - 200, y: rng.range(0, 800) as i16 - 200 })
    }
}

const NG: u16 = 24;

fn gen_layout_font(rng: &mut Rng) -> (FontSpec, Vec<String>) {
    let mut s = FontSpec::basic(NG);
    if rng.chance(1, 2) {
        s = s.with_basic_vmetrics();
    }
    // glyphs 1..=12 bases, 13..=15 ligatures, 16..=21 marks, 22..=23 unclassified
    let with_gdef = rng.chance(2, 3);
    if with_gdef {
        let mut gc = Vec::new();
        for g in 1..=12 {
            gc.push((g, 1));
        }
        for g in 13..=15 {
            gc.push((g, 2));
        }
        for g in 16..=21 {
            gc.push((g, 3));
        }
        s.gdef = Some(Gdef { glyph_classes: gc, mark_attach_classes: vec![(16, 1), (17, 2)], mark_glyph_sets: vec![vec![16, 17]] });
    }
    let vf = if rng.chance(1, 2) { ValueFormat::All } else { ValueFormat::NonZero };
    let mut lookups: Vec<Lookup<PosSubtable>> = Vec::new();
    let mut feats: Vec<(Tag, Vec<u16>)> = Vec::new();
    let tags: [&[u8; 4]; 8] = [b"kern", b"dist", b"mark", b"abvm", b"vkrn", b"valt", b"curs", b"mkmk"];
    let nl = rng.range(1, 4);
    for _ in 0..nl {
        let kind = rng.below(7);
        let lk = match kind {
            0 => Lookup::one(PosSubtable::Single1 { coverage: Coverage::Ranges(vec![(1, rng.range(2, 23) as u16)]), value: rvr(rng), vf }),
            1 => {
                let gl: Vec<u16> = (1..NG).filter(|_| rng.chance(1, 2)).collect();
                let vals = gl.iter().map(|_| rvr(rng)).collect();
                Lookup::one(PosSubtable::Single2 { coverage: Coverage::Glyphs(gl), values: vals, vf })
            }
            2 => {
                let firsts: Vec<u16> = (1..NG).filter(|_| rng.chance(1, 2)).collect();
                let sets = firsts
                    .iter()
                    .map(|_| {
                        let seconds: Vec<u16> = (1..NG).filter(|_| rng.chance(1, 3)).collect();
                        seconds.into_iter().map(|g| (g, rvr(rng), if rng.chance(1, 2) { rvr(rng) } else { ValueRecord::ZERO })).collect()
                    })
                    .collect();
                Lookup::one(PosSubtable::Pair1 { coverage: Coverage::Glyphs(firsts), pair_sets: sets, vf })
            }
            3 => {
                let c1 = ClassDef::Format2 { ranges: vec![(1, 6, 1), (7, 12, 2)] };
                let c2 = ClassDef::Format1 { start: 1, classes: (1..NG).map(|g| g % 3).collect() };
                let recs = (0..3).map(|_| (0..3).map(|_| (rvr(rng), if rng.chance(1, 2) { rvr(rng) } else { ValueRecord::ZERO })).collect()).collect();
                Lookup::one(PosSubtable::Pair2 { coverage: Coverage::Ranges(vec![(1, 12)]), class_def1: c1, class_def2: c2, records: recs, vf })
            }
            4 => {
                let gl: Vec<u16> = (1..=12).filter(|_| rng.chance(2, 3)).collect();
                let ee = gl.iter().map(|_| (ranchor(rng), ranchor(rng))).collect();
                let mut l = Lookup::one(PosSubtable::Cursive { coverage: Coverage::Glyphs(gl), entry_exit: ee });
                if rng.chance(1, 3) {
                    l.flags |= lookup_flags::RIGHT_TO_LEFT;
                }
                l
            }
            5 => {
                let marks: Vec<u16> = (16..=21).collect();
                let bases: Vec<u16> = (1..=12).collect();
                Lookup::one(PosSubtable::MarkBase {
                    mark_coverage: Coverage::Glyphs(marks.clone()),
                    base_coverage: Coverage::Glyphs(bases.clone()),
                    class_count: 2,
                    marks: marks.iter().map(|g| (g % 2, Anchor { x: rv(rng), y: rv(rng) })).collect(),
                    bases: bases.iter().map(|_| vec![ranchor(rng), ranchor(rng)]).collect(),
                })
            }
            _ => {
                let marks: Vec<u16> = (16..=21).collect();
                Lookup::one(PosSubtable::MarkMark {
                    mark1_coverage: Coverage::Glyphs(marks.clone()),
                    mark2_coverage: Coverage::Glyphs(marks.clone()),
                    class_count: 1,
                    marks: marks.iter().map(|_| (0, Anchor { x: rv(rng), y: rv(rng) })).collect(),
                    mark2s: marks.iter().map(|_| vec![ranchor(rng)]).collect(),
                })
            }
        };
        let idx = lookups.len() as u16;
        lookups.push(lk);
        let tag = **rng.pick(&tags);
        if let Some(f) = feats.iter_mut().find(|f| f.0 == tag) {
            f.1.push(idx);
        } else {
            feats.push((tag, vec![idx]));
        }
    }
    let mut user: Vec<String> = Vec::new();
    if rng.chance(3, 4) {
        s.gpos = Some(Layout::with_features(feats.clone(), lookups));
        for (t, _) in &feats {
            if (t == b"vkrn" || t == b"valt" || t == b"dist" || t == b"kern" || t == b"curs") && rng.chance(2, 3) {
                user.push(String::from_utf8_lossy(t).to_string());
            }
        }
    }
    if rng.chance(1, 2) {
        let n = rng.range(1, 3);
        let mut sts = Vec::new();
        for _ in 0..n {
            let mut pairs: Vec<(u16, u16, i16)> = Vec::new();
            for a in 1..NG {
                for b in 1..NG {
                    if rng.chance(1, 12) {
                        pairs.push((a, b, (rng.range(0, 400) as i16 - 200) | 1));
                    }
                }
            }
            sts.push(KernSubtable { horizontal: rng.chance(2, 3), minimum: rng.chance(1, 8), cross_stream: rng.chance(1, 3), override_: rng.chance(1, 8), pairs });
        }
        s.kern = Some(sts);
    }
    (s, user)
}

fn hex(b: &[u8]) -> String {
    let mut s = String::with_capacity(b.len() * 2);
    for x in b {
        s.push_str(&format!("{:02x}", x));
    }
    s
}

fn unhex(s: &str) -> Vec<u8> {
    (0..s.len() / 2).filter_map(|i| u8::from_str_radix(&s[2 * i..2 * i + 2], 16).ok()).collect()
}

fn cmd_gen(args: &[String]) {
    let seed = arg_u64(args, "--seed", 1);
    let n = arg_u64(args, "--n", 50);
    let per = arg_u64(args, "--per", 10);
    let mut rng = Rng::new(seed ^ 0x6E16);
    let mut st = InvStats::default();
    let mut moved_cross = 0u64;
    for fi in 0..n {
        let (spec, user) = gen_layout_font(&mut rng);
        let problems = check(&spec);
        if !problems.is_empty() {
            println!("anomaly gen-font {} {}", fi, problems.join("; "));
            continue;
        }
        let bytes = build(&spec);
        let Some(mut face) = Face::from_slice(&bytes, 0) else {
            println!("anomaly gen-font {} rejected", fi);
            continue;
        };
        let hx = hex(&bytes);
        for _ in 0..per {
            // half of the requests with a pixel size (device tables become active)
            let ppem: Option<u16> = if rng.chance(1, 2) { Some(8 + rng.below(10) as u16) } else { None };
            face.set_pixels_per_em(ppem.map(|p| (p, p)));
            let var = match ppem { Some(p) => format!("ppem={}", p), None => "-".to_string() };
            let mut base = Req::default();
            let len = rng.range(1, 9);
            for i in 0..len {
                let g = if rng.chance(1, 3) { rng.range(16, 21) } else { rng.range(1, 15) } as u32;
                base.text.push((pua(g - 1), i as u32));
            }
            base.level = rng.below(3) as u8;
            base.features = user.iter().filter(|_| rng.chance(3, 4)).cloned().collect();
            if rng.chance(1, 6) {
                base.features.push("-kern".into());
            }
            for d in DIRS {
                let mut req = base.clone();
                req.dir = d;
                let r2 = req.clone();
                let hx2 = &hx;
                let var2 = var.clone();
                let describe = move || format!("fonthex={} index=0 var={} req={}", hx2, var2, fmt_req(&r2).replace(' ', "~"));
                let before = st.nontrivial;
                shape_checked(&face, &req, &mut st, &describe, true);
                if st.nontrivial > before {
                    moved_cross += 1;
                }
            }
        }
    }
    println!(
        "gen-summary fonts={} shapes={} glyphs={} horizontal={} vertical={} nontrivial={} known={} viol={} panics={} moved={}",
        n, st.shapes, st.glyphs, st.horizontal, st.vertical, st.nontrivial, st.known, st.viol, st.panics, moved_cross
    );
}

// ------------------------------------------------------------------------------------------------
// fonts with TrueType outlines: the vertical origin comes from the glyph's own box

/// `c16 glyf --seed S --n N --per K`: cmap/hmtx(/vmtx) fonts with rectangular outlines, plain PUA texts, all
/// directions; every glyph is compared with the values the font's own tables prescribe (HarfBuzz's fallback
/// for the vertical origin: without VORG, with extents: y_bearing + tsb when vmtx exists, else the box centred
/// in ascender - descender with FLOOR division; without extents: the ascender).
fn cmd_glyf(args: &[String]) {
    let seed = arg_u64(args, "--seed", 1);
    let n = arg_u64(args, "--n", 50);
    let per = arg_u64(args, "--per", 8);
    let mut rng = Rng::new(seed ^ 0x617F);
    let (mut shapes, mut glyphs, mut vertical, mut nontrivial, mut viol) = (0u64, 0u64, 0u64, 0u64, 0u64);
    for fi in 0..n {
        let ng = rng.range(4, 12) as u16;
        let mut spec = FontSpec::basic(ng);
        spec.ascender = rng.range(0, 1200) as i16 - 100;
        spec.descender = -(rng.range(0, 600) as i16) + 50;
        spec.hadv = (0..ng).map(|_| rng.range(0, 1500) as u16).collect();
        if rng.chance(1, 2) {
            spec.vmetrics = Some(VMetrics { ascender: 500, descender: -500, line_gap: 0, vadv: (0..ng).map(|_| rng.range(0, 2500) as u16).collect() });
        }
        let line = spec.ascender as i32 - spec.descender as i32;
        let boxes: Vec<Option<[i16; 4]>> = (0..ng)
            .map(|g| {
                if g == 0 || rng.chance(1, 6) {
                    return None;
                }
                let x0 = rng.range(0, 400) as i16 - 200;
                let y0 = rng.range(0, 1200) as i16 - 600;
                // heights around the line height (odd and even differences, taller and shorter), and arbitrary ones
                let h: i32 = match rng.below(4) {
                    0 => line + rng.range(0, 40) as i32 - 20,
                    1 => line + 1 + 2 * rng.range(0, 300) as i32,
                    2 => rng.range(1, 3000) as i32,
                    _ => rng.range(1, 800) as i32,
                };
                let h = h.clamp(1, 20000);
                Some([x0, y0, x0 + rng.range(1, 1200) as i16, (y0 as i32 + h).min(32000) as i16])
            })
            .collect();
        spec.glyf = Some(boxes.clone());
        let bytes = build(&spec);
        let Some(face) = Face::from_slice(&bytes, 0) else {
            println!("anomaly glyf-font {} rejected", fi);
            continue;
        };
        // the writer is read back through the library
        for g in 1..ng {
            let bb = face.glyph_bounding_box(rustybuzz::ttf_parser::GlyphId(g)).map(|r| [r.x_min, r.y_min, r.x_max, r.y_max]);
            if bb != boxes[g as usize] {
                println!("anomaly glyf-font {} glyph {} box {:?} reads back as {:?}", fi, g, boxes[g as usize], bb);
            }
        }
        let hx = hex(&bytes);
        for _ in 0..per {
            let mut base = Req::default();
            let len = rng.range(1, 8);
            for i in 0..len {
                base.text.push((pua(rng.range(1, ng as u64 - 1) as u32 - 1), i as u32));
            }
            base.level = rng.below(3) as u8;
            for d in DIRS {
                let mut req = base.clone();
                req.dir = d;
                let eff = effective_dir(&req);
                let r2 = req.clone();
                let Ok(out) = catch(std::panic::AssertUnwindSafe(|| shape_req(&face, &r2))) else { continue };
                shapes += 1;
                glyphs += out.len() as u64;
                let vert = matches!(eff, Direction::TopToBottom | Direction::BottomToTop);
                if vert {
                    vertical += 1;
                }
                let mut bad: Option<String> = None;
                let mut used_box = false;
                for g in &out {
                    let gid = g.gid as usize;
                    if gid >= ng as usize {
                        bad = Some(format!("glyph {} beyond the font", gid));
                        break;
                    }
                    let hadv = spec.hadv[gid] as i32;
                    let want = if !vert {
                        (hadv, 0, 0, 0)
                    } else {
                        let vadv = match &spec.vmetrics { Some(vm) => vm.vadv[gid] as i32, None => line };
                        // an empty glyph of a font with outlines has extents too: all zero (as in HarfBuzz's glyf accelerator)
                        let [_, y0, _, y1] = boxes[gid].unwrap_or([0, 0, 0, 0]);
                        used_box |= boxes[gid].is_some();
                        let vorg = if spec.vmetrics.is_some() { y1 as i32 } else { y1 as i32 + (line + (y0 as i32 - y1 as i32)).div_euclid(2) };
                        (0, -vadv, -(hadv / 2), -vorg)
                    };
                    if (g.xa, g.ya, g.xo, g.yo) != want {
                        bad = Some(format!("glyph {} box {:?}: got adv {},{} off {},{} want adv {},{} off {},{}", gid, boxes[gid], g.xa, g.ya, g.xo, g.yo, want.0, want.1, want.2, want.3).replace(' ', ";"));
                        break;
                    }
                }
                if vert && used_box {
                    nontrivial += 1;
                }
                if let Some(b) = bad {
                    viol += 1;
                    if viol <= 5 {
                        println!("viol fonthex={} index=0 var=- req={} dir={} what=outline-font-metrics:{} nf=- out={}", hx, fmt_req(&req).replace(' ', "~"), dir_name(Some(eff)), b, fmt_out(&out));
                    }
                }
            }
        }
    }
    println!("glyf-summary fonts={} shapes={} glyphs={} vertical={} nontrivial={} viol={}", n, shapes, glyphs, vertical, nontrivial, viol);
}

// ------------------------------------------------------------------------------------------------
// fallback spaces: a space character the font does not map is shown with the font's U+0020 glyph and an
// advance derived from the em, the digits or the punctuation - along the run axis, with the axis' sign

/// `c16 spaces --seed S --n N --per K`: fonts without layout tables that map U+0020, some digits, '.' / ',' and a few
/// letters, and only SOME of the typographic spaces; texts mixing letters and spaces, all directions.  Every
/// glyph is compared with what the font's own tables prescribe.
fn cmd_spaces(args: &[String]) {
    let seed = arg_u64(args, "--seed", 1);
    let n = arg_u64(args, "--n", 50);
    let per = arg_u64(args, "--per", 8);
    let mut rng = Rng::new(seed ^ 0x5BAC);
    const SPACES: &[(u32, u32)] = &[
        // (code point, kind): 1..6, 16 = em / kind; 17 = 4/18 em; 19 figure; 20 punctuation; 21 narrow; 18 plain space
        (0x00A0, 18), (0x2000, 2), (0x2001, 1), (0x2002, 2), (0x2003, 1), (0x2004, 3), (0x2005, 4), (0x2006, 6), (0x2007, 19),
        (0x2008, 20), (0x2009, 5), (0x200A, 16), (0x202F, 21), (0x205F, 17), (0x3000, 1),
    ];
    let (mut shapes, mut glyphs, mut vertical, mut nontrivial, mut viol) = (0u64, 0u64, 0u64, 0u64, 0u64);
    for fi in 0..n {
        // glyphs: 0 notdef, 1 space, 2.. letters a b c, then digits / punctuation / own glyphs of some spaces
        let mut cmap: Vec<(u32, u16)> = vec![(0x20, 1), (0x61, 2), (0x62, 3), (0x63, 4)];
        let mut next = 5u16;
        for d in 0x30..=0x39u32 {
            if rng.chance(1, 3) {
                cmap.push((d, next));
                next += 1;
            }
        }
        for p in [0x2Eu32, 0x2C] {
            if rng.chance(1, 2) {
                cmap.push((p, next));
                next += 1;
            }
        }
        for (sp, _) in SPACES {
            if rng.chance(1, 6) {
                cmap.push((*sp, next));
                next += 1;
            }
        }
        cmap.sort();
        let mut spec = FontSpec::basic(next);
        spec.cmap = cmap.clone();
        spec.units_per_em = *rng.pick(&[1000u16, 2048, 16, 999]);
        spec.hadv = (0..next).map(|_| rng.range(0, 1500) as u16).collect();
        spec.ascender = rng.range(300, 1200) as i16;
        spec.descender = -(rng.range(0, 500) as i16);
        if rng.chance(1, 2) {
            spec.vmetrics = Some(VMetrics { ascender: 500, descender: -500, line_gap: 0, vadv: (0..next).map(|_| rng.range(0, 2500) as u16).collect() });
        }
        let bytes = build(&spec);
        let Some(face) = Face::from_slice(&bytes, 0) else {
            println!("anomaly spaces-font {} rejected", fi);
            continue;
        };
        let gid_of = |c: u32| -> Option<u16> { cmap.iter().find(|e| e.0 == c).map(|e| e.1) };
        let hadv = |g: u16| spec.hadv[g as usize] as i32;
        let vadv = |g: u16| match &spec.vmetrics { Some(vm) => vm.vadv[g as usize] as i32, None => spec.ascender as i32 - spec.descender as i32 };
        let hx = hex(&bytes);
        for _ in 0..per {
            let mut base = Req::default();
            let len = rng.range(1, 8);
            for i in 0..len {
                let c = if rng.chance(1, 2) { rng.pick(SPACES).0 } else { *rng.pick(&[0x61u32, 0x62, 0x63, 0x20]) };
                base.text.push((c, i as u32));
            }
            base.level = rng.below(3) as u8;
            for d in DIRS {
                let mut req = base.clone();
                req.dir = d;
                let eff = effective_dir(&req);
                let vert = matches!(eff, Direction::TopToBottom | Direction::BottomToTop);
                let back = matches!(eff, Direction::RightToLeft | Direction::BottomToTop);
                let r2 = req.clone();
                let Ok(out) = catch(std::panic::AssertUnwindSafe(|| shape_req(&face, &r2))) else { continue };
                shapes += 1;
                glyphs += out.len() as u64;
                if vert {
                    vertical += 1;
                }
                let mut bad: Option<String> = None;
                if out.len() != req.text.len() {
                    bad = Some(format!("{};glyphs;for;{};characters", out.len(), req.text.len()));
                }
                let mut fell_back = false;
                for (k, g) in out.iter().enumerate() {
                    if bad.is_some() {
                        break;
                    }
                    let ci = if back { req.text.len() - 1 - k } else { k };
                    let mut c = req.text[ci].0;
                    // EN QUAD / EM QUAD are canonical singletons of EN SPACE / EM SPACE: an unmapped quad is shown with
                    // the glyph of the space it decomposes to when the font has that one
                    if gid_of(c).is_none() && (c == 0x2000 || c == 0x2001) && gid_of(c + 2).is_some() {
                        c += 2;
                    }
                    let kind = SPACES.iter().find(|e| e.0 == c).map(|e| e.1);
                    // glyph and the advance along the run axis (unsigned magnitude)
                    let (gid, along): (u16, i32) = match (gid_of(c), kind) {
                        (Some(gl), _) => (gl, if vert { vadv(gl) } else { hadv(gl) }),
                        (None, Some(kd)) => {
                            fell_back = true;
                            let sp = 1u16;
                            let own = if vert { vadv(sp) } else { hadv(sp) };
                            let upem = spec.units_per_em as i32;
                            let a = match kd {
                                1..=6 | 16 => (upem + kd as i32 / 2) / kd as i32,
                                17 => upem * 4 / 18,
                                19 => (0x30..=0x39u32).find_map(|dgt| gid_of(dgt)).map(|gl| if vert { vadv(gl) } else { hadv(gl) }).unwrap_or(own),
                                20 => gid_of(0x2E).or(gid_of(0x2C)).map(|gl| if vert { vadv(gl) } else { hadv(gl) }).unwrap_or(own),
                                21 => own / 2,
                                _ => own,
                            };
                            (sp, a)
                        }
                        (None, None) => (0, if vert { vadv(0) } else { hadv(0) }),
                    };
                    let want = if vert { (0, -along, -(hadv(gid) / 2), -(spec.ascender as i32)) } else { (along, 0, 0, 0) };
                    if g.gid != gid as u32 || (g.xa, g.ya, g.xo, g.yo) != want {
                        bad = Some(format!("char {:X}: got glyph {} adv {},{} off {},{} want glyph {} adv {},{} off {},{}", c, g.gid, g.xa, g.ya, g.xo, g.yo, gid, want.0, want.1, want.2, want.3).replace(' ', ";"));
                    }
                }
                if fell_back {
                    nontrivial += 1;
                }
                if let Some(b) = bad {
                    viol += 1;
                    if viol <= 5 {
                        println!("viol fonthex={} index=0 var=- req={} dir={} what=fallback-space-metrics:{} nf=- out={}", hx, fmt_req(&req).replace(' ', "~"), dir_name(Some(eff)), b, fmt_out(&out));
                    }
                }
            }
        }
    }
    println!("spaces-summary fonts={} shapes={} glyphs={} vertical={} nontrivial={} viol={}", n, shapes, glyphs, vertical, nontrivial, viol);
}

// ------------------------------------------------------------------------------------------------
// characters that decompose: every mapped non-mark character keeps its cmap glyph and hmtx advance also when OTHER
// characters of the run are replaced by their canonical decomposition (the font lacks them)

/// `c16 singletons --seed S --n N --per K`: fonts without layout tables that map Latin / Greek letters and a few marks
/// but not the Kelvin / Ohm / Angstrom signs, some precomposed letters and a CJK compatibility ideograph; texts mix
/// those with plain letters and base + mark clusters.  Judged per NON-MARK glyph: the glyph of the character (or of
/// the single character it decomposes to), its hmtx advance, zero offsets (horizontal) / the standard origin shift.
fn cmd_singletons(args: &[String]) {
    let seed = arg_u64(args, "--seed", 1);
    let n = arg_u64(args, "--n", 50);
    let per = arg_u64(args, "--per", 8);
    let mut rng = Rng::new(seed ^ 0x51E6);
    // (character, what a font lacking it shows: the characters of its full canonical decomposition)
    const DEC: &[(u32, &[u32])] = &[(0x212A, &[0x4B]), (0x2126, &[0x3A9]), (0x212B, &[0x41, 0x30A]), (0xF900, &[0x8C48]), (0xE9, &[0x65, 0x301]), (0x1E0D, &[0x64, 0x323]), (0x1EBF, &[0x65, 0x302, 0x301])];
    const PLAIN: &[u32] = &[0x4B, 0x3A9, 0x41, 0x8C48, 0x65, 0x64, 0x61, 0x62, 0x63];
    const MARKS_: &[u32] = &[0x301, 0x302, 0x30A, 0x323];
    let (mut shapes, mut glyphs, mut vertical, mut nontrivial, mut viol) = (0u64, 0u64, 0u64, 0u64, 0u64);
    for fi in 0..n {
        let mut cmap: Vec<(u32, u16)> = Vec::new();
        let mut next = 1u16;
        for c in PLAIN.iter().chain(MARKS_.iter()) {
            cmap.push((*c, next));
            next += 1;
        }
        // some fonts map some of the decomposable characters themselves
        let mut own: Vec<u32> = Vec::new();
        for (c, _) in DEC {
            if rng.chance(1, 5) {
                cmap.push((*c, next));
                own.push(*c);
                next += 1;
            }
        }
        cmap.sort();
        let mut spec = FontSpec::basic(next);
        spec.cmap = cmap.clone();
        spec.hadv = (0..next).map(|g| 300 + 17 * g).collect();
        spec.ascender = 800;
        spec.descender = -200;
        let bytes = build(&spec);
        let Some(face) = Face::from_slice(&bytes, 0) else {
            println!("anomaly singletons-font {} rejected", fi);
            continue;
        };
        let gid_of = |c: u32| -> u16 { cmap.iter().find(|e| e.0 == c).map(|e| e.1).unwrap_or(0) };
        let hx = hex(&bytes);
        for _ in 0..per {
            let mut base = Req::default();
            let len = rng.range(2, 8);
            let mut cl = 0u32;
            for _ in 0..len {
                match rng.below(6) {
                    0 | 1 => base.text.push((rng.pick(DEC).0, cl)),
                    2 => {
                        base.text.push((*rng.pick(&[0x65u32, 0x61, 0x64]), cl));
                        cl += 1;
                        base.text.push((*rng.pick(MARKS_), cl));
                    }
                    _ => base.text.push((*rng.pick(PLAIN), cl)),
                }
                cl += 1;
            }
            base.level = rng.below(3) as u8;
            base.script = Some("Latn".to_string());
            for d in DIRS {
                let mut req = base.clone();
                req.dir = d;
                let eff = effective_dir(&req);
                let vert = matches!(eff, Direction::TopToBottom | Direction::BottomToTop);
                let back = matches!(eff, Direction::RightToLeft | Direction::BottomToTop);
                let r2 = req.clone();
                let Ok(out) = catch(std::panic::AssertUnwindSafe(|| shape_req(&face, &r2))) else { continue };
                shapes += 1;
                glyphs += out.len() as u64;
                if vert {
                    vertical += 1;
                }
                // expected NON-MARK glyphs in logical order: a character the font maps -> its glyph; otherwise the
                // non-mark characters of its decomposition (a composite the font has is also fine: recomposition)
                let is_mark = |c: u32| MARKS_.contains(&c);
                let mut want: Vec<Vec<u16>> = Vec::new(); // alternatives per position
                let mut replaced = false;
                for (c, _) in &req.text {
                    if is_mark(*c) {
                        continue;
                    }
                    if gid_of(*c) != 0 {
                        // a base followed by a mark may be recomposed into a precomposed letter the font maps
                        let mut alts = vec![gid_of(*c)];
                        for (p, dec) in DEC {
                            if dec[0] == *c && own.contains(p) {
                                alts.push(gid_of(*p));
                            }
                        }
                        want.push(alts);
                    } else if let Some((_, dec)) = DEC.iter().find(|e| e.0 == *c) {
                        replaced = true;
                        want.push(vec![gid_of(dec[0])]);
                    } else {
                        want.push(vec![0]);
                    }
                }
                let mark_gids: Vec<u32> = MARKS_.iter().map(|m| gid_of(*m) as u32).collect();
                let mut got: Vec<&G> = out.iter().filter(|g| !mark_gids.contains(&g.gid)).collect();
                if back {
                    got.reverse();
                }
                let mut bad: Option<String> = None;
                if got.len() != want.len() {
                    bad = Some(format!("{};non-mark;glyphs;for;{};non-mark;characters", got.len(), want.len()));
                } else {
                    for (g, alts) in got.iter().zip(want.iter()) {
                        let adv = spec.hadv.get(g.gid as usize).copied().unwrap_or(0) as i32;
                        let pos_ok = if vert { (g.xa, g.ya, g.xo, g.yo) == (0, -1000, -(adv / 2), -800) } else { (g.xa, g.ya, g.xo, g.yo) == (adv, 0, 0, 0) };
                        if !alts.contains(&(g.gid as u16)) || !pos_ok {
                            bad = Some(format!("got glyph {} adv {},{} off {},{} want glyph {:?} with its own metrics", g.gid, g.xa, g.ya, g.xo, g.yo, alts).replace(' ', ";"));
                            break;
                        }
                    }
                }
                if replaced {
                    nontrivial += 1;
                }
                if let Some(b) = bad {
                    viol += 1;
                    if viol <= 5 {
                        println!("viol fonthex={} index=0 var=- req={} dir={} what=decomposing-run-metrics:{} nf=- out={}", hx, fmt_req(&req).replace(' ', "~"), dir_name(Some(eff)), b, fmt_out(&out));
                    }
                }
            }
        }
    }
    // a LONG text (beyond the 16384 floor of the length budget) that grows by a few glyphs at its start: three characters
    // the font lacks and decomposes, then 17000 plain letters - every one of them keeps its cmap glyph and hmtx advance
    // (the budget of a shaping call is 64 x the text length, so such a text is far from it)
    if arg_u64(args, "--seed", 1) % 32452843 == 1 || n <= 8 {
        let mut spec = FontSpec::basic(5);
        spec.cmap = vec![(0x61, 1), (0x65, 2), (0x301, 3)];
        spec.hadv = vec![500, 611, 580, 0, 500];
        let bytes = build(&spec);
        let face = Face::from_slice(&bytes, 0).expect("long-text font");
        for dir in [Direction::LeftToRight, Direction::TopToBottom] {
            let mut text: Vec<(u32, u32)> = vec![(0xE9, 0), (0xE9, 1), (0xE9, 2)];
            text.extend((0..17000u32).map(|i| (0x61, 3 + i)));
            let req = Req { text, dir: Some(dir), script: Some("Latn".to_string()), flags: 3, level: 1, ..Default::default() };
            let r2 = req.clone();
            let f2 = &face;
            shapes += 1;
            nontrivial += 1;
            match catch(std::panic::AssertUnwindSafe(move || shape_req(f2, &r2))) {
                Ok(out) => {
                    let bad = out.iter().filter(|g| g.cluster >= 3).find(|g| g.gid != 1 || (dir == Direction::LeftToRight && (g.xa != 611 || g.ya != 0)) || (dir == Direction::TopToBottom && g.xa != 0));
                    let count_ok = out.iter().filter(|g| g.cluster >= 3).count() == 17000;
                    if bad.is_some() || !count_ok {
                        viol += 1;
                        println!("viol fonthex={} index=0 var=- req={} dir={} what=decomposing-run-metrics:long-text-plain-letters-lost-their-glyph(count_ok={}) nf=- out={}", hex(&bytes), "text=E9:0,E9:1,E9:2,61x17000~script=Latn~flags=3~level=1", dir_name(Some(dir)), count_ok, bad.map(|g| format!("{}@{}+{},{}", g.gid, g.cluster, g.xa, g.ya)).unwrap_or_default());
                    }
                }
                Err(_) => {}
            }
        }
    }
    println!("singletons-summary fonts={} shapes={} glyphs={} vertical={} nontrivial={} viol={}", n, shapes, glyphs, vertical, nontrivial, viol);
}

// ------------------------------------------------------------------------------------------------
// single request (replays) and the witness of the known finding

fn cmd_one(args: &[String]) {
    let data = if let Some(p) = arg_str(args, "--font") {
        std::fs::read(p).expect("read font")
    } else {
        unhex(arg_str(args, "--fonthex").expect("--font or --fonthex"))
    };
    let index = arg_u64(args, "--index", 0) as u32;
    // the request in fmt_req syntax with '~' (or spaces) between the keys
    let mut req = parse_req(&arg_str(args, "--req").unwrap_or("").replace('~', " "));
    if let Some(g) = arg_str(args, "--nf") {
        if let Ok(g) = g.parse::<u32>() {
            req.nf_vs = Some(g);
        }
    }
    let vars = arg_str(args, "--var").map(parse_vars).unwrap_or_default();
    let res = catch(std::panic::AssertUnwindSafe(|| {
        let Some(mut face) = Face::from_slice(&data, index) else { return None };
        apply_vars(&mut face, &vars);
        let d = effective_dir(&req);
        let out = shape_req(&face, &req);
        Some((d, out))
    }));
    match res {
        Ok(Some((d, out))) => {
            println!("ok dir={} out={}", dir_name(Some(d)), fmt_out(&out));
            for (what, known) in broken(d, &out, req.nf_vs) {
                println!("{} what={}", if known { "known" } else { "viol" }, what.replace(' ', ";"));
            }
        }
        Ok(None) => println!("noface"),
        Err(c) => println!("panic {}", c),
    }
}

fn cmd_witness(args: &[String]) {
    // FontSpec::basic: U+E000 -> glyph 1, no cmap-14 subtable; text <U+E000, U+FE00>
    let g = arg_u64(args, "--nf", 0x12345) as u32;
    let spec = FontSpec::basic(4);
    let bytes = build(&spec);
    let face = Face::from_slice(&bytes, 0).expect("face");
    let mut req = Req::default();
    req.text = vec![(0xE000, 0), (0xFE00, 1)];
    req.nf_vs = Some(g);
    let out = shape_req(&face, &req);
    println!("witness nf={} out={}", g, fmt_out(&out));
    for (what, known) in broken(Direction::LeftToRight, &out, req.nf_vs) {
        println!("{} what={}", if known { "known" } else { "viol" }, what.replace(' ', ";"));
    }
}

pub fn run(args: &[String]) {
    quiet_panics();
    let rest = if args.is_empty() { args } else { &args[1..] };
    match args.first().map(|s| s.as_str()) {
        Some("alphabet") => cmd_alphabet(),
        Some("simple") => cmd_simple(rest),
        Some("inv") => cmd_inv(rest),
        Some("gen") => cmd_gen(rest),
        Some("glyf") => cmd_glyf(rest),
        Some("spaces") => cmd_spaces(rest),
        Some("singletons") => cmd_singletons(rest),
        Some("one") => cmd_one(rest),
        Some("witness") => cmd_witness(rest),
        _ => {
            eprintln!("usage: rbv c16 alphabet|simple|inv|gen|one|witness");
            std::process::exit(2);
        }
    }
}
