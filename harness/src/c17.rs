//! C17: AAT `morx` — generated fonts for the model correspondence, implementation-level oracles
//! on restricted fonts, generic predicates on the corpus morx fonts.  Public API only.
//!
//!   rbv c17 gen     --seed S --n N [--stream wf|mal] [--texts T] [--first I]   fonts + shaped cases
//!   rbv c17 dump    --seed S --stream wf|mal --font I                         FontSpec Debug + base64
//!   rbv c17 oracle  --seed S --n N                                            oracles (i)-(iv)
//!   rbv c17 corpus  --seed S --per-font K                                     generic predicates
//!   rbv c17 cases                                (stdin: `<font path>\t<request>` lines)
//!   rbv c17 bytes   --req "<request>"            (stdin: base64 font)          shape one request
use crate::fontgen::aat::{lookup_value, LookupRole};
use crate::fontgen::coq::ToCoq;
use crate::fontgen::*;
use crate::shp::*;
use crate::util::*;
use rustybuzz::Direction;
use std::io::Read;

pub fn run(args: &[String]) {
    quiet_panics();
    match args.get(0).map(|s| s.as_str()) {
        Some("gen") => gen(args),
        Some("dump") => dump(args),
        Some("oracle") => oracle(args),
        Some("corpus") => corpus(args),
        Some("cases") => cases(),
        Some("bytes") => bytes(args),
        Some("repro-ranged") => repro_ranged(),
        Some("repro-aalt") => repro_aalt(),
        _ => {
            eprintln!("c17 gen|dump|oracle|corpus|cases|bytes");
            std::process::exit(2)
        }
    }
}

// ---------------------------------------------------------------------------------------------
// base64

const B64: &[u8; 64] = b"ABCDEFGHIJKLMNOPQRSTUVWXYZabcdefghijklmnopqrstuvwxyz0123456789+/";

pub fn b64_encode(data: &[u8]) -> String {
    let mut s = String::with_capacity(data.len() * 4 / 3 + 4);
    for ch in data.chunks(3) {
        let b = [ch[0], *ch.get(1).unwrap_or(&0), *ch.get(2).unwrap_or(&0)];
        let v = ((b[0] as u32) << 16) | ((b[1] as u32) << 8) | b[2] as u32;
        s.push(B64[(v >> 18) as usize & 63] as char);
        s.push(B64[(v >> 12) as usize & 63] as char);
        s.push(if ch.len() > 1 { B64[(v >> 6) as usize & 63] as char } else { '=' });
        s.push(if ch.len() > 2 { B64[v as usize & 63] as char } else { '=' });
    }
    s
}

pub fn b64_decode(s: &str) -> Vec<u8> {
    let mut out = Vec::new();
    let mut acc = 0u32;
    let mut bits = 0;
    for c in s.bytes() {
        let v = match c {
            b'A'..=b'Z' => c - b'A',
            b'a'..=b'z' => c - b'a' + 26,
            b'0'..=b'9' => c - b'0' + 52,
            b'+' => 62,
            b'/' => 63,
            _ => continue,
        };
        acc = (acc << 6) | v as u32;
        bits += 6;
        if bits >= 8 {
            bits -= 8;
            out.push((acc >> bits) as u8);
        }
    }
    out
}

// ---------------------------------------------------------------------------------------------
// generator

#[derive(Clone, Copy, PartialEq)]
enum Stream {
    Wf,
    Mal,
}

struct Gen {
    r: Rng,
    ng: u16,
    mal: bool,
    /// the font gets a feat table: subtables mostly listen to single feature-flag bits
    featy: bool,
}

impl Gen {
    fn glyph(&mut self) -> u16 {
        1 + self.r.below(self.ng as u64 - 1) as u16
    }
    /// out-of-range value with small probability in the malformed stream
    fn idx(&mut self, n: usize) -> u16 {
        if self.mal && self.r.chance(1, 6) {
            match self.r.below(4) {
                0 => n as u16,
                1 => (n + self.r.below(40) as usize) as u16,
                2 => 0xFFFE,
                _ => self.r.below(65536) as u16,
            }
        } else {
            self.r.below(n.max(1) as u64) as u16
        }
    }
    fn format(&mut self) -> u8 {
        *self.r.pick(&[0u8, 2, 6, 8])
    }
    /// sorted random non-empty subset of 1..ng
    fn subset(&mut self, p_num: u64, p_den: u64) -> Vec<u16> {
        let mut v: Vec<u16> = (1..self.ng).filter(|_| self.r.chance(p_num, p_den)).collect();
        if v.is_empty() {
            v.push(self.glyph());
        }
        v
    }
    fn class_lookup(&mut self, n_classes: u32) -> AatLookup {
        let gs = self.subset(2, 3);
        let mut map = Vec::new();
        for g in gs {
            let c = match self.r.below(12) {
                0 => self.r.below(4) as u16,                  // predefined classes
                1 => n_classes as u16 + self.r.below(3) as u16, // beyond the table: class 1
                _ => 4 + self.r.below(n_classes as u64 - 4) as u16,
            };
            map.push((g, c));
        }
        let fill = if self.r.chance(1, 4) { Some(self.r.below(n_classes as u64 + 1) as u16) } else { None };
        AatLookup { format: self.format(), map, fill }
    }
    fn glyph_lookup(&mut self) -> AatLookup {
        let gs = self.subset(1, 3);
        let mut map = Vec::new();
        for g in gs {
            let v = match self.r.below(16) {
                0 => 0xFFFF, // the deleted glyph
                1 => 0,
                _ => self.glyph(),
            };
            map.push((g, v));
        }
        let fill = if self.r.chance(1, 4) { Some(self.glyph()) } else { None };
        AatLookup { format: self.format(), map, fill }
    }
    fn states(&mut self, n_states: usize, n_classes: u32, n_entries: usize) -> Vec<Vec<u16>> {
        (0..n_states)
            .map(|_| {
                (0..n_classes)
                    .map(|c| {
                        // end-of-text / out-of-bounds columns mostly go to entry 0 (a no-op entry)
                        if c < 4 && self.r.chance(2, 3) {
                            0
                        } else {
                            self.idx(n_entries)
                        }
                    })
                    .collect()
            })
            .collect()
    }
    fn dont_advance(&mut self) -> u16 {
        if self.r.chance(1, 8) { 0x4000 } else { 0 }
    }

    fn rearrangement(&mut self) -> MorxKind {
        let n_classes = 4 + self.r.range(1, 4) as u32;
        let n_states = self.r.range(2, 6) as usize;
        let n_entries = self.r.range(2, 8) as usize;
        let mut entries = vec![RearrEntry { new_state: 0, flags: 0 }];
        for _ in 1..n_entries {
            let mut flags = self.dont_advance();
            if self.r.chance(1, 3) {
                flags |= 0x8000;
            }
            if self.r.chance(1, 3) {
                flags |= 0x2000;
            }
            if self.r.chance(1, 2) {
                flags |= self.r.below(16) as u16;
            }
            entries.push(RearrEntry { new_state: self.idx(n_states), flags });
        }
        MorxKind::Rearrangement(StateTable { n_classes, class_lookup: self.class_lookup(n_classes), states: self.states(n_states, n_classes, n_entries), entries })
    }

    fn contextual(&mut self) -> MorxKind {
        let n_classes = 4 + self.r.range(1, 4) as u32;
        let n_states = self.r.range(2, 6) as usize;
        let n_entries = self.r.range(2, 8) as usize;
        let n_subs = self.r.range(1, 3) as usize;
        let substitutions: Vec<AatLookup> = (0..n_subs).map(|_| self.glyph_lookup()).collect();
        let mut entries = vec![CtxEntry { new_state: 0, flags: 0, mark_index: 0xFFFF, current_index: 0xFFFF }];
        for _ in 1..n_entries {
            let mut flags = self.dont_advance();
            if self.r.chance(1, 3) {
                flags |= 0x8000;
            }
            let mark_index = if self.r.chance(1, 2) { 0xFFFF } else { self.idx(n_subs) };
            let current_index = if self.r.chance(1, 2) { 0xFFFF } else { self.idx(n_subs) };
            entries.push(CtxEntry { new_state: self.idx(n_states), flags, mark_index, current_index });
        }
        MorxKind::Contextual {
            table: StateTable { n_classes, class_lookup: self.class_lookup(n_classes), states: self.states(n_states, n_classes, n_entries), entries },
            substitutions,
        }
    }

    fn ligature(&mut self) -> MorxKind {
        let n_classes = 4 + self.r.range(1, 4) as u32;
        let n_states = self.r.range(2, 6) as usize;
        let n_entries = self.r.range(2, 8) as usize;
        let n_actions = self.r.range(1, 6) as usize;
        let mut lig_actions = Vec::new();
        for i in 0..n_actions {
            let offset: i32 = if self.mal && self.r.chance(1, 5) {
                *self.r.pick(&[-0x2000_0000i32, 0x1FFF_FFFF, -70000, 70000, -(self.ng as i32), 300])
            } else {
                self.r.below(7) as i32 - 3
            };
            let store = self.r.chance(1, 3);
            let last = self.r.chance(1, 3) || (i + 1 == n_actions && !self.mal);
            lig_actions.push(lig_action(offset, store, last));
        }
        // component table long enough for glyph + offset, glyph < ng, offset <= 3
        let n_comp = if self.mal && self.r.chance(1, 3) { self.r.range(1, self.ng as u64) as usize } else { self.ng as usize + 3 };
        let components: Vec<u16> = (0..n_comp)
            .map(|_| if self.mal && self.r.chance(1, 8) { self.r.below(65536) as u16 } else { self.r.below(3) as u16 })
            .collect();
        // ligature table long enough for the largest sum of components (2 per action)
        let n_lig = if self.mal && self.r.chance(1, 3) { self.r.range(1, 6) as usize } else { 2 * n_actions + 1 };
        let ligatures: Vec<u16> = (0..n_lig).map(|_| if self.r.chance(1, 20) { 0xFFFF } else { self.glyph() }).collect();
        let mut entries = vec![LigEntry { new_state: 0, flags: 0, lig_action_index: 0 }];
        for _ in 1..n_entries {
            let mut flags = self.dont_advance();
            if self.r.chance(1, 2) {
                flags |= 0x8000;
            }
            if self.r.chance(1, 3) {
                flags |= 0x2000;
            }
            entries.push(LigEntry { new_state: self.idx(n_states), flags, lig_action_index: self.idx(n_actions) });
        }
        MorxKind::Ligature {
            table: StateTable { n_classes, class_lookup: self.class_lookup(n_classes), states: self.states(n_states, n_classes, n_entries), entries },
            lig_actions,
            components,
            ligatures,
        }
    }

    fn insertion(&mut self) -> MorxKind {
        let n_classes = 4 + self.r.range(1, 4) as u32;
        let n_states = self.r.range(2, 6) as usize;
        let n_entries = self.r.range(2, 8) as usize;
        let n_glyphs = self.r.range(4, 10) as usize;
        let glyphs: Vec<u16> = (0..n_glyphs).map(|_| self.glyph()).collect();
        let mut entries = vec![InsEntry { new_state: 0, flags: 0, current_insert_index: 0xFFFF, marked_insert_index: 0xFFFF }];
        for _ in 1..n_entries {
            let mut flags = self.dont_advance();
            if self.r.chance(1, 3) {
                flags |= 0x8000;
            }
            flags |= (self.r.below(4) as u16) << 10; // insert-before bits
            flags |= (self.r.below(4) as u16) << 12; // kashida-like bits (ignored)
            let max_count = if self.mal && self.r.chance(1, 4) { 31 } else { 3 };
            let cc = self.r.below(max_count + 1) as u16;
            let mc = self.r.below(max_count + 1) as u16;
            flags |= cc << 5;
            flags |= mc;
            let current_insert_index = if self.r.chance(1, 2) { 0xFFFF } else { self.idx(n_glyphs - cc.min(3) as usize) };
            let marked_insert_index = if self.r.chance(1, 2) { 0xFFFF } else { self.idx(n_glyphs - mc.min(3) as usize) };
            entries.push(InsEntry { new_state: self.idx(n_states), flags, current_insert_index, marked_insert_index });
        }
        MorxKind::Insertion {
            table: StateTable { n_classes, class_lookup: self.class_lookup(n_classes), states: self.states(n_states, n_classes, n_entries), entries },
            glyphs,
        }
    }

    fn coverage(&mut self) -> u32 {
        let mut c = 0u32;
        if self.r.chance(1, 6) {
            c |= morx_coverage::VERTICAL;
        }
        if self.r.chance(1, 3) {
            c |= morx_coverage::BACKWARDS;
        }
        if self.r.chance(1, 4) {
            c |= morx_coverage::ALL_DIRECTIONS;
        }
        if self.r.chance(1, 3) {
            c |= morx_coverage::LOGICAL;
        }
        // reserved bits of the coverage word must not matter
        if self.r.chance(1, 8) {
            c |= 0x0100_0000 << self.r.below(4);
        }
        c
    }

    fn flags(&mut self) -> u32 {
        match self.r.below(8) {
            0 => 0,
            1 => 0xFFFF_FFFF,
            2 => 0x8000_0000,
            _ => self.r.below(8) as u32,
        }
    }

    fn subtable(&mut self) -> MorxSubtable {
        let kind = match self.r.below(9) {
            0 => MorxKind::NonContextual(self.glyph_lookup()),
            1 | 2 => self.rearrangement(),
            3 | 4 => self.contextual(),
            5 | 6 => self.ligature(),
            _ => self.insertion(),
        };
        let sub_feature_flags = if self.featy && self.r.chance(2, 3) {
            1 << self.r.below(3)
        } else if self.r.chance(1, 2) {
            0xFFFF_FFFF
        } else {
            self.flags()
        };
        MorxSubtable { coverage: self.coverage(), sub_feature_flags, kind }
    }

    fn font(&mut self) -> FontSpec {
        let mut s = FontSpec::basic(self.ng);
        self.featy = self.r.chance(3, 5);
        let n_chains = self.r.range(1, 3) as usize;
        let mut chains = Vec::new();
        for _ in 0..n_chains {
            let n_sub = self.r.range(1, 4) as usize;
            // chain feature entries: (type, setting) pairs that user features can reach through the mapping
            // table, with overlapping enable/disable masks so that the order of the updates matters
            let n_feat = if self.featy { self.r.range(2, 7) as usize } else { self.r.below(4) as usize };
            let features = (0..n_feat)
                .map(|_| {
                    let (feature_type, feature_setting) = if self.r.chance(1, 8) {
                        (*self.r.pick(&[1u16, 3, 37, 17, 2]), self.r.below(6) as u16)
                    } else {
                        *self.r.pick(&CHAIN_FEATURES)
                    };
                    let (en, dis) = if self.featy { (self.r.below(8) as u32, !(self.r.below(8) as u32)) } else { (self.flags(), !self.flags()) };
                    MorxFeature { feature_type, feature_setting, enable_flags: en, disable_flags: dis }
                })
                .collect();
            let default_flags = if self.featy { self.r.below(8) as u32 } else if self.r.chance(2, 3) { 1 | self.flags() } else { self.flags() };
            chains.push(MorxChain { default_flags, features, subtables: (0..n_sub).map(|_| self.subtable()).collect() });
        }
        s.morx = Some(Morx { version: if self.r.chance(1, 3) { 3 } else { 2 }, chains });
        // feature name table: a random subset of the types the mapping table can produce
        if self.featy {
            let mut names = Vec::new();
            for (ty, excl) in [(1u16, false), (3, true), (6, true), (17, true), (21, true), (35, false), (37, true), (38, true)] {
                if self.r.chance(3, 4) {
                    let n_set = if self.r.chance(1, 8) { 0 } else { self.r.range(1, 4) as usize };
                    let settings: Vec<u16> = (0..n_set as u16).map(|k| if self.r.chance(1, 6) { k + 7 } else { k }).collect();
                    // the exclusive bit usually follows Apple's registry, sometimes not
                    let exclusive = if self.r.chance(1, 6) { !excl } else { excl };
                    names.push(FeatName { feature: ty, settings, exclusive, default_index: if self.r.chance(1, 3) { Some(0) } else { None } });
                }
            }
            s.feat = Some(Feat { names });
        }
        s
    }
}

/// (AAT feature type, selector) pairs reachable from the OpenType tags of USER_TAGS
const CHAIN_FEATURES: [(u16, u16); 28] = [
    (1, 2), (1, 3), (37, 1), (3, 3), (3, 3), (37, 1),
    (1, 2), (1, 3), (1, 4), (1, 5), (37, 1), (37, 0), (37, 2), (3, 3), (35, 2), (35, 3), (35, 4), (35, 5),
    (17, 0), (17, 1), (17, 2), (6, 0), (6, 1), (6, 4), (21, 0), (21, 1), (21, 2), (38, 1),
];
/// liga dlig smcp pcap ss01 ss02 aalt tnum pnum onum lnum c2sc; kern and zzzz have no AAT mapping
const USER_TAGS: [&str; 17] = ["smcp", "smcp", "liga", "liga", "dlig", "smcp", "pcap", "ss01", "ss02", "aalt", "tnum", "pnum", "onum", "lnum", "c2sc", "kern", "zzzz"];

fn gen_features(r: &mut Rng, len: usize, has_feat: bool) -> Vec<String> {
    let n = if has_feat {
        match r.below(8) {
            0 | 1 => 0,
            2..=4 => 1,
            5 | 6 => 2,
            _ => 3,
        }
    } else if r.chance(1, 8) {
        1
    } else {
        0
    };
    (0..n)
        .map(|_| {
            let tag = *r.pick(&USER_TAGS);
            let value = if tag == "aalt" { if r.chance(1, 6) { *r.pick(&[65535u64, 65536, 70000, 4294967295]) } else { r.below(4) } } else if r.chance(1, 3) { 0 } else { 1 };
            let range = if r.chance(1, 3) {
                let a = r.below(len as u64 + 2);
                let b = a + r.below(len as u64 + 2);
                format!("[{}:{}]", a, b)
            } else {
                String::new()
            };
            match (value, r.below(3)) {
                (0, 0) if range.is_empty() && tag != "aalt" => format!("-{}", tag),
                (1, 0) if tag != "aalt" => format!("{}{}", tag, range),
                (v, _) => format!("{}{}={}", tag, range, v),
            }
        })
        .collect()
}

fn font_rng(seed: u64, stream: Stream, i: u64) -> Rng {
    Rng::new(seed.wrapping_mul(0x9E37_79B9).wrapping_add(i.wrapping_mul(0x1000_0001)).wrapping_add(if stream == Stream::Mal { 0x5555_0000 } else { 0 }))
}

fn gen_font(seed: u64, stream: Stream, i: u64) -> (FontSpec, Rng) {
    let mut r = font_rng(seed, stream, i);
    let ng = r.range(6, 25) as u16;
    let mut g = Gen { r, ng, mal: stream == Stream::Mal, featy: false };
    let f = g.font();
    (f, g.r)
}

fn gen_req(r: &mut Rng, ng: u16, has_feat: bool) -> Req {
    let len = match r.below(10) {
        0 => 0,
        1 => 1,
        2 => if r.chance(1, 4) { r.range(70, 300) as usize } else { r.range(13, 40) as usize },
        _ => r.range(2, 12) as usize,
    };
    // a few glyphs dominate so that multi-glyph patterns recur
    let hot: Vec<u16> = (0..4).map(|_| 1 + r.below(ng as u64 - 1) as u16).collect();
    let mut cps = Vec::new();
    for _ in 0..len {
        let g = if r.chance(1, 2) || (len >= 70 && r.chance(9, 10)) { *r.pick(&hot) } else { 1 + r.below(ng as u64 - 1) as u16 };
        // an unmapped private-use character now and then (glyph 0)
        let cp = if r.chance(1, 40) { pua(ng as u32 + 7) } else { pua(g as u32 - 1) };
        cps.push(cp);
    }
    let mode = r.below(16);
    let mut cl = 0u32;
    let text: Vec<(u32, u32)> = cps
        .iter()
        .enumerate()
        .map(|(i, c)| {
            let k = match mode {
                0 | 1 => {
                    // non-decreasing with repeats and gaps
                    cl += r.below(3) as u32;
                    cl
                }
                2 => r.below(6) as u32, // arbitrary
                _ => i as u32,
            };
            (*c, k)
        })
        .collect();
    let dir = match r.below(10) {
        0 => Direction::TopToBottom,
        1 => Direction::BottomToTop,
        2..=5 => Direction::RightToLeft,
        _ => Direction::LeftToRight,
    };
    let features = gen_features(r, len, has_feat);
    Req { text, dir: Some(dir), level: r.below(3) as u8, features, ..Req::default() }
}

/// the user features as rustybuzz parsed them: tag:value:start:end (numbers)
fn fmt_uf(req: &Req) -> String {
    let v: Vec<String> = features_of(req).iter().map(|f| format!("{}:{}:{}:{}", f.tag.0, f.value, f.start, f.end)).collect();
    if v.is_empty() { "-".to_string() } else { v.join(",") }
}

fn fmt_out(gs: &[G]) -> String {
    let v: Vec<String> = gs.iter().map(|g| format!("{}={}", g.gid, g.cluster)).collect();
    v.join(",")
}

/// outputs longer than this are reported as (length, digest)
const BIG: usize = 1000;

/// h' = (h * 1000003 + gid * 131 + cluster + 1) mod 2^32 over the output, from 0 (mirrored by Corr/MorxC.v)
fn digest(gs: &[G]) -> u64 {
    let mut h: u64 = 0;
    for g in gs {
        h = (h * 1000003 + (g.gid as u64) * 131 + g.cluster as u64 + 1) % (1u64 << 32);
    }
    h
}

fn shape_bytes(bytes: &[u8], req: &Req) -> Result<Vec<G>, String> {
    let b = bytes.to_vec();
    let r = req.clone();
    catch(move || match rustybuzz::Face::from_slice(&b, 0) {
        Some(face) => Ok(shape_req(&face, &r)),
        None => Err("noface".to_string()),
    })
    .and_then(|x| x)
}

/// generic predicates of the property on one result: output length bound, clusters from the input
fn generic_violation(req: &Req, out: &[G]) -> Option<String> {
    let n = req.text.len();
    let bound = (64 * n).max(16384);
    if out.len() > bound {
        return Some(format!("length {} exceeds max(64n,16384)={}", out.len(), bound));
    }
    for g in out {
        if !req.text.iter().any(|(_, k)| *k == g.cluster) {
            return Some(format!("cluster {} is not a cluster of the input", g.cluster));
        }
    }
    None
}

fn stream_of(args: &[String]) -> Stream {
    match arg_str(args, "--stream") {
        Some("mal") => Stream::Mal,
        _ => Stream::Wf,
    }
}

fn gen(args: &[String]) {
    let seed = arg_u64(args, "--seed", 1);
    let n = arg_u64(args, "--n", 10);
    let first = arg_u64(args, "--first", 0);
    let texts = arg_u64(args, "--texts", 16);
    let stream = stream_of(args);
    let limit_ms = arg_u64(args, "--limit-ms", 4000);
    let mut shapes = 0u64;
    let mut bad = 0u64;
    let mut slow = 0u64;
    let mut done = 0u64;
    'fonts: for i in first..first + n {
        done += 1;
        let (spec, mut r) = gen_font(seed, stream, i);
        let problems = check(&spec);
        if !problems.is_empty() {
            println!("genbug {} {}", i, problems.join("; "));
            continue;
        }
        let bytes = build(&spec);
        if stream == Stream::Wf {
            println!("font {} {}", i, spec.coq());
            println!("feat {} {}", i, match &spec.feat { Some(f) => format!("(Some {})", f.coq()), None => "None".to_string() });
        }
        for j in 0..texts {
            let req = gen_req(&mut r, spec.num_glyphs, spec.feat.is_some());
            let res = match shape_guarded(&bytes, &req, limit_ms) {
                Some(r) => r,
                None => {
                    slow += 1;
                    println!("slow {} {} >{}ms :: {}", i, j, limit_ms, fmt_req(&req));
                    if slow >= 6 {
                        break 'fonts;
                    }
                    continue;
                }
            };
            shapes += 1;
            match &res {
                Ok(out) => {
                    if let Some(why) = generic_violation(&req, out) {
                        bad += 1;
                        println!("generic-fail {} {} {} :: {} :: {}", i, j, why, fmt_req(&req), fmt_out(out));
                    }
                    if stream == Stream::Wf {
                        // did the user features change the result?  (evidence only)
                        if !req.features.is_empty() {
                            let mut plain = req.clone();
                            plain.features.clear();
                            if let Some(Ok(o2)) = shape_guarded(&bytes, &plain, limit_ms) {
                                if o2 != *out {
                                    println!("fx {} {}", i, j);
                                }
                            }
                        }
                        if out.len() > BIG {
                            println!("case {} {} {} uf={} -> big {} {}", i, j, fmt_req(&req), fmt_uf(&req), out.len(), digest(out));
                        } else {
                            println!("case {} {} {} uf={} -> ok {}", i, j, fmt_req(&req), fmt_uf(&req), fmt_out(out));
                        }
                    }
                }
                Err(c) => {
                    bad += 1;
                    println!("generic-fail {} {} panic:{} :: {} :: -", i, j, c, fmt_req(&req));
                    if stream == Stream::Wf {
                        println!("case {} {} {} uf={} -> panic {}", i, j, fmt_req(&req), fmt_uf(&req), c);
                    }
                }
            }
        }
    }
    println!("gen-summary stream={} fonts={} shapes={} generic_failures={} slow={}", if stream == Stream::Mal { "mal" } else { "wf" }, done, shapes, bad, slow);
    // abandoned watchdog threads may still be shaping
    std::process::exit(0);
}

/// shape in a worker thread; None when it does not answer within `limit_ms` (the thread is abandoned)
fn shape_guarded(bytes: &[u8], req: &Req, limit_ms: u64) -> Option<Result<Vec<G>, String>> {
    let (tx, rx) = std::sync::mpsc::channel();
    let b = bytes.to_vec();
    let r = req.clone();
    std::thread::spawn(move || {
        let _ = tx.send(shape_bytes(&b, &r));
    });
    rx.recv_timeout(std::time::Duration::from_millis(limit_ms)).ok()
}

fn dump(args: &[String]) {
    let seed = arg_u64(args, "--seed", 1);
    let i = arg_u64(args, "--font", 0);
    let (spec, _) = gen_font(seed, stream_of(args), i);
    println!("spec {:?}", spec);
    println!("coq {}", spec.coq());
    println!("featcoq {}", match &spec.feat { Some(f) => format!("(Some {})", f.coq()), None => "None".to_string() });
    println!("b64 {}", b64_encode(&build(&spec)));
}

/// the minimal font of the range-restricted non-contextual defect (fixed by b49677d): feat exposes
/// lower case (37), one chain (default flags 0) whose entry (37, 1) enables flag 1, one non-contextual
/// subtable (flags 1) mapping g -> g + 10 for g = 1..8
fn repro_ranged() {
    let mut spec = morx_font(
        24,
        vec![MorxChain {
            default_flags: 0,
            features: vec![MorxFeature { feature_type: 37, feature_setting: 1, enable_flags: 1, disable_flags: 0xFFFF_FFFF }],
            subtables: vec![MorxSubtable {
                coverage: 0,
                sub_feature_flags: 1,
                kind: MorxKind::NonContextual(AatLookup::new(6, (1..=8u16).map(|g| (g, g + 10)).collect())),
            }],
        }],
    );
    spec.feat = Some(Feat { names: vec![FeatName { feature: 37, settings: vec![0, 1], exclusive: true, default_index: None }] });
    println!("spec {:?}", spec);
    println!("b64 {}", b64_encode(&build(&spec)));
}

/// font for the `aalt=<value above 65535>` defect (fixed by 7c3bda2): feat exposes character alternatives
/// (17); chain entries (17, 4464) -> flag 1 (4464 = 70000 mod 65536: a truncated selector would match) and
/// (17, 2) -> flag 2; subtables: flag 1 maps 1 -> 11, flag 2 maps 2 -> 12
fn repro_aalt() {
    let map = |a: u16| MorxKind::NonContextual(AatLookup::new(6, vec![(a, a + 10)]));
    let mut spec = morx_font(
        24,
        vec![MorxChain {
            default_flags: 0,
            features: vec![
                MorxFeature { feature_type: 17, feature_setting: 4464, enable_flags: 1, disable_flags: 0xFFFF_FFFF },
                MorxFeature { feature_type: 17, feature_setting: 2, enable_flags: 2, disable_flags: 0xFFFF_FFFF },
            ],
            subtables: vec![
                MorxSubtable { coverage: 0, sub_feature_flags: 1, kind: map(1) },
                MorxSubtable { coverage: 0, sub_feature_flags: 2, kind: map(2) },
            ],
        }],
    );
    spec.feat = Some(Feat { names: vec![FeatName { feature: 17, settings: vec![0, 1, 2], exclusive: true, default_index: None }] });
    println!("spec {:?}", spec);
    println!("b64 {}", b64_encode(&build(&spec)));
}

fn bytes(args: &[String]) {
    let mut s = String::new();
    std::io::stdin().read_to_string(&mut s).ok();
    let data = b64_decode(&s);
    let req = parse_req(arg_str(args, "--req").unwrap_or(""));
    match shape_bytes(&data, &req) {
        Ok(out) => match generic_violation(&req, &out) {
            Some(why) => println!("ok {} generic-fail {}", fmt_out(&out), why),
            None => println!("ok {}", fmt_out(&out)),
        },
        Err(c) => println!("panic {}", c),
    }
}

// ---------------------------------------------------------------------------------------------
// oracles on restricted fonts (independent of the Gallina interpreter)

fn chain1(kind: MorxKind, coverage: u32) -> Vec<MorxChain> {
    vec![MorxChain { default_flags: 1, features: vec![], subtables: vec![MorxSubtable { coverage, sub_feature_flags: 1, kind }] }]
}

fn morx_font(ng: u16, chains: Vec<MorxChain>) -> FontSpec {
    let mut s = FontSpec::basic(ng);
    s.morx = Some(Morx { version: 2, chains });
    s
}

fn req_of(gids: &[u16], dir: Direction, level: u8) -> Req {
    Req { text: gids.iter().enumerate().map(|(i, g)| (pua(*g as u32 - 1), i as u32)).collect(), dir: Some(dir), level, ..Req::default() }
}

fn rand_text(r: &mut Rng, alphabet: &[u16], max: u64) -> Vec<u16> {
    let n = r.below(max + 1);
    (0..n).map(|_| *r.pick(alphabet)).collect()
}

/// Apple's verb table on the marked range (first .. last glyph), by pattern
fn apple_verb(verb: u16, rng: &[u32]) -> Vec<u32> {
    let n = rng.len();
    let (la, ld) = match verb {
        0 => (0, 0),
        1 => (1, 0),
        2 => (0, 1),
        3 => (1, 1),
        4 | 5 => (2, 0),
        6 | 7 => (0, 2),
        8 | 9 => (1, 2),
        10 | 11 => (2, 1),
        _ => (2, 2),
    };
    if n < la + ld {
        return rng.to_vec();
    }
    let a = &rng[..la];
    let x = &rng[la..n - ld];
    let d = &rng[n - ld..];
    let rev = |s: &[u32]| -> Vec<u32> { s.iter().rev().cloned().collect() };
    let (d2, a2): (Vec<u32>, Vec<u32>) = match verb {
        0 => (vec![], vec![]),
        1 => (vec![], a.to_vec()),      // Ax => xA
        2 => (d.to_vec(), vec![]),      // xD => Dx
        3 => (d.to_vec(), a.to_vec()),  // AxD => DxA
        4 => (vec![], a.to_vec()),      // ABx => xAB
        5 => (vec![], rev(a)),          // ABx => xBA
        6 => (d.to_vec(), vec![]),      // xCD => CDx
        7 => (rev(d), vec![]),          // xCD => DCx
        8 => (d.to_vec(), a.to_vec()),  // AxCD => CDxA
        9 => (rev(d), a.to_vec()),      // AxCD => DCxA
        10 => (d.to_vec(), a.to_vec()), // ABxD => DxAB
        11 => (d.to_vec(), rev(a)),     // ABxD => DxBA
        12 => (d.to_vec(), a.to_vec()), // ABxCD => CDxAB
        13 => (d.to_vec(), rev(a)),     // ABxCD => CDxBA
        14 => (rev(d), a.to_vec()),     // ABxCD => DCxAB
        _ => (rev(d), rev(a)),          // ABxCD => DCxBA
    };
    let mut out = d2;
    out.extend_from_slice(x);
    out.extend(a2);
    out
}

struct Tally {
    name: &'static str,
    runs: u64,
    changed: u64,
    fails: u64,
}

fn report(t: &mut Tally, spec: &FontSpec, req: &Req, want: &[u32], want_clusters: Option<&[u32]>) {
    let bytes = build(spec);
    t.runs += 1;
    let plain: Vec<u32> = req.text.iter().map(|(c, _)| c - 0xE000 + 1).collect();
    match shape_bytes(&bytes, req) {
        Ok(out) => {
            let mut got: Vec<u32> = out.iter().map(|g| g.gid).collect();
            let mut gotc: Vec<u32> = out.iter().map(|g| g.cluster).collect();
            if req.dir == Some(Direction::RightToLeft) {
                got.reverse();
                gotc.reverse();
            }
            if got != plain {
                t.changed += 1;
            }
            let cl_ok = want_clusters.map(|w| w == &gotc[..]).unwrap_or(true);
            if got != want || !cl_ok {
                t.fails += 1;
                println!(
                    "oracle-fail {} want={:?} wantcl={:?} got={:?} gotcl={:?} :: {} :: {} :: {:?}",
                    t.name, want, want_clusters, got, gotc, fmt_req(req), b64_encode(&bytes), spec.morx
                );
            }
        }
        Err(c) => {
            t.fails += 1;
            println!("oracle-fail {} panic:{} :: {} :: {} :: {:?}", t.name, c, fmt_req(req), b64_encode(&bytes), spec.morx);
        }
    }
}

fn oracle(args: &[String]) {
    let seed = arg_u64(args, "--seed", 1);
    let n = arg_u64(args, "--n", 50);
    let mut r = Rng::new(seed ^ 0xC17);
    let dirs = [Direction::LeftToRight, Direction::RightToLeft];

    // (i) one non-contextual subtable => map through the lookup
    let mut t1 = Tally { name: "noncontextual", runs: 0, changed: 0, fails: 0 };
    for _ in 0..n {
        let ng = r.range(6, 25) as u16;
        let mut g = Gen { r: r.clone(), ng, mal: false, featy: false };
        let l = g.glyph_lookup();
        r = g.r;
        let cov = if r.chance(1, 3) { morx_coverage::BACKWARDS } else { 0 } | if r.chance(1, 3) { morx_coverage::LOGICAL } else { 0 };
        let spec = morx_font(ng, chain1(MorxKind::NonContextual(l.clone()), cov));
        let alphabet: Vec<u16> = (1..ng).collect();
        for _ in 0..4 {
            let text = rand_text(&mut r, &alphabet, 12);
            let dir = *r.pick(&dirs);
            let want: Vec<u32> = text
                .iter()
                .map(|g| lookup_value(&l, LookupRole::Glyph, ng, *g).unwrap_or(*g) as u32)
                .filter(|g| *g != 0xFFFF)
                .collect();
            // clusters: identity minus the deleted ones only when nothing is deleted (deletion merges)
            let nodel = want.len() == text.len();
            let cl: Vec<u32> = (0..text.len() as u32).collect();
            report(&mut t1, &spec, &req_of(&text, dir, r.below(3) as u8), &want, if nodel { Some(&cl) } else { None });
        }
    }

    // (ii) rearrangement: F marks first, L marks last and runs the verb; everything between stays
    let mut t2 = Tally { name: "rearrangement", runs: 0, changed: 0, fails: 0 };
    for k in 0..n {
        let verb = (k % 16) as u16;
        let ng = 12u16;
        let (f, l) = (1u16, 2u16);
        let format = *r.pick(&[0u8, 2, 6, 8]);
        // classes: 4 = F, 5 = L; state 2 = "first seen"
        let table = StateTable {
            n_classes: 6,
            class_lookup: AatLookup::new(format, vec![(f, 4), (l, 5)]),
            states: vec![vec![0, 0, 0, 0, 1, 0], vec![0, 0, 0, 0, 1, 0], vec![3, 3, 3, 3, 3, 2]],
            entries: vec![
                RearrEntry { new_state: 0, flags: 0 },
                RearrEntry { new_state: 2, flags: 0x8000 },
                RearrEntry { new_state: 0, flags: 0x2000 | verb },
                RearrEntry { new_state: 2, flags: 0 },
            ],
        };
        let spec = morx_font(ng, chain1(MorxKind::Rearrangement(table), 0));
        let others: Vec<u16> = (3..ng).collect();
        for _ in 0..4 {
            // prefix (no F) , F, middle (no F, no L), L, suffix (no F)
            let pre = rand_text(&mut r, &others, 3);
            let mid_max = if r.chance(1, 10) { 70 } else { 6 };
            let mid = rand_text(&mut r, &others, mid_max);
            let suf = rand_text(&mut r, &others, 3);
            let mut text = pre.clone();
            text.push(f);
            text.extend(&mid);
            text.push(l);
            text.extend(&suf);
            let range: Vec<u32> = text[pre.len()..pre.len() + mid.len() + 2].iter().map(|g| *g as u32).collect();
            let mut want: Vec<u32> = pre.iter().map(|g| *g as u32).collect();
            if range.len() <= 64 {
                want.extend(apple_verb(verb, &range));
            } else {
                want.extend(&range); // HB_MAX_CONTEXT_LENGTH: longer ranges are left alone
            }
            want.extend(suf.iter().map(|g| *g as u32));
            report(&mut t2, &spec, &req_of(&text, Direction::LeftToRight, r.below(3) as u8), &want, None);
        }
    }

    // (iii) ligature: a b => L, b deleted
    let mut t3 = Tally { name: "ligature", runs: 0, changed: 0, fails: 0 };
    for _ in 0..n {
        let ng = 12u16;
        let (a, b, lig) = (3u16, 5u16, 9u16);
        let format = *r.pick(&[0u8, 2, 6, 8]);
        let neg = r.chance(1, 2);
        // component index = glyph + offset: b -> components[0] = 0 ... a -> components[1] = 1; ligatures[1] = lig
        let (off_b, off_a) = if neg { (-(b as i32), 1 - a as i32) } else { (0, 4) };
        let mut components = vec![0u16; 16];
        if neg {
            components[0] = 0;
            components[1] = 1;
        } else {
            components[b as usize] = 0;
            components[a as usize + 4] = 1;
        }
        let table = StateTable {
            n_classes: 6,
            class_lookup: AatLookup::new(format, vec![(a, 4), (b, 5)]),
            states: vec![vec![0, 0, 0, 0, 1, 0], vec![0, 0, 0, 0, 1, 0], vec![0, 0, 0, 0, 1, 2]],
            entries: vec![
                LigEntry { new_state: 0, flags: 0, lig_action_index: 0 },
                LigEntry { new_state: 2, flags: 0x8000, lig_action_index: 0 },
                LigEntry { new_state: 0, flags: 0x8000 | 0x2000, lig_action_index: 1 },
            ],
        };
        let kind = MorxKind::Ligature {
            table,
            lig_actions: vec![0, lig_action(off_b, false, false), lig_action(off_a, true, true)],
            components,
            ligatures: vec![7, lig, 8],
        };
        let spec = morx_font(ng, chain1(kind, 0));
        for _ in 0..4 {
            // one text in three piles components up: runs of 60..150 a's (every a pushes, nothing pops) so that
            // match_length crosses LIGATURE_MAX_MATCHES (64), 128, ... before a b completes the pair
            let text = if r.chance(1, 3) {
                let mut t: Vec<u16> = Vec::new();
                for _ in 0..r.range(1, 3) {
                    for _ in 0..r.range(60, 150) {
                        t.push(a);
                    }
                    if r.chance(1, 3) {
                        t.push(4);
                        for _ in 0..r.range(1, 10) {
                            t.push(a);
                        }
                    }
                    t.push(b);
                    if r.chance(1, 2) {
                        t.push(*r.pick(&[a, b, 4]));
                    }
                }
                t.truncate(300);
                t
            } else {
                rand_text(&mut r, &[a, b, 4, a, b], 10)
            };
            let level = r.below(3) as u8;
            let mut want = Vec::new();
            let mut wantc = Vec::new();
            let mut i = 0;
            while i < text.len() {
                if text[i] == a && i + 1 < text.len() && text[i + 1] == b {
                    want.push(lig as u32);
                    wantc.push(i as u32);
                    i += 2;
                } else {
                    want.push(text[i] as u32);
                    wantc.push(i as u32);
                    i += 1;
                }
            }
            // levels 0/1: the ligature carries the smaller cluster; level 2 keeps the cluster of the
            // glyph it replaced (the first component), which is the same number here
            report(&mut t3, &spec, &req_of(&text, Direction::LeftToRight, level), &want, Some(&wantc));
        }
    }

    // (iv) insertion of k glyphs before / after the current glyph, and at a marked glyph
    let mut t4 = Tally { name: "insertion", runs: 0, changed: 0, fails: 0 };
    for _ in 0..n {
        let ng = 14u16;
        let (m, t) = (2u16, 4u16);
        let k = r.range(1, 4) as u16;
        let before = r.chance(1, 2);
        let marked = r.chance(1, 2);
        let list: Vec<u16> = (0..8).map(|_| 6 + r.below(8) as u16).collect();
        let start = r.below(8 - k as u64 + 1) as u16;
        let ins: Vec<u32> = list[start as usize..(start + k) as usize].iter().map(|g| *g as u32).collect();
        let format = *r.pick(&[0u8, 2, 6, 8]);
        let table = if marked {
            // m sets the mark (state 2); t inserts at the marked glyph and goes back to state 0
            StateTable {
                n_classes: 6,
                class_lookup: AatLookup::new(format, vec![(m, 4), (t, 5)]),
                states: vec![vec![0, 0, 0, 0, 1, 0], vec![0, 0, 0, 0, 1, 0], vec![3, 3, 3, 3, 1, 2]],
                entries: vec![
                    InsEntry { new_state: 0, flags: 0, current_insert_index: 0xFFFF, marked_insert_index: 0xFFFF },
                    InsEntry { new_state: 2, flags: 0x8000, current_insert_index: 0xFFFF, marked_insert_index: 0xFFFF },
                    InsEntry { new_state: 0, flags: if before { 0x0400 } else { 0 } | k, current_insert_index: 0xFFFF, marked_insert_index: start },
                    InsEntry { new_state: 2, flags: 0, current_insert_index: 0xFFFF, marked_insert_index: 0xFFFF },
                ],
            }
        } else {
            StateTable {
                n_classes: 6,
                class_lookup: AatLookup::new(format, vec![(m, 4), (t, 5)]),
                states: vec![vec![0, 0, 0, 0, 0, 1], vec![0, 0, 0, 0, 0, 1]],
                entries: vec![
                    InsEntry { new_state: 0, flags: 0, current_insert_index: 0xFFFF, marked_insert_index: 0xFFFF },
                    InsEntry { new_state: 0, flags: if before { 0x0800 } else { 0 } | (k << 5), current_insert_index: start, marked_insert_index: 0xFFFF },
                ],
            }
        };
        let spec = morx_font(ng, chain1(MorxKind::Insertion { table, glyphs: list.clone() }, 0));
        for _ in 0..4 {
            let text = rand_text(&mut r, &[m, t, 3, 5, t], 9);
            let mut want: Vec<u32> = Vec::new();
            let mut wantc: Vec<u32> = Vec::new();
            if marked {
                // simulate by pattern: the nearest m before a t (no t in between) receives the insertion
                let mut slots: Vec<(Vec<u32>, u32, Vec<u32>)> = text.iter().map(|g| (vec![], *g as u32, vec![])).collect();
                let mut mark: Option<usize> = None;
                for (i, g) in text.iter().enumerate() {
                    if *g == m {
                        mark = Some(i);
                    } else if *g == t {
                        if let Some(mi) = mark.take() {
                            // inserted glyphs at the marked glyph; a second insertion cannot happen (state 0)
                            if before {
                                slots[mi].0 = ins.clone();
                            } else {
                                slots[mi].2 = ins.clone();
                            }
                        }
                    }
                }
                for (i, (b, g, a)) in slots.iter().enumerate() {
                    for x in b {
                        want.push(*x);
                        wantc.push(i as u32);
                    }
                    want.push(*g);
                    wantc.push(i as u32);
                    for x in a {
                        want.push(*x);
                        wantc.push(i as u32);
                    }
                }
                // clusters of a marked insertion get merged over mark..current by the flag logic only at
                // level 0/1 through unsafe_to_break (flags), not the cluster values: compare ids and, for
                // glyphs inserted at the mark, the cluster of the marked glyph
            } else {
                for (i, g) in text.iter().enumerate() {
                    if *g == t && before {
                        for x in &ins {
                            want.push(*x);
                            wantc.push(i as u32);
                        }
                    }
                    want.push(*g as u32);
                    wantc.push(i as u32);
                    if *g == t && !before {
                        for x in &ins {
                            want.push(*x);
                            wantc.push(i as u32);
                        }
                    }
                }
            }
            report(&mut t4, &spec, &req_of(&text, Direction::LeftToRight, r.below(3) as u8), &want, Some(&wantc));
        }
    }

    // (v) a RANGED user feature on a font with `feat`: the feature's subtable acts on exactly the glyphs
    // whose cluster lies in [start, end) (hb_aat_map range flags), for a non-contextual subtable and for a
    // one-state contextual subtable that substitutes the current glyph
    let mut t5 = Tally { name: "ranged-noncontextual", runs: 0, changed: 0, fails: 0 };
    let mut t6 = Tally { name: "ranged-contextual", runs: 0, changed: 0, fails: 0 };
    for k in 0..n {
        let ng = 24u16;
        let lookup = AatLookup::new(*r.pick(&[0u8, 2, 6, 8]), (1..=8u16).map(|g| (g, g + 10)).collect());
        let ctx = k % 2 == 1;
        let kind = if ctx {
            MorxKind::Contextual {
                table: StateTable {
                    n_classes: 5,
                    class_lookup: AatLookup::new(2, (1..=8u16).map(|g| (g, 4)).collect()),
                    states: vec![vec![0, 0, 0, 0, 1], vec![0, 0, 0, 0, 1]],
                    entries: vec![
                        CtxEntry { new_state: 0, flags: 0, mark_index: 0xFFFF, current_index: 0xFFFF },
                        CtxEntry { new_state: 0, flags: 0, mark_index: 0xFFFF, current_index: 0 },
                    ],
                },
                substitutions: vec![lookup],
            }
        } else {
            MorxKind::NonContextual(lookup)
        };
        // optionally a preceding always-on in-place subtable that does nothing (leaves buffer.idx at the end)
        let noop = MorxSubtable {
            coverage: 0,
            sub_feature_flags: 4,
            kind: MorxKind::Rearrangement(StateTable {
                n_classes: 5,
                class_lookup: AatLookup::new(6, vec![(1, 4)]),
                states: vec![vec![0, 0, 0, 0, 0], vec![0, 0, 0, 0, 0]],
                entries: vec![RearrEntry { new_state: 0, flags: 0 }],
            }),
        };
        let with_noop = r.chance(1, 2);
        let mut subtables = vec![];
        if with_noop {
            subtables.push(noop);
        }
        subtables.push(MorxSubtable { coverage: 0, sub_feature_flags: 1, kind });
        let mut spec = morx_font(
            ng,
            vec![MorxChain {
                default_flags: 4,
                features: vec![MorxFeature { feature_type: 37, feature_setting: 1, enable_flags: 1, disable_flags: 0xFFFF_FFFF }],
                subtables,
            }],
        );
        spec.feat = Some(Feat { names: vec![FeatName { feature: 37, settings: vec![0, 1], exclusive: true, default_index: None }] });
        let alphabet: Vec<u16> = (1..=8).collect();
        for _ in 0..4 {
            let mut text = rand_text(&mut r, &alphabet, 9);
            if text.is_empty() {
                text.push(1);
            }
            let a = r.below(text.len() as u64 + 1) as u32;
            let b = a + r.below(text.len() as u64 + 2 - a as u64) as u32;
            let mut req = req_of(&text, Direction::LeftToRight, r.below(3) as u8);
            req.features = vec![format!("smcp[{}:{}]", a, b)];
            let want: Vec<u32> = text.iter().enumerate().map(|(i, g)| if (i as u32) >= a && (i as u32) < b { *g as u32 + 10 } else { *g as u32 }).collect();
            let cl: Vec<u32> = (0..text.len() as u32).collect();
            report(if ctx { &mut t6 } else { &mut t5 }, &spec, &req, &want, Some(&cl));
        }
    }

    // (vi) chain flag compilation: default flags d, four entries in table order with random 3-bit
    // enable/disable masks — ligatures on (1,2), ligatures off (1,3), lower-case small caps (37,1), the
    // deprecated letter-case small caps (3,3) — three subtables gated by flags 1, 2, 4; feat exposes a
    // random subset of {1, 37, 3}; the request switches liga and/or smcp on or off (global, no duplicates)
    let mut t7 = Tally { name: "chain-flags", runs: 0, changed: 0, fails: 0 };
    for _ in 0..n {
        let ng = 24u16;
        let d = r.below(8) as u32;
        let keys: [(u16, u16); 4] = [(1, 2), (1, 3), (37, 1), (3, 3)];
        let mut order: Vec<usize> = vec![0, 1, 2, 3];
        for i in (1..4).rev() {
            order.swap(i, r.below(i as u64 + 1) as usize);
        }
        let entries: Vec<MorxFeature> = order
            .iter()
            .map(|k| MorxFeature { feature_type: keys[*k].0, feature_setting: keys[*k].1, enable_flags: r.below(8) as u32, disable_flags: !(r.below(8) as u32) })
            .collect();
        let map = |a: u16| MorxKind::NonContextual(AatLookup::new(6, vec![(a, a + 10)]));
        let subtables = vec![
            MorxSubtable { coverage: 0, sub_feature_flags: 1, kind: map(1) },
            MorxSubtable { coverage: 0, sub_feature_flags: 2, kind: map(2) },
            MorxSubtable { coverage: 0, sub_feature_flags: 4, kind: map(3) },
        ];
        let mut spec = morx_font(ng, vec![MorxChain { default_flags: d, features: entries.clone(), subtables }]);
        let (f1, f37, f3) = (r.chance(2, 3), r.chance(1, 2), r.chance(1, 2));
        let mut names = Vec::new();
        if f1 {
            names.push(FeatName { feature: 1, settings: vec![2, 3], exclusive: false, default_index: None });
        }
        if f3 {
            names.push(FeatName { feature: 3, settings: vec![0, 3], exclusive: true, default_index: None });
        }
        if f37 {
            names.push(FeatName { feature: 37, settings: vec![0, 1], exclusive: true, default_index: None });
        }
        let has_feat = r.chance(7, 8);
        if has_feat {
            spec.feat = Some(Feat { names });
        }
        for _ in 0..4 {
            let liga: Option<bool> = match r.below(3) { 0 => None, 1 => Some(true), _ => Some(false) };
            let smcp: Option<bool> = match r.below(3) { 0 => None, 1 => Some(true), _ => Some(false) };
            let mut feats = Vec::new();
            if let Some(v) = smcp {
                feats.push(if v { "smcp".to_string() } else { "smcp=0".to_string() });
            }
            if let Some(v) = liga {
                feats.push(if v { "liga".to_string() } else { "-liga".to_string() });
            }
            // the active (type, setting) pairs, by the rules of add_feature
            let mut active: Vec<(u16, u16)> = Vec::new();
            if has_feat {
                if let (Some(v), true) = (liga, f1) {
                    active.push((1, if v { 2 } else { 3 }));
                }
                if let (Some(v), true) = (smcp, f37 || f3) {
                    active.push((37, if v { 1 } else { 0 }));
                }
            }
            let mut flags = d;
            for e in &entries {
                let key = (e.feature_type, e.feature_setting);
                if active.contains(&key) || (key == (3, 3) && active.contains(&(37, 1))) {
                    flags = (flags & e.disable_flags) | e.enable_flags;
                }
            }
            let want: Vec<u32> = (1..=3u32).map(|g| if flags & (1 << (g - 1)) != 0 { g + 10 } else { g }).collect();
            let mut req = req_of(&[1, 2, 3], Direction::LeftToRight, 0);
            req.features = feats;
            report(&mut t7, &spec, &req, &want, None);
        }
    }

    for t in [&t1, &t2, &t3, &t4, &t5, &t6, &t7] {
        println!("oracle-summary {} runs={} changed={} fails={}", t.name, t.runs, t.changed, t.fails);
    }
}

// ---------------------------------------------------------------------------------------------
// corpus

fn morx_corpus() -> Vec<String> {
    corpus_fonts(&repo_root())
        .into_iter()
        .filter(|p| {
            std::fs::read(p)
                .ok()
                .map(|d| catch(move || rustybuzz::Face::from_slice(&d, 0).map(|f| f.tables().morx.is_some()).unwrap_or(false)).unwrap_or(false))
                .unwrap_or(false)
        })
        .collect()
}

fn corpus(args: &[String]) {
    let seed = arg_u64(args, "--seed", 1);
    let per = arg_u64(args, "--per-font", 50);
    let fonts = morx_corpus();
    let mut r = Rng::new(seed ^ 0x17C0);
    let mut shapes = 0u64;
    let mut changed = 0u64;
    let mut bad = 0u64;
    for path in &fonts {
        let Ok(data) = std::fs::read(path) else { continue };
        let Some(face) = rustybuzz::Face::from_slice(&data, 0) else { continue };
        let mut chars = cmap_chars(&face, 200);
        chars.retain(|c| *c != 0);
        let ascii: Vec<u32> = (0x20u32..0x7F).collect();
        for _ in 0..per {
            let n = r.below(9) as usize + r.below(2) as usize * r.below(40) as usize;
            let pool = if chars.is_empty() || r.chance(1, 3) { &ascii } else { &chars };
            let text: Vec<(u32, u32)> = (0..n).map(|i| (*r.pick(pool), i as u32)).collect();
            let dir = match r.below(6) {
                0 => Some(Direction::RightToLeft),
                1 => Some(Direction::TopToBottom),
                2 => None,
                _ => Some(Direction::LeftToRight),
            };
            let req = Req { text, dir, level: r.below(3) as u8, ..Req::default() };
            shapes += 1;
            match shape_bytes(&data, &req) {
                Ok(out) => {
                    let plain: Vec<u32> = req.text.iter().map(|(c, _)| char::from_u32(*c).and_then(|ch| face.glyph_index(ch)).map(|g| g.0 as u32).unwrap_or(0)).collect();
                    let mut got: Vec<u32> = out.iter().map(|g| g.gid).collect();
                    if dir == Some(Direction::RightToLeft) {
                        got.reverse();
                    }
                    if got != plain {
                        changed += 1;
                    }
                    if let Some(why) = generic_violation(&req, &out) {
                        bad += 1;
                        println!("corpus-fail {} :: {} :: {}", path, fmt_req(&req), why);
                    }
                }
                Err(c) => {
                    bad += 1;
                    println!("corpus-fail {} :: {} :: panic:{}", path, fmt_req(&req), c);
                }
            }
        }
    }
    println!("corpus-summary fonts={} shapes={} changed={} failures={}", fonts.len(), shapes, changed, bad);
}

/// stdin: `<font path>\t<request>` per line; prints `case-ok` / `case-fail` per line
fn cases() {
    let mut s = String::new();
    std::io::stdin().read_to_string(&mut s).ok();
    for line in s.lines() {
        let Some((path, reqs)) = line.split_once('\t') else { continue };
        let full = if path.starts_with('/') { path.to_string() } else { format!("{}/{}", repo_root(), path) };
        let Ok(data) = std::fs::read(&full) else {
            println!("case-fail {} :: {} :: unreadable", path, reqs);
            continue;
        };
        let req = parse_req(reqs);
        match shape_bytes(&data, &req) {
            Ok(out) => match generic_violation(&req, &out) {
                None => println!("case-ok {} :: {} :: {}", path, reqs, fmt_out(&out)),
                Some(why) => println!("case-fail {} :: {} :: {}", path, reqs, why),
            },
            Err(c) => println!("case-fail {} :: {} :: panic:{}", path, reqs, c),
        }
    }
}
