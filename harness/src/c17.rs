//! C17: harness commands for property C17 (stub).

pub fn run(_args: &[String]) {
    eprintln!("c17: not implemented");
    std::process::exit(2);
}
