//! C18: script / language tag selection. Runs the real `tags_from_script_and_language`, `lang_cmp`,
//! `tags_from_complex_language`, `select_script` / `select_script_language` / required feature through
//! the guarded hook `rustybuzz::verif::tag`. Inputs come from stdin (written by props/C18.py so that the
//! model and the implementation see the same cases); strings are hex encoded.
//!
//!   rbv c18 registry            -> `reg <lang> <tag>` per compiled registry row
//!   rbv c18 tags     < lines `<script|-> <h<hex>|->`          -> `<i> ok <s,..>|<l,..>` / `<i> panic <Class>`
//!   rbv c18 langcmp  < lines `<hex> <hex>`                     -> `<i> ok <-1|0|1>` / panic
//!   rbv c18 complex  < lines `<hex>`                           -> `<i> ok none` / `<i> ok <t,..>` / panic
//!   rbv c18 scripttag < lines `<hex>`                          -> `<i> ok <tag>`
//!   rbv c18 select   < lines `<fonthex> <0 GSUB|1 GPOS> <s,..|-> <l,..|-> <f,..|->`
//!        -> `<i> ok none` / `<i> ok <found> <sidx> <stag> <lidx|-> <ridx:rtag|-> <fidx|-,..>` / panic / `<i> unparsed`
//!   rbv c18 shape    < lines `<fonthex> <script|-> <h<hex>|-> <texthex> <usertag,..|->` -> `<i> ok <gid:adv,..>` (public API only)
use crate::util::*;
use rustybuzz::verif::tag as hook;
use std::io::BufRead;

fn unhex(s: &str) -> Vec<u8> {
    let b = s.as_bytes();
    let mut v = Vec::with_capacity(b.len() / 2);
    let mut i = 0;
    while i + 1 < b.len() {
        let h = (b[i] as char).to_digit(16).unwrap_or(0) as u8;
        let l = (b[i + 1] as char).to_digit(16).unwrap_or(0) as u8;
        v.push(h * 16 + l);
        i += 2;
    }
    v
}

fn unhex_str(s: &str) -> Option<String> {
    String::from_utf8(unhex(s)).ok()
}

fn join(v: &[u32]) -> String {
    v.iter().map(|t| t.to_string()).collect::<Vec<_>>().join(",")
}

fn nums(s: &str) -> Vec<u32> {
    if s == "-" {
        return Vec::new();
    }
    s.split(',').filter(|x| !x.is_empty()).filter_map(|x| x.parse().ok()).collect()
}

fn opt_field(s: &str) -> Option<Option<String>> {
    // "-" => None ; "h<hex>" => Some(string) ; invalid utf-8 => outer None
    if s == "-" {
        Some(None)
    } else {
        unhex_str(&s[1..]).map(Some)
    }
}

fn lines() -> Vec<String> {
    std::io::stdin().lock().lines().map(|l| l.unwrap_or_default()).collect()
}

pub fn run(args: &[String]) {
    quiet_panics();
    let sub = args.first().map(|s| s.as_str()).unwrap_or("");
    match sub {
        "unlisted-probe" => unlisted_probe(),
        "registry" => {
            for (l, t) in hook::registry() {
                println!("reg {} {}", l, t);
            }
        }
        "tags" => {
            for (i, line) in lines().iter().enumerate() {
                let p: Vec<&str> = line.split(' ').collect();
                if p.len() != 2 {
                    println!("{} bad-line", i);
                    continue;
                }
                let script = if p[0] == "-" { None } else { Some(p[0].to_string()) };
                let lang = match opt_field(p[1]) {
                    Some(l) => l,
                    None => {
                        println!("{} not-utf8", i);
                        continue;
                    }
                };
                let r = catch(move || hook::tags(script.as_deref(), lang.as_deref()));
                match r {
                    Ok((s, l)) => println!("{} ok {}|{}", i, join(&s), join(&l)),
                    Err(c) => println!("{} panic {}", i, c),
                }
            }
        }
        "langcmp" => {
            for (i, line) in lines().iter().enumerate() {
                let p: Vec<&str> = line.split(' ').collect();
                if p.len() != 2 {
                    println!("{} bad-line", i);
                    continue;
                }
                let (a, b) = match (unhex_str(p[0]), unhex_str(p[1])) {
                    (Some(a), Some(b)) => (a, b),
                    _ => {
                        println!("{} not-utf8", i);
                        continue;
                    }
                };
                match catch(move || hook::lang_cmp(&a, &b)) {
                    Ok(c) => println!("{} ok {}", i, c),
                    Err(c) => println!("{} panic {}", i, c),
                }
            }
        }
        "complex" => {
            for (i, line) in lines().iter().enumerate() {
                let a = match unhex_str(line.trim()) {
                    Some(a) => a,
                    None => {
                        println!("{} not-utf8", i);
                        continue;
                    }
                };
                match catch(move || hook::complex(&a)) {
                    Ok(None) => println!("{} ok none", i),
                    Ok(Some(t)) => println!("{} ok {}", i, join(&t)),
                    Err(c) => println!("{} panic {}", i, c),
                }
            }
        }
        "scripttag" => {
            for (i, line) in lines().iter().enumerate() {
                let a = match unhex_str(line.trim()) {
                    Some(a) => a,
                    None => {
                        println!("{} not-utf8", i);
                        continue;
                    }
                };
                match catch(move || hook::script_tag(&a)) {
                    Ok(t) => println!("{} ok {}", i, t),
                    Err(c) => println!("{} panic {}", i, c),
                }
            }
        }
        "select" => {
            for (i, line) in lines().iter().enumerate() {
                let p: Vec<&str> = line.split(' ').collect();
                if p.len() != 5 {
                    println!("{} bad-line", i);
                    continue;
                }
                let data = unhex(p[0]);
                let which: u32 = p[1].parse().unwrap_or(0);
                let st = nums(p[2]);
                let lt = nums(p[3]);
                let ft = nums(p[4]);
                let r = catch(move || {
                    let face = match rustybuzz::Face::from_slice(&data, 0) {
                        Some(f) => f,
                        None => return None,
                    };
                    let table = match if which == 0 { face.tables().gsub } else { face.tables().gpos } {
                        Some(t) => t,
                        None => return None,
                    };
                    Some(match hook::select(&table, &st, &lt) {
                        None => "none".to_string(),
                        Some((found, sidx, stag, lidx, req)) => {
                            let fs: Vec<String> = ft
                                .iter()
                                .map(|f| match hook::find_feature(&table, sidx, lidx, *f) {
                                    Some(x) => x.to_string(),
                                    None => "-".to_string(),
                                })
                                .collect();
                            format!(
                                "{} {} {} {} {} {}",
                                found as u8,
                                sidx,
                                stag,
                                lidx.map(|x| x.to_string()).unwrap_or("-".into()),
                                req.map(|(a, b)| format!("{}:{}", a, b)).unwrap_or("-".into()),
                                if fs.is_empty() { "-".to_string() } else { fs.join(",") }
                            )
                        }
                    })
                });
                match r {
                    Ok(Some(s)) => println!("{} ok {}", i, s),
                    Ok(None) => println!("{} unparsed", i),
                    Err(c) => println!("{} panic {}", i, c),
                }
            }
        }
        "shape" => {
            // public API only: font bytes, script, language, text, user features -> gid:advance per glyph
            for (i, line) in lines().iter().enumerate() {
                let p: Vec<&str> = line.split(' ').collect();
                if p.len() != 5 {
                    println!("{} bad-line", i);
                    continue;
                }
                let data = unhex(p[0]);
                let script = if p[1] == "-" { None } else { Some(p[1].to_string()) };
                let lang = match opt_field(p[2]) {
                    Some(l) => l,
                    None => {
                        println!("{} not-utf8", i);
                        continue;
                    }
                };
                let text = match unhex_str(p[3]) {
                    Some(t) => t,
                    None => {
                        println!("{} not-utf8", i);
                        continue;
                    }
                };
                let feats = nums(p[4]);
                let r = catch(move || {
                    use std::str::FromStr;
                    let face = match rustybuzz::Face::from_slice(&data, 0) {
                        Some(f) => f,
                        None => return None,
                    };
                    let mut buf = rustybuzz::UnicodeBuffer::new();
                    buf.push_str(&text);
                    buf.set_direction(rustybuzz::Direction::LeftToRight);
                    if let Some(s) = script {
                        if let Ok(s) = rustybuzz::Script::from_str(&s) {
                            buf.set_script(s);
                        }
                    }
                    if let Some(l) = lang {
                        if let Ok(l) = rustybuzz::Language::from_str(&l) {
                            buf.set_language(l);
                        }
                    }
                    let features: Vec<rustybuzz::Feature> = feats
                        .iter()
                        .map(|t| rustybuzz::Feature::new(rustybuzz::ttf_parser::Tag(*t), 1, ..))
                        .collect();
                    let out = rustybuzz::shape(&face, &features, buf);
                    Some(
                        out.glyph_infos()
                            .iter()
                            .zip(out.glyph_positions().iter())
                            .map(|(g, p)| format!("{}:{}", g.glyph_id, p.x_advance))
                            .collect::<Vec<String>>()
                            .join(","),
                    )
                });
                match r {
                    Ok(Some(g)) => println!("{} ok {}", i, g),
                    Ok(None) => println!("{} unparsed", i),
                    Err(c) => println!("{} panic {}", i, c),
                }
            }
        }
        _ => {
            eprintln!("c18: unknown sub-command {:?}", sub);
            std::process::exit(2);
        }
    }
}

/// Metamorphic probe: a feature record that the SELECTED language system does not list has no effect - not even through a
/// shaper that asks "does the font have feature X" to decide about its stages (the Arabic shaper pauses after `calt`
/// unless `rclt` is there).  Fonts in pairs that differ only in such an unlisted record; the two must shape alike.
/// lookup 0 (liga) and lookup 1 (calt) both rewrite BEH, so the order of the stages shows in the output.
fn unlisted_probe() {
    use crate::fontgen::*;
    let beh = 0x0628u32;
    let mk = |variant: u32, with_unlisted: bool| -> Vec<u8> {
        let mut spec = FontSpec::basic(8);
        spec.cmap = vec![(0x61, 5), (beh, 1)];
        let l0 = Lookup::one(SubstSubtable::Single2 { coverage: Coverage::Glyphs(vec![1]), substitutes: vec![2] });
        let l1 = Lookup::one(SubstSubtable::Single2 { coverage: Coverage::Glyphs(vec![1]), substitutes: vec![3] });
        let l2 = Lookup::one(SubstSubtable::Single2 { coverage: Coverage::Glyphs(vec![7]), substitutes: vec![6] });
        // feature records sorted by tag: calt(0) liga(1) rclt(2)
        // the font of the pair "without" has no rclt record at all; the font "with" has one that the selected language
        // system does not list
        let mut feats = vec![(*b"calt", vec![1u16]), (*b"liga", vec![0])];
        if with_unlisted {
            feats.push((*b"rclt", vec![2]));
        }
        let mut layout = Layout::with_features(feats, vec![l0, l1, l2]);
        let ls = |v: &[u16]| LangSys { required_feature: None, feature_indices: v.to_vec() };
        layout.scripts = match variant {
            // rclt listed under another script only
            0 => vec![ScriptRecord { tag: *b"arab", default_langsys: Some(ls(&[0, 1])), langsys: vec![] }, ScriptRecord { tag: *b"latn", default_langsys: Some(ls(if with_unlisted { &[2] } else { &[] })), langsys: vec![] }],
            // rclt listed in the default language system, not in the selected one (URD)
            _ => vec![ScriptRecord { tag: *b"arab", default_langsys: Some(ls(if with_unlisted { &[0, 1, 2] } else { &[0, 1] })), langsys: vec![(*b"URD ", ls(&[0, 1]))] }],
        };
        spec.gsub = Some(layout);
        build(&spec)
    };
    let mut bad = 0;
    let mut n = 0;
    for (variant, langs) in [(0u32, vec![None, Some("fa")]), (1, vec![Some("ur"), Some("UR-pk"), Some("x-hbotURD")])] {
        for lang in langs {
            let shape = |data: &[u8]| -> Result<Vec<u32>, String> {
                let d = data.to_vec();
                let l = lang.map(|x| x.to_string());
                catch(move || {
                    let face = rustybuzz::Face::from_slice(&d, 0).unwrap();
                    let mut b = rustybuzz::UnicodeBuffer::new();
                    b.push_str("\u{0628}");
                    b.set_script(rustybuzz::script::ARABIC);
                    b.set_direction(rustybuzz::Direction::RightToLeft);
                    if let Some(l) = &l {
                        if let Ok(x) = std::str::FromStr::from_str(l) {
                            b.set_language(x);
                        }
                    }
                    rustybuzz::shape(&face, &[], b).glyph_infos().iter().map(|i| i.glyph_id).collect()
                })
            };
            let (a, b) = (shape(&mk(variant, true)), shape(&mk(variant, false)));
            n += 1;
            if a != b {
                bad += 1;
                println!("unlisted-probe differ variant={} lang={:?} with_unlisted_rclt={:?} without={:?}", variant, lang, a, b);
            }
        }
    }
    // the script record through which the language system was found does not decide whether Arabic text is joined: a font
    // that registers init / fina under DFLT only shapes Arabic text like its twin that registers them under arab
    let forms = |script_tag: [u8; 4]| -> Vec<u8> {
        let mut spec = FontSpec::basic(6);
        spec.cmap = vec![(beh, 1)];
        let fina = Lookup::one(SubstSubtable::Single2 { coverage: Coverage::Glyphs(vec![1]), substitutes: vec![3] });
        let init = Lookup::one(SubstSubtable::Single2 { coverage: Coverage::Glyphs(vec![1]), substitutes: vec![2] });
        let mut layout = Layout::with_features(vec![(*b"fina", vec![0]), (*b"init", vec![1])], vec![fina, init]);
        layout.scripts = vec![ScriptRecord { tag: script_tag, default_langsys: Some(LangSys { required_feature: None, feature_indices: vec![0, 1] }), langsys: vec![] }];
        spec.gsub = Some(layout);
        build(&spec)
    };
    for (set_script, lang) in [(false, None), (true, None), (true, Some("fa")), (true, Some("ar"))] {
        let shape = |data: Vec<u8>| -> Result<Vec<u32>, String> {
            let l = lang.map(|x: &str| x.to_string());
            catch(move || {
                let face = rustybuzz::Face::from_slice(&data, 0).unwrap();
                let mut b = rustybuzz::UnicodeBuffer::new();
                b.push_str("\u{0628}\u{0628}");
                if set_script {
                    b.set_script(rustybuzz::script::ARABIC);
                    b.set_direction(rustybuzz::Direction::RightToLeft);
                }
                if let Some(l) = &l {
                    if let Ok(x) = std::str::FromStr::from_str(l) {
                        b.set_language(x);
                    }
                }
                rustybuzz::shape(&face, &[], b).glyph_infos().iter().map(|i| i.glyph_id).collect()
            })
        };
        let (a, b) = (shape(forms(*b"DFLT")), shape(forms(*b"arab")));
        n += 1;
        if a != b || a.as_ref().map(|v| v.iter().all(|g| *g == 1)).unwrap_or(true) {
            bad += 1;
            println!("unlisted-probe differ variant=dflt-vs-arab lang={:?} set_script={} under_DFLT={:?} under_arab={:?}", lang, set_script, a, b);
        }
    }
    println!("unlisted-probe cases={} bad={}", n, bad);
}
