//! C18: harness commands for property C18 (stub).

pub fn run(_args: &[String]) {
    eprintln!("c18: not implemented");
    std::process::exit(2);
}
