//! `rbv shape --font PATH [--index N] --req "<request>"` : shape one request through the public API
//! and print the result (used by replays).
use crate::shp::*;
use crate::util::*;

pub fn run(args: &[String]) {
    quiet_panics();
    let font = arg_str(args, "--font").expect("--font");
    let index = arg_u64(args, "--index", 0) as u32;
    let reqs = arg_str(args, "--req").unwrap_or("");
    let data = std::fs::read(font).expect("read font");
    let req = parse_req(reqs);
    let res = catch(move || {
        let face = rustybuzz::Face::from_slice(&data, index);
        match face {
            None => "noface".to_string(),
            Some(face) => fmt_g(&shape_req(&face, &req)),
        }
    });
    match res {
        Ok(s) => println!("ok {}", s),
        Err(c) => println!("panic {}", c),
    }
}
