//! e2e: implementation-level searches through the PUBLIC API on corpus fonts (and a few generated
//! ones).  One sub-command per property predicate:
//!   rbv e2e c01|c02|c03|c04|c05|c15 --seed S --n N [--trace FILE]
//! Output: `fail <prop> <kind> font=<path> req=[<request>] <detail>` lines and
//! `summary <prop> evaluations=<n> nontrivial=<m> <extra key=value ...>`.
use crate::shp::*;
use crate::util::*;
use rustybuzz::{Direction, Face, UnicodeBuffer};
use std::io::Write;

pub struct FontInfo {
    pub path: String,
    pub data: Vec<u8>,
    pub chars: Vec<u32>,
    pub has_layout: bool,
    pub has_morx: bool,
    pub has_kern: bool,
    /// indices into SCRIPT_ALPHABETS of the scripts the font maps (first code point of the first range)
    pub scripts: Vec<usize>,
}

pub fn load_corpus(limit_chars: usize) -> Vec<FontInfo> {
    let mut out = Vec::new();
    for path in corpus_fonts(&repo_root()) {
        let Ok(data) = std::fs::read(&path) else { continue };
        let d2 = data.clone();
        let info = catch(move || {
            Face::from_slice(&d2, 0).map(|f| {
                let t = f.tables();
                let scripts: Vec<usize> = (0..SCRIPT_ALPHABETS.len())
                    .filter(|k| char::from_u32(SCRIPT_ALPHABETS[*k][0].0).and_then(|c| f.glyph_index(c)).is_some())
                    .collect();
                (cmap_chars(&f, limit_chars), t.gsub.is_some() || t.gpos.is_some(), t.morx.is_some(), t.kern.is_some() || t.kerx.is_some(), scripts)
            })
        });
        if let Ok(Some((chars, has_layout, has_morx, has_kern, scripts))) = info {
            if !chars.is_empty() {
                out.push(FontInfo { path, data, chars, has_layout, has_morx, has_kern, scripts });
            }
        }
    }
    out
}

pub const DIRS: [Direction; 4] = [Direction::LeftToRight, Direction::RightToLeft, Direction::TopToBottom, Direction::BottomToTop];

/// Random text over the font's characters: runs of neighbouring code points (same script).
pub fn gen_text(r: &mut Rng, chars: &[u32], max_len: usize) -> Vec<u32> {
    let n = match r.below(10) {
        0 => 0,
        1 | 2 => 1,
        3..=7 => r.range(2, 8) as usize,
        _ => r.range(2, max_len as u64) as usize,
    };
    let mut out = Vec::with_capacity(n);
    let mut base = r.below(chars.len() as u64) as usize;
    for _ in 0..n {
        if r.chance(1, 6) {
            base = r.below(chars.len() as u64) as usize;
        }
        let idx = (base + r.below(16) as usize) % chars.len();
        out.push(chars[idx]);
    }
    out
}

/// Non-decreasing cluster numbering: mostly the index, sometimes repeats and gaps.
pub fn gen_clusters(r: &mut Rng, n: usize) -> Vec<u32> {
    let mode = r.below(4);
    let mut c = if mode == 3 { r.below(1000) as u32 } else { 0 };
    let mut out = Vec::with_capacity(n);
    for i in 0..n {
        if i > 0 {
            c += match mode {
                0 => 1,
                1 => 1 + r.below(3) as u32,          // gaps (utf-8 style)
                2 => if r.chance(1, 4) { 0 } else { 1 }, // repeats
                _ => r.below(4) as u32,
            };
        }
        out.push(c);
    }
    out
}

pub fn gen_features(r: &mut Rng) -> Vec<String> {
    match r.below(8) {
        0 => vec!["kern=0".into()],
        1 => vec!["liga=0".into()],
        2 => vec!["-kern".into(), "-liga".into(), "-calt".into()],
        3 => vec!["smcp".into(), "ss01".into(), "salt=2".into()],
        4 => vec!["aalt=3".into(), "frac".into()],
        _ => vec![],
    }
}

pub fn gen_req(r: &mut Rng, fi: &FontInfo, max_len: usize) -> Req {
    let text = gen_text(r, &fi.chars, max_len);
    let cl = gen_clusters(r, text.len());
    Req {
        text: text.iter().cloned().zip(cl.into_iter()).collect(),
        dir: if r.chance(1, 2) { None } else { Some(*r.pick(&DIRS)) },
        script: None,
        lang: if r.chance(1, 8) { Some((*r.pick(&["en", "tr", "ar", "zh-hant", "sr", "hi", "x-hbot-4c544820", "ur-Arab"])).to_string()) } else { None },
        features: gen_features(r),
        flags: 3 | if r.chance(1, 6) { 0x10 } else { 0 } | if r.chance(1, 8) { 0x8 } else { 0 } | if r.chance(1, 10) { 0x4 } else { 0 },
        level: r.below(3) as u8,
        pre: if r.chance(1, 8) { gen_text(r, &fi.chars, 3) } else { vec![] },
        post: if r.chance(1, 8) { gen_text(r, &fi.chars, 3) } else { vec![] },
        nf_vs: None,
        ptem: None,
    }
}

/// Coarse "combining" test used only to bias generated texts (marks, matras, viramas, jamo V/T, tone marks).
pub fn markish(c: u32) -> bool {
    if (0x900..0xE00).contains(&c) {
        let o = c & 0x7F;
        return o <= 0x03 || (0x3A..=0x4F).contains(&o) || (0x51..=0x57).contains(&o) || (0x62..=0x63).contains(&o);
    }
    matches!(c,
        0x300..=0x36F | 0x483..=0x489 | 0x591..=0x5BD | 0x5BF | 0x5C1..=0x5C2 | 0x5C4..=0x5C5 | 0x5C7 | 0x610..=0x61A
        | 0x64B..=0x65F | 0x670 | 0x6D6..=0x6DC | 0x6DF..=0x6E4 | 0x6E7..=0x6E8 | 0x6EA..=0x6ED | 0x711 | 0x730..=0x74A | 0x8CA..=0x8FF
        | 0xE31 | 0xE34..=0xE3A | 0xE47..=0xE4E | 0xEB1 | 0xEB4..=0xEBC | 0xEC8..=0xECD | 0xF18..=0xF19 | 0xF35 | 0xF37 | 0xF39
        | 0xF71..=0xF84 | 0xF8D..=0xFBC | 0x102B..=0x103E | 0x1056..=0x1059 | 0x105E..=0x1060 | 0x1160..=0x11FF | 0x17B4..=0x17D3
        | 0x180B..=0x180D | 0x1A17..=0x1A1B | 0x1A55..=0x1A7F | 0x1AB0..=0x1AFF | 0x1B00..=0x1B04 | 0x1B34..=0x1B44 | 0x1DC0..=0x1DFF
        | 0x20D0..=0x20FF | 0x302A..=0x302F | 0x3099..=0x309A | 0xA806 | 0xA8E0..=0xA8F1 | 0xFE00..=0xFE0F | 0xFE20..=0xFE2F
        | 0x1F3FB..=0x1F3FF | 0xE0100..=0xE01EF)
}

/// Structured text: bases from one neighbourhood of the font's characters, each followed by up to a few
/// combining characters of the font (same block when there is one), with joiners, tone marks, the dotted
/// circle and variation selectors sprinkled in whether or not the font maps them.
pub fn gen_text_structured(r: &mut Rng, chars: &[u32], max_len: usize) -> Vec<u32> {
    const SPECIAL: [u32; 10] = [0x200C, 0x200D, 0x034F, 0xFE0F, 0x302E, 0x302F, 0x25CC, 0x0640, 0x00AD, 0x2060];
    let marks: Vec<u32> = chars.iter().cloned().filter(|c| markish(*c)).collect();
    let n = r.range(2, max_len.max(3) as u64) as usize;
    let base = r.below(chars.len() as u64) as usize;
    let mut out: Vec<u32> = Vec::with_capacity(n);
    let mut last_base = chars[base];
    while out.len() < n {
        match r.below(16) {
            0..=6 => {
                let c = chars[(base + r.below(24) as usize) % chars.len()];
                if !markish(c) {
                    last_base = c;
                }
                out.push(c);
            }
            7..=11 if !marks.is_empty() => {
                let near: Vec<u32> = marks.iter().cloned().filter(|m| (m >> 7) == (last_base >> 7) || (m >> 8) == (last_base >> 8)).collect();
                let pool = if !near.is_empty() && !r.chance(1, 5) { &near } else { &marks };
                out.push(*r.pick(pool));
            }
            12 | 13 => out.push(*r.pick(&SPECIAL)),
            _ => {
                if let Some(&c) = out.last() {
                    out.push(c);
                } else {
                    out.push(last_base);
                }
            }
        }
    }
    out
}

/// Script alphabets (code point ranges) for texts that are independent of the font's cmap: the shapers'
/// text preprocessing (syllable reordering, tone-mark moves, decomposition, dotted-circle insertion,
/// cluster merging) runs on .notdef glyphs just as well.
pub const SCRIPT_ALPHABETS: [&[(u32, u32)]; 14] = [
    &[(0xAC00, 0xAC40), (0x1100, 0x1112), (0x1161, 0x1175), (0x11A8, 0x11C2), (0x115F, 0x1160), (0x119E, 0x11A7), (0x11C3, 0x11C8), (0xA960, 0xA97C), (0xD7B0, 0xD7C6), (0x302E, 0x302F), (0x302E, 0x302F), (0x302E, 0x302F)], // Hangul
    &[(0x0905, 0x0939), (0x093A, 0x094F), (0x0951, 0x0957), (0x0900, 0x0903), (0x094D, 0x094D), (0x0930, 0x0930)], // Devanagari
    &[(0x0985, 0x09B9), (0x09BC, 0x09CD), (0x09D7, 0x09D7), (0x0981, 0x0983)],                                   // Bengali
    &[(0x0B85, 0x0BB9), (0x0BBE, 0x0BCD), (0x0BD7, 0x0BD7)],                                                     // Tamil
    &[(0x0D05, 0x0D39), (0x0D3E, 0x0D4D), (0x0D57, 0x0D57), (0x0D7A, 0x0D7F)],                                   // Malayalam
    &[(0x0D85, 0x0DC6), (0x0DCA, 0x0DDF)],                                                                       // Sinhala
    &[(0x0E01, 0x0E3A), (0x0E40, 0x0E4E)],                                                                       // Thai
    &[(0x0E81, 0x0EBD), (0x0EC0, 0x0ECD)],                                                                       // Lao
    &[(0x0F40, 0x0F6C), (0x0F71, 0x0F84), (0x0F90, 0x0FBC)],                                                     // Tibetan
    &[(0x1000, 0x1021), (0x102B, 0x103E), (0x1050, 0x1059), (0x1084, 0x1084)],                                   // Myanmar
    &[(0x1780, 0x17A2), (0x17B6, 0x17D3)],                                                                       // Khmer
    &[(0x0621, 0x064A), (0x064B, 0x0655), (0x0670, 0x0671), (0x0640, 0x0640), (0x06CC, 0x06D5), (0x0654, 0x0655), (0x08D3, 0x08D3), (0x06E3, 0x06E3)],                 // Arabic
    &[(0x05D0, 0x05EA), (0x05B0, 0x05BD), (0x05C1, 0x05C2), (0x05F0, 0x05F4)],                                   // Hebrew
    &[(0x1820, 0x1842), (0x180B, 0x180F), (0x1885, 0x18A9)],                                                     // Mongolian
];

pub fn gen_text_script(r: &mut Rng, supported: &[usize], max_len: usize) -> Vec<u32> {
    // mostly a script the font maps (its shaper then sees real glyphs), sometimes any script
    let k = if !supported.is_empty() && !r.chance(1, 4) { *r.pick(supported) } else { r.below(SCRIPT_ALPHABETS.len() as u64) as usize };
    gen_text_alphabet(r, k, max_len)
}

pub fn gen_text_alphabet(r: &mut Rng, k: usize, max_len: usize) -> Vec<u32> {
    const SPECIAL: [u32; 6] = [0x200C, 0x200D, 0x25CC, 0x034F, 0x00A0, 0x0020];
    let alpha = SCRIPT_ALPHABETS[k];
    let n = r.range(2, max_len.max(3) as u64) as usize;
    let mut out = Vec::with_capacity(n);
    while out.len() < n {
        if r.chance(1, 12) {
            out.push(*r.pick(&SPECIAL));
        } else {
            let (lo, hi) = *r.pick(alpha);
            out.push(lo + r.below((hi - lo + 1) as u64) as u32);
        }
    }
    out
}

/// gen_req with a third of the texts structured (gen_text_structured) and a sixth from a script alphabet (gen_text_script).
pub fn gen_req_s(r: &mut Rng, fi: &FontInfo, max_len: usize) -> Req {
    let mut req = gen_req(r, fi, max_len);
    let k = r.below(6);
    if k < 3 {
        let text = if k < 2 { gen_text_structured(r, &fi.chars, max_len) } else { gen_text_script(r, &fi.scripts, max_len) };
        let cl = gen_clusters(r, text.len());
        req.text = text.into_iter().zip(cl.into_iter()).collect();
    }
    req
}

pub fn shape_catch(data: &[u8], req: &Req) -> Result<Vec<G>, String> {
    let d = data.to_vec();
    let rq = req.clone();
    catch(move || {
        let mut f = Face::from_slice(&d, 0).unwrap();
        if let Some(p) = rq.ptem {
            f.set_points_per_em(Some(p as f32));
        }
        shape_req(&f, &rq)
    })
}

/// direction/script the shaper will resolve for this request (public API: guess_segment_properties)
pub fn resolved_props(req: &Req) -> (Direction, Option<rustybuzz::Script>) {
    let mut b = fill(req, UnicodeBuffer::new());
    b.guess_segment_properties();
    (b.direction(), Some(b.script()))
}

pub fn is_backward(d: Direction) -> bool {
    matches!(d, Direction::RightToLeft | Direction::BottomToTop)
}

fn tracer(args: &[String]) -> Option<std::fs::File> {
    arg_str(args, "--trace").and_then(|p| std::fs::File::create(p).ok())
}

fn trace(t: &mut Option<std::fs::File>, s: &str) {
    if let Some(f) = t {
        let _ = writeln!(f, "{}", s);
        let _ = f.flush();
    }
}

pub fn run(args: &[String]) {
    quiet_panics();
    let which = args.get(0).map(|s| s.as_str()).unwrap_or("");
    let seed = arg_u64(args, "--seed", 1);
    let n = arg_u64(args, "--n", 2000);
    let mut tr = tracer(args);
    let fonts = load_corpus(400);
    let mut r = Rng::new(seed);
    match which {
        "c02" => c02(&mut r, &fonts, n, &mut tr),
        "c04" => {
            C04_REDIST.store(arg_u64(args, "--redist", 2) as u8, std::sync::atomic::Ordering::Relaxed);
            c04(&mut r, &fonts, n, &mut tr)
        }
        "c15" => c15(&mut r, &fonts, n, &mut tr),
        "c03" => c03(&mut r, &fonts, n, &mut tr),
        "c03gen" | "c04gen" => {
            C04_REDIST.store(arg_u64(args, "--redist", 2) as u8, std::sync::atomic::Ordering::Relaxed);
            flag_gen_pass(which, seed, n, arg_u64(args, "--only", u64::MAX), &mut tr)
        }
        "c05" => c05(&mut r, &fonts, n, &mut tr),
        "c01" => c01(&mut r, &fonts, n, &mut tr, args),
        "c01gen" => c01gen(&mut tr),
        "flaggen-spec" => {
            let spec = crate::flaggen::gen_font(seed, arg_u64(args, "--k", 0));
            println!("gdef={:?}\nkern={:?}", spec.gdef, spec.kern);
            if let Some(l) = &spec.gsub {
                println!("GSUB features={:?}", l.features);
                for (i, lk) in l.lookups.iter().enumerate() {
                    println!("  lookup {} flags={:#x} {:?}", i, lk.flags, lk.subtables);
                }
            }
            if let Some(l) = &spec.gpos {
                println!("GPOS features={:?}", l.features);
                for (i, lk) in l.lookups.iter().enumerate() {
                    println!("  lookup {} flags={:#x} {:?}", i, lk.flags, lk.subtables);
                }
            }
        }
        "broken-probe" => {
            // rbv e2e broken-probe --req "<request>": does the shaper insert a dotted circle for this text (a BROKEN cluster in
            // the syllable machine's terms)?  Shaped on a generated font without layout tables that maps every character of
            // the text plus U+25CC, with dotted-circle insertion allowed; prints `broken-probe inserted=<n>`
            let mut req = parse_req(arg_str(args, "--req").unwrap_or(""));
            let mut cps: Vec<u32> = req.text.iter().map(|x| x.0).collect();
            cps.push(0x25CC);
            cps.sort();
            cps.dedup();
            let mut spec = crate::fontgen::FontSpec::basic(cps.len() as u16 + 1);
            spec.cmap = cps.iter().enumerate().map(|(i, c)| (*c, i as u16 + 1)).collect();
            let dc = cps.iter().position(|c| *c == 0x25CC).unwrap() as u32 + 1;
            let data = crate::fontgen::build(&spec);
            req.flags &= !0x10;
            req.features = vec![];
            req.pre.clear();
            req.post.clear();
            let before = req.text.iter().filter(|x| x.0 == 0x25CC).count();
            match shape_catch(&data, &req) {
                Ok(o) => println!("broken-probe inserted={}", o.iter().filter(|g| g.gid == dc).count() as i64 - before as i64),
                Err(e) => println!("broken-probe panic {}", e),
            }
        }
        "one" => {
            // replay: rbv e2e one <prop> --font PATH --req "<request>"
            let prop = args.get(1).map(|s| s.as_str()).unwrap_or("");
            let font = arg_str(args, "--font").unwrap_or("");
            let req = parse_req(arg_str(args, "--req").unwrap_or(""));
            let data = std::fs::read(font).unwrap_or_default();
            let fi = FontInfo { path: font.to_string(), data, chars: vec![0x41], has_layout: true, has_morx: false, has_kern: false, scripts: vec![] };
            let mut cnt = Counters::default();
            match prop {
                "c02" => check_c02(&fi, &req, &mut cnt),
                "c04" => {
                    C04_REDIST.store(arg_u64(args, "--redist", 2) as u8, std::sync::atomic::Ordering::Relaxed);
                    check_c04(&fi, &req, &mut cnt)
                }
                "c15" => check_c15(&fi, &req, &mut Rng::new(seed), &mut cnt),
                "c03" => check_c03(&fi, &req, &mut cnt),
                "c01" => check_c01(&fi.path, &fi.data, &req, &mut cnt),
                _ => {}
            }
            println!("summary {} evaluations={} nontrivial={} fails={}", prop, cnt.evals, cnt.nontrivial, cnt.fails);
        }
        _ => {
            eprintln!("e2e c01|c02|c03|c04|c05|c15|one");
            std::process::exit(2)
        }
    }
}

#[derive(Default)]
pub struct Counters {
    pub evals: u64,
    pub nontrivial: u64,
    pub fails: u64,
    pub extra: std::collections::BTreeMap<String, u64>,
}

impl Counters {
    pub fn bump(&mut self, k: &str) {
        *self.extra.entry(k.to_string()).or_insert(0) += 1;
    }
    pub fn fail(&mut self, prop: &str, kind: &str, font: &str, req: &Req, detail: &str) {
        self.fails += 1;
        if self.fails <= 12 || (self.fails <= 20000 && std::env::var("RBV_ALL_FAILS").is_ok()) {
            println!("fail {} {} font={} req=[{}] {}", prop, kind, font, fmt_req(req), detail);
        }
    }
    pub fn summary(&self, prop: &str) {
        let extra: Vec<String> = self.extra.iter().map(|(k, v)| format!("{}={}", k, v)).collect();
        println!("summary {} evaluations={} nontrivial={} fails={} {}", prop, self.evals, self.nontrivial, self.fails, extra.join(" "));
    }
}

// ------------------------------------------------------------------------------------------ C02

pub fn check_c02(fi: &FontInfo, req: &Req, cnt: &mut Counters) {
    let Ok(out) = shape_catch(&fi.data, req) else { return };
    cnt.evals += 1;
    let input: std::collections::BTreeSet<u32> = req.text.iter().map(|x| x.1).collect();
    // value subset (all levels)
    for g in &out {
        if !input.contains(&g.cluster) {
            cnt.fail("C02", "cluster-not-from-input", &fi.path, req, &format!("cluster={} out={}", g.cluster, fmt_g(&out)));
            return;
        }
    }
    if req.level < 2 && !out.is_empty() {
        let min = *input.iter().next().unwrap();
        if !out.iter().any(|g| g.cluster == min) {
            cnt.fail("C02", "min-cluster-lost", &fi.path, req, &format!("min={} out={}", min, fmt_g(&out)));
            return;
        }
        let (dir, _) = resolved_props(req);
        let back = is_backward(dir);
        let mut ok = true;
        for w in out.windows(2) {
            if (!back && w[0].cluster > w[1].cluster) || (back && w[0].cluster < w[1].cluster) {
                ok = false;
            }
        }
        if !ok {
            cnt.fail("C02", "not-monotone", &fi.path, req, &format!("dir={} out={}", dir_name(Some(dir)), fmt_g(&out)));
            return;
        }
        cnt.bump(if back { "backward" } else { "forward" });
    }
    // non-trivial: the glyph count differs from the character count or clusters were merged
    let distinct_out: std::collections::BTreeSet<u32> = out.iter().map(|g| g.cluster).collect();
    if out.len() != req.text.len() || distinct_out.len() != input.len() {
        cnt.nontrivial += 1;
    }
}

/// (consonant, virama / coeng, a vowel sign that is reordered or attached, script) of the syllabic scripts
const SYL: &[(u32, u32, u32, &str)] = &[(0x0915, 0x094D, 0x093F, "Deva"), (0x0995, 0x09CD, 0x09BF, "Beng"), (0x0A95, 0x0ACD, 0x0ABF, "Gujr"), (0x0B15, 0x0B4D, 0x0B3F, "Orya"),
    (0x0B95, 0x0BCD, 0x0BBF, "Taml"), (0x0C15, 0x0C4D, 0x0C3F, "Telu"), (0x0C95, 0x0CCD, 0x0CBF, "Knda"), (0x0D15, 0x0D4D, 0x0D3F, "Mlym"), (0x0D9A, 0x0DCA, 0x0DD2, "Sinh"),
    (0x1780, 0x17D2, 0x17B7, "Khmr"), (0x1000, 0x1039, 0x102D, "Mymr"), (0x1B13, 0x1B44, 0x1B36, "Bali"), (0xA98F, 0xA9C0, 0xA9B6, "Java")];

fn c02(r: &mut Rng, fonts: &[FontInfo], n: u64, tr: &mut Option<std::fs::File>) {
    let mut cnt = Counters::default();
    // dedicated pass: a generated font whose GSUB DELETES glyphs (MultipleSubst with an empty sequence) - the deleted glyph's
    // cluster goes to a neighbour (forward at the start of the buffer, backward elsewhere), so the smallest input cluster
    // survives and the sequence stays monotone, for deletions at the start, in the middle, at the end and in runs
    {
        use crate::fontgen::*;
        let mut spec = FontSpec::basic(8);
        spec.gsub = Some(Layout::single_feature(*b"ccmp", vec![Lookup::one(SubstSubtable::Multiple { coverage: Coverage::Glyphs(vec![1, 2]), sequences: vec![vec![], vec![]] })]));
        let data = build(&spec);
        let chars: Vec<u32> = spec.cmap.iter().map(|x| x.0).collect();
        let fi = FontInfo { path: "generated:deleting".to_string(), data, chars, has_layout: true, has_morx: false, has_kern: false, scripts: vec![] };
        for code in 0..243u32 {
            // all texts of length 5 over {deleted 1, deleted 2, kept 3}
            let gl: Vec<u32> = (0..5).map(|i| (code / 3u32.pow(i)) % 3).collect();
            for (j, dir) in [None, Some(Direction::RightToLeft), Some(Direction::TopToBottom)].iter().enumerate() {
                let cl: Vec<u32> = match (code as usize + j) % 3 { 0 => (0..5).collect(), 1 => (0..5).map(|i| 10 * i + 10).collect(), _ => vec![7, 7, 8, 9, 9] };
                let req = Req { text: gl.iter().zip(cl.iter()).map(|(g, c)| (pua(*g), *c)).collect(), dir: *dir, script: if j == 1 { Some("Latn".to_string()) } else { None }, level: (code % 3) as u8, flags: 3, ..Default::default() };
                trace(tr, &format!("deleting [{}]", fmt_req(&req)));
                check_c02(&fi, &req, &mut cnt);
                cnt.bump("deleting_font_cases");
            }
        }
    }
    // dedicated pass: ONE long syllable per text, (consonant, virama) x k, consonant [, vowel sign]: the syllabic shapers
    // sort the glyphs of a syllable by position class and rely on the sort keeping tied glyphs in logical order, for any
    // number of glyphs (k on both sides of the small-slice thresholds of sorting routines)
    for fi in fonts.iter() {
        for &(c, h, m, sc) in SYL.iter().filter(|x| fi.chars.contains(&x.0) && fi.chars.contains(&x.1)) {
            for (j, k) in [9usize, 10, 15, 16, 17, 20, 24, 31, 32, 33, 40, 64].iter().enumerate() {
                let mut t: Vec<u32> = Vec::new();
                for _ in 0..*k {
                    t.push(c);
                    t.push(h);
                }
                t.push(c);
                if j % 3 != 2 {
                    t.push(m);
                }
                let cl: Vec<u32> = match j % 4 { 0 => (0..t.len() as u32).collect(), 1 => (0..t.len() as u32).map(|i| 3 * i).collect(), 2 => (0..t.len() as u32).map(|i| i / 2).collect(), _ => (0..t.len() as u32).map(|i| 7 + i).collect() };
                let req = Req { text: t.into_iter().zip(cl.into_iter()).collect(), script: Some(sc.to_string()), level: (j % 2) as u8, flags: 3, ..Default::default() };
                trace(tr, &format!("longsyl {} {} [{}]", sc, fi.path, fmt_req(&req)));
                check_c02(fi, &req, &mut cnt);
                cnt.bump("long_syllable_cases");
            }
        }
    }
    // dedicated pass: fonts with legacy kern/kerx x four directions x kerning on/off (reversal pairing)
    for fi in fonts.iter().filter(|f| f.has_kern) {
        for k in 0..48u32 {
            let mut req = gen_req_s(r, fi, 12);
            req.dir = Some(DIRS[(k % 4) as usize]);
            req.features = if k % 8 < 4 { vec!["kern=0".into()] } else { vec![] };
            req.level = (k % 2) as u8;
            trace(tr, &format!("kern {} [{}]", fi.path, fmt_req(&req)));
            check_c02(fi, &req, &mut cnt);
            cnt.bump("kern_font_cases");
        }
    }
    // dedicated pass: every (font, script it maps) pair x directions x levels, texts over the script's
    // alphabet incl. ill-formed sequences (shaper reordering, tone-mark moves, decompositions on real glyphs)
    for fi in fonts.iter() {
        for &k in &fi.scripts {
            for j in 0..12u32 {
                let mut req = gen_req(r, fi, 8);
                let text = gen_text_alphabet(r, k, 10);
                let cl = gen_clusters(r, text.len());
                req.text = text.into_iter().zip(cl.into_iter()).collect();
                req.dir = if j % 3 == 0 { None } else { Some(DIRS[(j % 4) as usize]) };
                req.level = (j % 2) as u8;
                req.pre.clear();
                req.post.clear();
                trace(tr, &format!("script {} {} [{}]", k, fi.path, fmt_req(&req)));
                check_c02(fi, &req, &mut cnt);
                cnt.bump("script_pass_cases");
            }
        }
    }
    for i in 0..n {
        let fi = &fonts[r.below(fonts.len() as u64) as usize];
        let mut req = gen_req_s(r, fi, 24);
        // kerning off in a good share of the cases on fonts with kern tables (reversal pairing)
        if fi.has_kern && r.chance(1, 2) {
            req.features = vec!["kern=0".into()];
        }
        trace(tr, &format!("{} {} [{}]", i, fi.path, fmt_req(&req)));
        check_c02(fi, &req, &mut cnt);
    }
    cnt.summary("C02");
}

// ------------------------------------------------------------------------------------------ C04

pub static C04_REDIST: std::sync::atomic::AtomicU8 = std::sync::atomic::AtomicU8::new(2); // 0 = flags only, 1 = redistribution only, 2 = both

pub fn check_c04(fi: &FontInfo, req0: &Req, cnt: &mut Counters) {
    let mode = C04_REDIST.load(std::sync::atomic::Ordering::Relaxed);
    // all four subsets of the two PRODUCE flags
    for sub in 0..4u32 {
        let concat = sub & 1 != 0;
        let tatweel = sub & 2 != 0;
        let mut req = req0.clone();
        req.flags = (req0.flags & !0xC0) | if concat { FLAG_CONCAT } else { 0 } | if tatweel { flag_tatweel() } else { 0 };
        let Ok(out) = shape_catch(&fi.data, &req) else { continue };
        cnt.evals += 1;
        let mut any_flag = false;
        for g in &out {
            if g.flags != 0 {
                any_flag = true;
            }
            if mode == 1 {
                continue;
            }
            if g.flags & !7 != 0 {
                cnt.fail("C04", "undefined-flag-bit", &fi.path, &req, &format!("flags={} out={}", g.flags, fmt_g(&out)));
                return;
            }
            if concat && (g.flags & 1 != 0) && (g.flags & 2 == 0) {
                cnt.fail("C04", "break-without-concat", &fi.path, &req, &format!("out={}", fmt_g(&out)));
                return;
            }
            if !concat && (g.flags & 2 != 0) {
                cnt.fail("C04", "concat-not-requested", &fi.path, &req, &format!("out={}", fmt_g(&out)));
                return;
            }
            if !tatweel && (g.flags & 4 != 0) {
                cnt.fail("C04", "tatweel-not-requested", &fi.path, &req, &format!("out={}", fmt_g(&out)));
                return;
            }
        }
        // uniform per cluster (clusters are contiguous at levels 0/1; at level 2 compare equal values)
        let mut per: std::collections::BTreeMap<u32, u32> = std::collections::BTreeMap::new();
        for g in &out {
            if let Some(f) = per.get(&g.cluster) {
                if *f != g.flags && req.level < 2 && mode != 1 {
                    cnt.fail("C04", "flags-not-uniform-in-cluster", &fi.path, &req, &format!("cluster={} out={}", g.cluster, fmt_g(&out)));
                    return;
                }
            } else {
                per.insert(g.cluster, g.flags);
            }
        }
        if any_flag {
            cnt.nontrivial += 1;
        }
        if out.iter().any(|g| g.flags & 4 != 0) {
            cnt.bump("tatweel_seen");
        }
        if out.iter().any(|g| g.flags & 2 != 0) {
            cnt.bump("concat_seen");
        }
        // redistribution experiment (property's second sentence), only with concat requested, level 0/1
        if concat && req.level < 2 && out.len() > 1 && mode != 0 {
            redistribute(fi, &req, &out, cnt);
        }
    }
}

pub const FLAG_CONCAT: u32 = 0x40;
/// the bit value of BufferFlags::PRODUCE_SAFE_TO_INSERT_TATWEEL as the crate defines it
pub fn flag_tatweel() -> u32 {
    rustybuzz::BufferFlags::PRODUCE_SAFE_TO_INSERT_TATWEEL.bits()
}

/// Even/odd redistribution of the segments delimited by concat-free cluster starts.
fn redistribute(fi: &FontInfo, req: &Req, whole: &[G], cnt: &mut Counters) {
    let (dir, script) = resolved_props(req);
    let back = is_backward(dir);
    let mut logical: Vec<G> = whole.to_vec();
    if back {
        logical.reverse();
    }
    // cluster values at which a new segment starts: cluster starts whose first glyph has no UNSAFE_TO_CONCAT
    let mut cuts: Vec<u32> = Vec::new();
    for i in 1..logical.len() {
        if logical[i].cluster != logical[i - 1].cluster && logical[i].flags & 2 == 0 {
            cuts.push(logical[i].cluster);
        }
    }
    if cuts.is_empty() {
        return;
    }
    cnt.bump("redistributions");
    let seg_of = |cl: u32| -> usize { cuts.iter().filter(|c| **c <= cl).count() };
    let mut texts: [Vec<(u32, u32)>; 2] = [Vec::new(), Vec::new()];
    for (cp, cl) in &req.text {
        texts[seg_of(*cl) % 2].push((*cp, *cl));
    }
    let mut outs: [Vec<G>; 2] = [Vec::new(), Vec::new()];
    for k in 0..2 {
        if texts[k].is_empty() {
            continue;
        }
        let mut rq = req.clone();
        rq.text = texts[k].clone();
        rq.dir = Some(dir);
        rq.script = script.map(|s| String::from_utf8_lossy(&s.tag().to_bytes()).to_string());
        rq.pre = vec![];
        rq.post = vec![];
        rq.flags &= !3; // no BOT/EOT special handling on redistributed text
        match shape_catch(&fi.data, &rq) {
            Ok(mut o) => {
                if back {
                    o.reverse();
                }
                outs[k] = o;
            }
            Err(_) => return,
        }
    }
    // interleave back: glyphs of segment s come from outs[s % 2]
    let nseg = cuts.len() + 1;
    let mut rebuilt: Vec<G> = Vec::new();
    for s in 0..nseg {
        for g in &outs[s % 2] {
            if seg_of(g.cluster) == s {
                rebuilt.push(g.clone());
            }
        }
    }
    // compare with the original shaped WITHOUT BOT/EOT too (so that only concatenation differs)
    let mut rq = req.clone();
    rq.flags &= !3;
    rq.dir = Some(dir);
    rq.script = script.map(|s| String::from_utf8_lossy(&s.tag().to_bytes()).to_string());
    rq.pre = vec![];
    rq.post = vec![];
    let Ok(mut base) = shape_catch(&fi.data, &rq) else { return };
    if back {
        base.reverse();
    }
    // the cut points were computed on `whole`; recompute on base to stay within the property's premise
    let mut cuts2: Vec<u32> = Vec::new();
    for i in 1..base.len() {
        if base[i].cluster != base[i - 1].cluster && base[i].flags & 2 == 0 {
            cuts2.push(base[i].cluster);
        }
    }
    if cuts2 != cuts {
        cnt.bump("redistribution_skipped_cuts_differ");
        return;
    }
    let strip = |v: &[G]| -> Vec<(u32, u32, i32, i32, i32, i32)> { v.iter().map(|g| (g.gid, g.cluster, g.xa, g.ya, g.xo, g.yo)).collect() };
    if strip(&rebuilt) != strip(&base) {
        cnt.fail("C04", "redistribution-differs", &fi.path, &rq, &format!("whole={} rebuilt={}", fmt_g(&base), fmt_g(&rebuilt)));
    }
}

fn c04(r: &mut Rng, fonts: &[FontInfo], n: u64, tr: &mut Option<std::fs::File>) {
    let mut cnt = Counters::default();
    for i in 0..n {
        let fi = &fonts[r.below(fonts.len() as u64) as usize];
        let req = gen_req(r, fi, 16);
        trace(tr, &format!("{} {} [{}]", i, fi.path, fmt_req(&req)));
        check_c04(fi, &req, &mut cnt);
    }
    cnt.summary("C04");
}

// ------------------------------------------------------------------------------------------ C15

pub fn check_c15(fi: &FontInfo, req: &Req, r: &mut Rng, cnt: &mut Counters) {
    let Ok(base) = shape_catch(&fi.data, req) else { return };
    cnt.evals += 1;
    // (a) strictly increasing relabelling f
    let off = r.below(5000) as u32;
    let step = 1 + r.below(4) as u32;
    let jit = r.below(3) as u32;
    let f = |c: u32| -> u32 { off + c * (step + jit) + (c % (jit + 1)).min(step + jit - 1) };
    let mut rq = req.clone();
    rq.text = req.text.iter().map(|(cp, cl)| (*cp, f(*cl))).collect();
    if let Ok(o) = shape_catch(&fi.data, &rq) {
        let same = o.len() == base.len()
            && o.iter().zip(base.iter()).all(|(a, b)| a.gid == b.gid && a.cluster == f(b.cluster) && a.flags == b.flags && a.xa == b.xa && a.ya == b.ya && a.xo == b.xo && a.yo == b.yo);
        if !same {
            cnt.fail("C15", "relabel-changes-result", &fi.path, req, &format!("f=off{}+c*{} base={} relabelled={}", off, step + jit, fmt_g(&base), fmt_g(&o)));
            return;
        }
    }
    // (b) the three cluster levels: same glyphs and positions in the same order
    let mut lv: Vec<Vec<G>> = Vec::new();
    for l in 0..3u8 {
        let mut rq = req.clone();
        rq.level = l;
        match shape_catch(&fi.data, &rq) {
            Ok(o) => lv.push(o),
            Err(_) => return,
        }
    }
    let strip = |v: &[G]| -> Vec<(u32, i32, i32, i32, i32)> { v.iter().map(|g| (g.gid, g.xa, g.ya, g.xo, g.yo)).collect() };
    if strip(&lv[0]) != strip(&lv[1]) || strip(&lv[0]) != strip(&lv[2]) {
        cnt.fail("C15", "level-changes-glyphs-or-positions", &fi.path, req, &format!("l0={} l1={} l2={}", fmt_g(&lv[0]), fmt_g(&lv[1]), fmt_g(&lv[2])));
        return;
    }
    let cl = |v: &[G]| -> Vec<u32> { v.iter().map(|g| g.cluster).collect() };
    if cl(&lv[0]) != cl(&lv[2]) {
        cnt.nontrivial += 1;
    }
}

/// Relabelling with range-restricted features: clusters AND the cluster bounds of `tag[a:b]` go through the same
/// strictly increasing map; glyphs and positions must not change.  On a generated AAT font (morx + feat: two
/// non-contextual subtables switched by smcp / liga, forward and backward processing) and on a GSUB twin.
fn c15_ranged(r: &mut Rng, cnt: &mut Counters, tr: &mut Option<std::fs::File>) {
    use crate::fontgen::*;
    let mut fonts: Vec<(String, Vec<u8>)> = Vec::new();
    for cov in [0u32, 0x4000_0000, 0x2000_0000] {
        let mut f = FontSpec::basic(12);
        f.feat = Some(Feat { names: vec![FeatName { feature: 1, settings: vec![2, 3, 4, 5], exclusive: false, default_index: None }, FeatName { feature: 37, settings: vec![0, 1], exclusive: true, default_index: None }] });
        let nonctx = |flags: u32| MorxSubtable { coverage: cov, sub_feature_flags: flags, kind: MorxKind::NonContextual(AatLookup::new(6, (1..6u16).map(|g| (g, g + 5)).collect())) };
        f.morx = Some(Morx { version: 2, chains: vec![MorxChain { default_flags: 0, features: vec![MorxFeature { feature_type: 37, feature_setting: 1, enable_flags: 1, disable_flags: 0xFFFF_FFFF }, MorxFeature { feature_type: 1, feature_setting: 2, enable_flags: 2, disable_flags: 0xFFFF_FFFF }], subtables: vec![nonctx(1), nonctx(2)] }] });
        fonts.push((format!("generated:morx-feat-cov{:x}", cov), build(&f)));
    }
    for cov in [0u32, 0x4000_0000] {
        // a contextual subtable whose only action fires on the END-OF-TEXT transition: every glyph sets the mark, end of
        // text substitutes the marked (= last) glyph.  Whether it fires is decided by the range of the LAST glyph's cluster
        let mut f = FontSpec::basic(12);
        f.feat = Some(Feat { names: vec![FeatName { feature: 1, settings: vec![2, 3, 4, 5], exclusive: false, default_index: None }, FeatName { feature: 37, settings: vec![0, 1], exclusive: true, default_index: None }] });
        let table = StateTable {
            n_classes: 5,
            class_lookup: AatLookup::new(2, (1..6u16).map(|g| (g, 4)).collect()),
            // states: 0 start of text, 1 start of line, 2 marked; classes: 0 end of text, 1 out of bounds, 2 deleted, 3 end of line, 4 letter
            states: vec![vec![0, 0, 0, 0, 1], vec![0, 0, 0, 0, 1], vec![2, 0, 1, 0, 1]],
            entries: vec![
                CtxEntry { new_state: 0, flags: 0, mark_index: 0xFFFF, current_index: 0xFFFF },
                CtxEntry { new_state: 2, flags: 0x8000, mark_index: 0xFFFF, current_index: 0xFFFF },
                CtxEntry { new_state: 0, flags: 0, mark_index: 0, current_index: 0xFFFF },
            ],
        };
        let ctx = |flags: u32| MorxSubtable { coverage: cov, sub_feature_flags: flags, kind: MorxKind::Contextual { table: table.clone(), substitutions: vec![AatLookup::new(6, (1..6u16).map(|g| (g, g + 5)).collect())] } };
        f.morx = Some(Morx { version: 2, chains: vec![MorxChain { default_flags: 0, features: vec![MorxFeature { feature_type: 37, feature_setting: 1, enable_flags: 1, disable_flags: 0xFFFF_FFFF }, MorxFeature { feature_type: 1, feature_setting: 2, enable_flags: 2, disable_flags: 0xFFFF_FFFF }], subtables: vec![ctx(2)] }] });
        fonts.push((format!("generated:morx-feat-end-of-text-cov{:x}", cov), build(&f)));
    }
    {
        // two features that are off by default, each with a visible effect of its own: smcp maps 1..5 to 6..10, ss01 then
        // maps 1..10 to 11..20 (so a glyph shows which of the two ranges covered it)
        let mut f = FontSpec::basic(22);
        let sub = |n: u16, d: i16| Lookup::one(SubstSubtable::Single1 { coverage: Coverage::Glyphs((1..=n).collect()), delta: d });
        f.gsub = Some(Layout::with_features(vec![(*b"smcp", vec![0]), (*b"ss01", vec![1])], vec![sub(5, 5), sub(10, 10)]));
        fonts.push(("generated:gsub-ranged".to_string(), build(&f)));
    }
    let dump = std::env::var("RBV_DUMP_DIR").ok();
    for (name, data) in &fonts {
        let mut path = name.clone();
        if let Some(d) = &dump {
            let p = format!("{}/{}.ttf", d, name.replace(':', "-"));
            let _ = std::fs::create_dir_all(d);
            if std::fs::write(&p, data).is_ok() {
                path = p;
            }
        }
        let gsub_font = name.contains("gsub");
        for j in 0..150u32 {
            let n = 2 + r.below(7) as usize;
            let dense: Vec<u32> = match r.below(3) { 0 => (0..n as u32).collect(), 1 => (0..n as u32).map(|i| i / 2).collect(), _ => (0..n as u32).map(|i| 2 * i + 1).collect() };
            let text: Vec<(u32, u32)> = (0..n).map(|i| (pua(r.below(5) as u32), dense[i])).collect();
            let maxc = *dense.iter().max().unwrap();
            let nf = 1 + r.below(2);
            let ranges: Vec<(String, u32, u32)> = (0..nf).map(|k| {
                let a = r.below(maxc as u64 + 2) as u32;
                // a third of the ranges end exactly one past the last cluster (the range "to the end of this text")
                let b = if r.chance(1, 3) && a <= maxc { maxc + 1 } else { a + r.below((maxc + 3 - a) as u64) as u32 };
                ((if (k + j as u64) % 2 == 0 { "smcp" } else if gsub_font { "ss01" } else { "liga" }).to_string(), a, b)
            }).collect();
            let off = r.below(5000) as u32;
            let step = 2 + r.below(4) as u32;
            let f = |c: u32| off + c * step;
            let feats = |g: &dyn Fn(u32) -> u32| -> Vec<String> { ranges.iter().map(|(t, a, b)| format!("{}[{}:{}]", t, g(*a), g(*b))).collect() };
            for d in [Direction::LeftToRight, Direction::RightToLeft] {
                for level in 0..3u8 {
                    let base = Req { text: text.clone(), dir: Some(d), level, flags: 3, features: feats(&|c| c), ..Default::default() };
                    let rel = Req { text: text.iter().map(|(cp, cl)| (*cp, f(*cl))).collect(), dir: Some(d), level, flags: 3, features: feats(&f), ..Default::default() };
                    trace(tr, &format!("ranged {} [{}]", path, fmt_req(&base)));
                    let (Ok(o1), Ok(o2)) = (shape_catch(data, &base), shape_catch(data, &rel)) else { continue };
                    cnt.evals += 1;
                    if o1.iter().any(|g| g.gid > 5) && o1.iter().any(|g| g.gid <= 5) {
                        cnt.nontrivial += 1;
                        cnt.bump("ranged_feature_cases_where_the_range_shows");
                    }
                    let same = o1.len() == o2.len()
                        && o1.iter().zip(o2.iter()).all(|(a, b)| a.gid == b.gid && f(a.cluster) == b.cluster && a.xa == b.xa && a.ya == b.ya && a.xo == b.xo && a.yo == b.yo);
                    if !same {
                        cnt.fail("C15", "relabel-with-ranged-features-changes-result", &path, &base, &format!("f=off{}+c*{} relabelled_feats={} base={} relabelled={}", off, step, rel.features.join(";"), fmt_g(&o1), fmt_g(&o2)));
                    }
                    cnt.bump("ranged_feature_cases");
                }
            }
        }
    }
}

/// Automatic fractions (digits U+2044 digits) on a generated font with numr / dnom / frac, with grapheme continuations
/// (combining mark, ZWJ, variation selector) behind digits and the slash: which glyphs get the fraction features is
/// decided per glyph, so neither the cluster level nor the numbering may change the result.
fn c15_fraction(r: &mut Rng, cnt: &mut Counters, tr: &mut Option<std::fs::File>) {
    use crate::fontgen::*;
    let mut spec = FontSpec::basic(50);
    // glyphs 1..10 digits, 11 slash, 12 mark, 13 x, 14 space, 15 zwj; numr +15, dnom +25 on the digits, frac: slash -> 48
    let mut cmap: Vec<(u32, u16)> = (0..10u32).map(|d| (0x30 + d, 1 + d as u16)).collect();
    cmap.extend([(0x2044, 11), (0x0301, 12), (0x78, 13), (0x20, 14), (0x200D, 15), (0x0661, 2), (0x0662, 3)]);
    cmap.sort();
    spec.cmap = cmap;
    let digits: Vec<u16> = (1..=10).collect();
    let numr = Lookup::one(SubstSubtable::Single1 { coverage: Coverage::Glyphs(digits.clone()), delta: 15 });
    let dnom = Lookup::one(SubstSubtable::Single1 { coverage: Coverage::Glyphs(digits.clone()), delta: 25 });
    let frac = Lookup::one(SubstSubtable::Single2 { coverage: Coverage::Glyphs(vec![11]), substitutes: vec![48] });
    spec.gsub = Some(Layout::with_features(vec![(*b"dnom", vec![1]), (*b"frac", vec![2]), (*b"numr", vec![0])], vec![numr, dnom, frac]));
    let data = build(&spec);
    let mut path = "generated:fraction".to_string();
    if let Ok(dir) = std::env::var("RBV_DUMP_DIR") {
        let p = format!("{}/generated-fraction.ttf", dir);
        let _ = std::fs::create_dir_all(&dir);
        if std::fs::write(&p, &data).is_ok() {
            path = p;
        }
    }
    let chars: Vec<u32> = spec.cmap.iter().map(|x| x.0).collect();
    let fi = FontInfo { path, data, chars, has_layout: true, has_morx: false, has_kern: false, scripts: vec![] };
    for j in 0..160u32 {
        let mut t: Vec<u32> = Vec::new();
        let cont = |r: &mut Rng, t: &mut Vec<u32>| {
            match r.below(6) {
                0 | 1 => t.push(0x0301),
                2 => t.push(0x200D),
                3 => {
                    t.push(0x0301);
                    t.push(0x0301);
                }
                _ => {}
            }
        };
        if r.chance(1, 3) {
            t.push(0x78);
            t.push(0x20);
        }
        for _ in 0..r.range(1, 3) {
            t.push(0x30 + r.below(10) as u32);
        }
        if r.chance(1, 4) {
            cont(r, &mut t);
        }
        t.push(0x2044);
        if r.chance(1, 4) {
            cont(r, &mut t);
        }
        for _ in 0..r.range(1, 3) {
            t.push(0x30 + r.below(10) as u32);
        }
        cont(r, &mut t);
        if r.chance(1, 3) {
            t.push(0x20);
            t.push(0x78);
        }
        let cl = gen_clusters(r, t.len());
        let req = Req { text: t.into_iter().zip(cl.into_iter()).collect(), dir: if j % 4 == 3 { Some(Direction::RightToLeft) } else { Some(Direction::LeftToRight) }, script: Some("Latn".to_string()), flags: 3, level: (j % 3) as u8, ..Default::default() };
        trace(tr, &format!("fraction {} [{}]", fi.path, fmt_req(&req)));
        let before = cnt.evals;
        check_c15(&fi, &req, r, cnt);
        if cnt.evals > before {
            cnt.bump("fraction_cases");
        }
    }
}

fn c15(r: &mut Rng, fonts: &[FontInfo], n: u64, tr: &mut Option<std::fs::File>) {
    let mut cnt = Counters::default();
    c15_ranged(r, &mut cnt, tr);
    c15_fraction(r, &mut cnt, tr);
    // dedicated pass: every (font, script it maps) pair, texts over the script's alphabet incl. ill-formed
    // sequences (the shapers' text preprocessing must not depend on the cluster level or numbering)
    for fi in fonts.iter() {
        for &k in &fi.scripts {
            for j in 0..24u32 {
                let mut req = gen_req(r, fi, 8);
                let text = gen_text_alphabet(r, k, 8);
                let cl = gen_clusters(r, text.len());
                req.text = text.into_iter().zip(cl.into_iter()).collect();
                req.features.retain(|f| !f.contains('['));
                req.dir = if j % 2 == 0 { None } else { Some(DIRS[(j % 4) as usize]) };
                req.pre.clear();
                req.post.clear();
                trace(tr, &format!("script {} {} [{}]", k, fi.path, fmt_req(&req)));
                check_c15(fi, &req, r, &mut cnt);
                cnt.bump("script_pass_cases");
            }
        }
    }
    // dedicated pass: fonts with an AAT tracking table, shaped with a point size (tracking is added once per
    // grapheme, so graphemes whose continuation is NOT a nonspacing mark matter: voiced sound marks, emoji
    // modifiers, regional indicator pairs, ZWJ sequences, tag characters)
    const CONT: &[u32] = &[0xFF9E, 0xFF9F, 0x1F3FB, 0x1F3FF, 0x200D, 0xE0061, 0x0301, 0x3099];
    for fi in fonts.iter() {
        let has_trak = Face::from_slice(&fi.data, 0).map(|f| f.tables().trak.is_some()).unwrap_or(false);
        if !has_trak {
            continue;
        }
        for j in 0..200u32 {
            let len = 2 + r.below(7) as usize;
            let mut text: Vec<u32> = Vec::new();
            while text.len() < len {
                match r.below(6) {
                    0 | 1 => text.push(*r.pick(&fi.chars)),
                    2 => text.push(*r.pick(&[0xFF8A, 0x41, 0x1F44B, 0x30AB])),
                    3 => {
                        text.push(0x1F1E6 + r.below(26) as u32);
                        text.push(0x1F1E6 + r.below(26) as u32);
                    }
                    _ => {
                        if !text.is_empty() {
                            text.push(*r.pick(CONT));
                        }
                    }
                }
            }
            let cl: Vec<u32> = (0..text.len() as u32).collect();
            let req = Req {
                text: text.into_iter().zip(cl.into_iter()).collect(),
                dir: match j % 5 { 0 => None, k => Some(DIRS[(k - 1) as usize]) },
                ptem: Some(*r.pick(&[1u32, 9, 12, 24, 72])),
                flags: 3,
                ..Default::default()
            };
            trace(tr, &format!("trak {} [{}]", fi.path, fmt_req(&req)));
            check_c15(fi, &req, r, &mut cnt);
            cnt.bump("trak_pass_cases");
        }
    }
    for i in 0..n {
        let fi = &fonts[r.below(fonts.len() as u64) as usize];
        let mut req = gen_req_s(r, fi, 16);
        // ranged features are covered by C14 on generated fonts; here only global ones, so that the
        // known class feature_range_splits_grapheme cannot arise
        req.features.retain(|f| !f.contains('['));
        trace(tr, &format!("{} {} [{}]", i, fi.path, fmt_req(&req)));
        check_c15(fi, &req, r, &mut cnt);
    }
    cnt.summary("C15");
}

// ------------------------------------------------------------------------------------------ C03

pub fn check_c03(fi: &FontInfo, req: &Req, cnt: &mut Counters) {
    if req.level > 1 || req.text.len() < 2 {
        return;
    }
    let (dir, script) = resolved_props(req);
    let mut rq0 = req.clone();
    rq0.dir = Some(dir);
    rq0.script = script.map(|s| String::from_utf8_lossy(&s.tag().to_bytes()).to_string());
    let Ok(mut whole) = shape_catch(&fi.data, &rq0) else { return };
    cnt.evals += 1;
    let back = is_backward(dir);
    if back {
        whole.reverse();
    }
    // cluster starts (logical order) whose first glyph is free of UNSAFE_TO_BREAK
    let mut cuts: Vec<u32> = Vec::new();
    for i in 1..whole.len() {
        if whole[i].cluster != whole[i - 1].cluster && whole[i].flags & 1 == 0 {
            cuts.push(whole[i].cluster);
        }
    }
    // clusters must be monotone in logical order for cutting by value (C02); otherwise skip
    if whole.windows(2).any(|w| w[0].cluster > w[1].cluster) {
        return;
    }
    if cuts.is_empty() {
        cnt.bump("no_safe_cut");
        return;
    }
    cnt.nontrivial += 1;
    if whole.iter().any(|g| g.flags & 1 != 0) {
        cnt.bump("with_unsafe_flags");
    }
    let seg_of = |cl: u32| -> usize { cuts.iter().filter(|c| **c <= cl).count() };
    let nseg = cuts.len() + 1;
    let mut rebuilt: Vec<G> = Vec::new();
    for s in 0..nseg {
        let mut rq = rq0.clone();
        rq.text = req.text.iter().cloned().filter(|(_, cl)| seg_of(*cl) == s).collect();
        if rq.text.is_empty() {
            continue;
        }
        if s > 0 {
            rq.flags &= !1;
            rq.pre = vec![];
        }
        if s + 1 < nseg {
            rq.flags &= !2;
            rq.post = vec![];
        }
        match shape_catch(&fi.data, &rq) {
            Ok(mut o) => {
                if back {
                    o.reverse();
                }
                rebuilt.extend(o);
            }
            Err(_) => return,
        }
    }
    let strip = |v: &[G]| -> Vec<(u32, u32, i32, i32, i32, i32)> { v.iter().map(|g| (g.gid, g.cluster, g.xa, g.ya, g.xo, g.yo)).collect() };
    if strip(&rebuilt) != strip(&whole) {
        cnt.fail(
            "C03",
            if fi.has_morx { "pieces-differ-aat" } else { "pieces-differ" },
            &fi.path,
            &rq0,
            &format!("cuts={:?} whole={} pieces={}", cuts, fmt_g(&whole), fmt_g(&rebuilt)),
        );
    }
}

fn c03(r: &mut Rng, fonts: &[FontInfo], n: u64, tr: &mut Option<std::fs::File>) {
    let mut cnt = Counters::default();
    for i in 0..n {
        let fi = &fonts[r.below(fonts.len() as u64) as usize];
        let mut req = gen_req(r, fi, 14);
        req.level = r.below(2) as u8;
        req.pre.clear();
        req.post.clear();
        // one cluster per character or repeats; keep numbering monotone
        trace(tr, &format!("{} {} [{}]", i, fi.path, fmt_req(&req)));
        check_c03(fi, &req, &mut cnt);
    }
    // dedicated pass (own random stream, behind the fixed-seed sweep): joining-script letters with
    // PRODUCE_SAFE_TO_INSERT_TATWEEL requested - the joining shaper then records "tatweel may go here" instead of flagging
    // the joined pair, and the final flag pass has to turn that into UNSAFE_TO_BREAK
    let mut r2 = Rng::new(0x7A7);
    for fi in fonts.iter() {
        let letters: Vec<u32> = fi.chars.iter().cloned().filter(|c| (0x0621..=0x064A).contains(c) && *c != 0x0640 || (0x0712..=0x072C).contains(c) || (0x1820..=0x1842).contains(c)).collect();
        if letters.len() < 4 {
            continue;
        }
        for j in 0..6u32 {
            let n = 2 + r2.below(4) as usize;
            let text: Vec<(u32, u32)> = (0..n).map(|i| (*r2.pick(&letters), i as u32)).collect();
            let req = Req { text, flags: 3 | flag_tatweel(), level: (j % 2) as u8, ..Default::default() };
            trace(tr, &format!("tatweel {} [{}]", fi.path, fmt_req(&req)));
            check_c03(fi, &req, &mut cnt);
            cnt.bump("tatweel_flag_cases");
        }
    }
    cnt.summary("C03");
}

/// C03/C04 on the generated small-alphabet fonts of flaggen.rs: font k of the fixed seed, 12 texts each.
/// A failing font is written to RBV_DUMP_DIR as flaggen-<seed>-<k>.ttf (the name identifies the instance).
fn flag_gen_pass(which: &str, seed: u64, n: u64, only: u64, tr: &mut Option<std::fs::File>) {
    const TEXTS: u64 = 12;
    let prop = if which == "c03gen" { "C03" } else { "C04" };
    let mut cnt = Counters::default();
    let dump = std::env::var("RBV_DUMP_DIR").ok();
    let nfonts = (n + TEXTS - 1) / TEXTS;
    for k in 0..nfonts {
        if only != u64::MAX && k != only {
            continue;
        }
        // the Hangul shaper places no UNSAFE_TO_CONCAT flag of its own (known class hangul_shaper of the corpus sweep);
        // for C04 the generated Hangul family is restricted to LV syllables with optional combining trailing jamo
        let c04_hangul = prop == "C04" && crate::flaggen::family_of(k) == "hangul";
        let spec = crate::flaggen::gen_font(seed, k);
        let data = crate::fontgen::build(&spec);
        let name = format!("flaggen-{}-{}.ttf", seed, k);
        let path = match &dump {
            Some(d) => format!("{}/{}", d, name),
            None => format!("generated:{}", name),
        };
        let chars: Vec<u32> = spec.cmap.iter().map(|x| x.0).collect();
        let fi = FontInfo { path: path.clone(), data, chars, has_layout: true, has_morx: false, has_kern: spec.kern.is_some(), scripts: vec![] };
        let mut r = Rng::new(seed ^ (k.wrapping_mul(0x9E37_79B9)) ^ 0x7E57);
        let before = cnt.fails;
        for j in 0..TEXTS {
            let req = if c04_hangul { crate::flaggen::gen_req_hangul_lv_t(&mut r) } else { crate::flaggen::gen_req(&mut r, k) };
            trace(tr, &format!("{} {} {} [{}]", k, j, crate::flaggen::family_of(k), fmt_req(&req)));
            if prop == "C03" {
                check_c03(&fi, &req, &mut cnt);
            } else {
                check_c04(&fi, &req, &mut cnt);
            }
        }
        cnt.bump(&format!("fonts_{}", crate::flaggen::family_of(k)));
        if cnt.fails > before {
            if let Some(d) = &dump {
                let _ = std::fs::create_dir_all(d);
                let _ = std::fs::write(&path, &fi.data);
            }
        }
    }
    // C03 only: syllabic scripts whose shaper inserts a dotted circle between GSUB stages (see flaggen.rs)
    if prop == "C03" && only == u64::MAX {
        for k in 0..(nfonts / 40 + 16) {
            let (spec, _) = crate::flaggen::gen_font_dotted(seed, k);
            let data = crate::fontgen::build(&spec);
            let name = format!("flaggen-{}-dotted{}.ttf", seed, k);
            let path = match &dump {
                Some(d) => format!("{}/{}", d, name),
                None => format!("generated:{}", name),
            };
            let chars: Vec<u32> = spec.cmap.iter().map(|x| x.0).collect();
            let fi = FontInfo { path: path.clone(), data, chars, has_layout: true, has_morx: false, has_kern: false, scripts: vec![] };
            let mut r = Rng::new(seed ^ (k.wrapping_mul(0x9E37_79B9)) ^ 0xD0C1);
            let before = cnt.fails;
            for j in 0..TEXTS {
                let req = crate::flaggen::gen_req_dotted(&mut r, k);
                trace(tr, &format!("dotted {} {} [{}]", k, j, fmt_req(&req)));
                check_c03(&fi, &req, &mut cnt);
            }
            cnt.bump("fonts_dotted_circle");
            if cnt.fails > before {
                if let Some(d) = &dump {
                    let _ = std::fs::create_dir_all(d);
                    let _ = std::fs::write(&path, &fi.data);
                }
            }
        }
    }
    cnt.summary(prop);
}

// ------------------------------------------------------------------------------------------ C05

/// A generated font whose glyph ids coincide with code points of strong right-to-left letters: ASCII
/// letters map to glyphs 0x5D0.. (Hebrew) and 0x627.. (Arabic).  Anything of an earlier shaping that a
/// recycled buffer still exposes (glyph ids where code points are expected) then changes the guessed
/// script and direction of the next, script-neutral text.
fn aliasing_font() -> FontInfo {
    use crate::fontgen::*;
    let mut spec = FontSpec::basic(0x700);
    let mut cmap: Vec<(u32, u16)> = Vec::new();
    for i in 0..26u32 {
        cmap.push((0x41 + i, (0x627 + i) as u16));
        cmap.push((0x61 + i, (0x5D0 + i) as u16));
    }
    for i in 0..16u32 {
        cmap.push((0x20 + i, (0x20 + i) as u16));
        cmap.push((0x30 + i, (0x30 + i) as u16));
    }
    cmap.sort();
    spec.cmap = cmap;
    let data = build(&spec);
    let mut path = "generated:aliasing".to_string();
    if let Ok(dir) = std::env::var("RBV_DUMP_DIR") {
        let p = format!("{}/generated-aliasing.ttf", dir);
        let _ = std::fs::create_dir_all(&dir);
        if std::fs::write(&p, &data).is_ok() {
            path = p;
        }
    }
    let chars: Vec<u32> = spec.cmap.iter().map(|x| x.0).collect();
    FontInfo { path, data, chars, has_layout: false, has_morx: false, has_kern: false, scripts: vec![] }
}

/// A generated font whose GSUB doubles glyph 1 fourteen times: every text containing its first character
/// runs into the per-call length limit max(64 n, 16384), so where the expansion stops shows whether the
/// limit depends on anything but the current text (e.g. on the storage an earlier use left behind).
fn limit_font() -> FontInfo {
    use crate::fontgen::*;
    let mut spec = FontSpec::basic(4);
    let lookups: Vec<Lookup<SubstSubtable>> = (0..14)
        .map(|_| Lookup::one(SubstSubtable::Multiple { coverage: Coverage::Glyphs(vec![1]), sequences: vec![vec![1, 1]] }))
        .collect();
    spec.gsub = Some(Layout::single_feature(*b"ccmp", lookups));
    let data = build(&spec);
    let mut path = "generated:limit".to_string();
    if let Ok(dir) = std::env::var("RBV_DUMP_DIR") {
        let p = format!("{}/generated-limit.ttf", dir);
        let _ = std::fs::create_dir_all(&dir);
        if std::fs::write(&p, &data).is_ok() {
            path = p;
        }
    }
    let chars: Vec<u32> = spec.cmap.iter().map(|x| x.0).collect();
    FontInfo { path, data, chars, has_layout: true, has_morx: false, has_kern: false, scripts: vec![] }
}

/// A generated font whose default-on `rand` feature picks among three alternates of every glyph: the
/// pseudo-random sequence must restart with every shaping call, whatever the buffer shaped before.
fn rand_font() -> FontInfo {
    use crate::fontgen::*;
    let mut spec = FontSpec::basic(16);
    let alternates: Vec<Vec<u16>> = (1..4u16).map(|g| vec![4 + 3 * (g - 1), 5 + 3 * (g - 1), 6 + 3 * (g - 1)]).collect();
    spec.gsub = Some(Layout::single_feature(*b"rand", vec![Lookup::one(SubstSubtable::Alternate { coverage: Coverage::Glyphs(vec![1, 2, 3]), alternates })]));
    let data = build(&spec);
    let mut path = "generated:rand".to_string();
    if let Ok(dir) = std::env::var("RBV_DUMP_DIR") {
        let p = format!("{}/generated-rand.ttf", dir);
        let _ = std::fs::create_dir_all(&dir);
        if std::fs::write(&p, &data).is_ok() {
            path = p;
        }
    }
    let chars: Vec<u32> = spec.cmap.iter().take(3).map(|x| x.0).collect();
    FontInfo { path, data, chars, has_layout: true, has_morx: false, has_kern: false, scripts: vec![] }
}

fn c05(r: &mut Rng, fonts: &[FontInfo], n: u64, tr: &mut Option<std::fs::File>) {
    let mut cnt = Counters::default();
    let alias = aliasing_font();
    let limit = limit_font();
    let randf = rand_font();
    // (a) histories on one recycled buffer vs fresh buffers
    for i in 0..n {
        let fi = if i % 4 == 3 { &alias } else if i % 8 == 1 { &limit } else if i % 8 == 5 { &randf } else { &fonts[r.below(fonts.len() as u64) as usize] };
        let Some(face) = Face::from_slice(&fi.data, 0) else { continue };
        let steps = r.range(2, 6);
        let mut reqs: Vec<Req> = Vec::new();
        // a third of the histories fill the buffer through push_str (add() resets the post-context on its own)
        let push = i % 3 == 2;
        for _ in 0..steps {
            let mut rq = gen_req_s(r, fi, 20);
            if push {
                // contexts come and go along the history: what one step set must not reach the next
                rq.pre = if r.chance(1, 2) { gen_text(r, &fi.chars, 2) } else { vec![] };
                rq.post = if r.chance(1, 2) { gen_text(r, &fi.chars, 2) } else { vec![] };
            }
            if std::ptr::eq(fi, &limit) && r.chance(1, 3) {
                // a text long enough to raise the length limit above its floor (64 n > 16384): what it leaves
                // allocated must not let a later, shorter text grow further than it may on a fresh buffer
                let k = 257 + r.below(400) as usize;
                let c = fi.chars[0];
                rq.text = (0..k).map(|j| (c, j as u32)).collect();
            }
            match r.below(12) {
                0 => rq.text.clear(), // empty text
                2 | 3 => {
                    // script-neutral text (digits, punctuation): direction and script are guessed from
                    // whatever the buffer exposes, so anything a recycled buffer still holds shows here
                    let k = r.range(1, 6) as usize;
                    rq.text = (0..k).map(|j| (*r.pick(&[0x30u32, 0x31, 0x39, 0x2E, 0x2F, 0x20, 0x2D, 0x28]), j as u32)).collect();
                    rq.dir = None;
                    rq.script = None;
                }
                1 if !fi.has_morx => {
                    // long text: beyond the default 16384 budget floor (not on AAT fonts: an insertion machine may spend
                    // its whole operation budget, 1024 per character, on buffer shifts that are linear in the length -
                    // bounded, as in HarfBuzz, but hours for 20000 characters)
                    let k = 16500 + r.below(6000) as usize;
                    let c = *r.pick(&fi.chars);
                    rq.text = (0..k).map(|j| (c, j as u32)).collect();
                }
                6 => {
                    // a text that begins with a combining mark, at the beginning of a paragraph, clusters kept per character:
                    // the shaper puts a dotted circle in front, whose cluster and mask come from the glyph under the cursor
                    let marks: Vec<u32> = fi.chars.iter().cloned().filter(|c| (0x0300..=0x036F).contains(c) || (0x064B..=0x0652).contains(c) || (0x05B0..=0x05BD).contains(c)).collect();
                    if !marks.is_empty() {
                        let m = *r.pick(&marks);
                        let n0 = rq.text.len() as u32;
                        rq.text.insert(0, (m, 0));
                        for (j, t) in rq.text.iter_mut().enumerate() {
                            // descending numbering half of the time (the minimum is then not at the front)
                            t.1 = if n0 % 2 == 0 { j as u32 } else { n0 + 1 - j as u32 };
                        }
                        rq.flags = (rq.flags | 1) & !0x10;
                        rq.level = 1 + (n0 % 2) as u8;
                        rq.pre.clear();
                    }
                }
                4 if !reqs.is_empty() => {
                    // the previous text moved to another plane (c + k * 0x10000): characters that agree with the ones just
                    // looked up in their low 16 bits - the font maps none of them, or other glyphs
                    let k = r.range(1, 16) as u32;
                    let prev: Vec<(u32, u32)> = reqs[reqs.len() - 1].text.iter().take(40).cloned().collect();
                    rq.text = prev.into_iter().filter_map(|(c, cl)| { let t = c + k * 0x10000; if t <= 0x10FFFF && char::from_u32(t).is_some() { Some((t, cl)) } else { None } }).collect();
                }
                _ => {}
            }
            reqs.push(rq);
        }
        let fill_h = |rq: &Req, ub: UnicodeBuffer| if push { fill_push_str(rq, ub) } else { fill(rq, ub) };
        // "fresh" = a fresh buffer AND a freshly parsed Face: nothing an earlier call could have left anywhere
        let shape_fresh = |rq: &Req| {
            let face = Face::from_slice(&fi.data, 0).unwrap();
            let b = fill_h(rq, UnicodeBuffer::new());
            let gb = rustybuzz::shape(&face, &features_of(rq), b);
            collect(&face, &gb)
        };
        trace(tr, &format!("{} {} history of {} push_str={}", i, fi.path, reqs.len(), push));
        let res = catch(std::panic::AssertUnwindSafe(|| {
            let mut ub = UnicodeBuffer::new();
            let mut outs = Vec::new();
            for rq in &reqs {
                ub = fill_h(rq, ub);
                let feats = features_of(rq);
                let gb = rustybuzz::shape(&face, &feats, ub);
                outs.push(collect(&face, &gb));
                ub = gb.clear();
            }
            outs
        }));
        let Ok(outs) = res else { continue };
        for (k, rq) in reqs.iter().enumerate() {
            cnt.evals += 1;
            let fresh = catch(std::panic::AssertUnwindSafe(|| shape_fresh(rq)));
            let Ok(fresh) = fresh else { continue };
            if k > 0 {
                cnt.nontrivial += 1;
            }
            if fresh != outs[k] {
                let hist: Vec<String> = reqs[..k].iter().map(|q| format!("n={}", q.text.len())).collect();
                cnt.fail("C05", if push { "recycled-buffer-differs-push_str" } else { "recycled-buffer-differs" }, &fi.path, rq, &format!("step={} history=[{}] fresh_len={} recycled_len={}", k, hist.join(","), fresh.len(), outs[k].len()));
                break;
            }
            if push {
                continue; // the remaining comparisons use the request's own cluster numbers
            }
            // repeat: same request again on a fresh buffer
            let again = catch(std::panic::AssertUnwindSafe(|| shape_req(&face, rq)));
            if let Ok(a) = again {
                if a != fresh {
                    cnt.fail("C05", "repeat-differs", &fi.path, rq, "");
                    break;
                }
            }
            // shape == shape_with_plan(plan of guessed properties)
            let wp = catch(std::panic::AssertUnwindSafe(|| {
                let mut b = fill(rq, UnicodeBuffer::new());
                b.guess_segment_properties();
                let feats = features_of(rq);
                let plan = rustybuzz::ShapePlan::new(&face, b.direction(), Some(b.script()), b.language().as_ref(), &feats);
                let gb = rustybuzz::shape_with_plan(&face, &plan, b);
                collect(&face, &gb)
            }));
            if let Ok(w) = wp {
                if w != fresh {
                    cnt.fail("C05", "shape-vs-shape_with_plan", &fi.path, rq, &format!("shape={} with_plan={}", fmt_g(&fresh[..fresh.len().min(12)]), fmt_g(&w[..w.len().min(12)])));
                    break;
                }
            }
            // the same plan, but the buffer handed to shape_with_plan has NOT been guessed by the caller (direction, script
            // and language still unset where the request leaves them unset): shape_with_plan guesses them itself
            let wp2 = catch(std::panic::AssertUnwindSafe(|| {
                let mut probe = fill(rq, UnicodeBuffer::new());
                probe.guess_segment_properties();
                let feats = features_of(rq);
                let plan = rustybuzz::ShapePlan::new(&face, probe.direction(), Some(probe.script()), probe.language().as_ref(), &feats);
                let gb = rustybuzz::shape_with_plan(&face, &plan, fill(rq, UnicodeBuffer::new()));
                collect(&face, &gb)
            }));
            if let Ok(w) = wp2 {
                if w != fresh {
                    cnt.fail("C05", "shape-vs-shape_with_plan-unguessed-buffer", &fi.path, rq, &format!("shape={} with_plan={}", fmt_g(&fresh[..fresh.len().min(12)]), fmt_g(&w[..w.len().min(12)])));
                    break;
                }
            }
        }
    }
    // (a2) one buffer recycled ACROSS faces: every step may use another font; nothing a face-specific call
    //      leaves in the buffer (a cached glyph id, a property derived from the font) may reach the next call
    for i in 0..(n / 2).max(8) {
        let steps = r.range(2, 5) as usize;
        let mut plan: Vec<(&FontInfo, Req)> = Vec::new();
        for _ in 0..steps {
            let fi = match r.below(8) {
                0 => &alias,
                1 => &randf,
                _ => &fonts[r.below(fonts.len() as u64) as usize],
            };
            let mut rq = gen_req_s(r, fi, 12);
            // default ignorables in most texts (hidden with a glyph of the face, or removed)
            if !rq.text.is_empty() && r.chance(3, 4) {
                let at = r.below(rq.text.len() as u64 + 1) as usize;
                let cl = if at < rq.text.len() { rq.text[at].1 } else { rq.text[rq.text.len() - 1].1 };
                rq.text.insert(at, (*r.pick(&[0x00ADu32, 0x200C, 0x200D, 0x034F, 0x2060, 0x200B]), cl));
            }
            plan.push((fi, rq));
        }
        trace(tr, &format!("cross-face {} history of {}", i, plan.len()));
        let faces: Vec<Option<Face>> = plan.iter().map(|(fi, _)| Face::from_slice(&fi.data, 0)).collect();
        if faces.iter().any(|f| f.is_none()) {
            continue;
        }
        let res = catch(std::panic::AssertUnwindSafe(|| {
            let mut ub = UnicodeBuffer::new();
            let mut outs = Vec::new();
            for (k, (_, rq)) in plan.iter().enumerate() {
                let face = faces[k].as_ref().unwrap();
                ub = fill(rq, ub);
                let feats = features_of(rq);
                let gb = rustybuzz::shape(face, &feats, ub);
                outs.push(collect(face, &gb));
                ub = gb.clear();
            }
            outs
        }));
        let Ok(outs) = res else { continue };
        for (k, (fi, rq)) in plan.iter().enumerate() {
            cnt.evals += 1;
            let face = faces[k].as_ref().unwrap();
            let fresh = catch(std::panic::AssertUnwindSafe(|| shape_req(face, rq)));
            let Ok(fresh) = fresh else { continue };
            if k > 0 {
                cnt.nontrivial += 1;
            }
            if fresh != outs[k] {
                let hist: Vec<String> = plan[..k].iter().map(|(f, q)| format!("{}:n={}", f.path.rsplit('/').next().unwrap_or(""), q.text.len())).collect();
                cnt.fail("C05", "recycled-across-faces-differs", &fi.path, rq, &format!("step={} history=[{}] fresh={} recycled={}", k, hist.join(","), fmt_g(&fresh[..fresh.len().min(8)]), fmt_g(&outs[k][..outs[k].len().min(8)])));
                break;
            }
        }
        cnt.bump("cross_face_histories");
    }
    // (a3) contexts along a history, on every font that maps a dual-joining letter of a joining script: a step WITH
    //      pre-/post-context followed by steps WITHOUT (text through push_str, which does not touch the contexts)
    for fi in fonts.iter() {
        let Some(face) = Face::from_slice(&fi.data, 0) else { continue };
        for c in [0x0628u32, 0x0644, 0x0712, 0x07CA, 0x1820, 0x1E922, 0x0840] {
            if !fi.chars.contains(&c) {
                continue;
            }
            let mk = |n: usize, pre: bool, post: bool| Req { text: (0..n).map(|i| (c, i as u32)).collect(), pre: if pre { vec![c] } else { vec![] }, post: if post { vec![c] } else { vec![] }, flags: 0, ..Default::default() };
            let reqs = vec![mk(2, true, true), mk(2, false, false), mk(1, true, false), mk(1, false, false), mk(3, false, true), mk(2, false, false)];
          // two histories: contexts set at most once per step; and the caller changing its mind within a step
          for twice in [false, true] {
            let res = catch(std::panic::AssertUnwindSafe(|| {
                let mut ub = UnicodeBuffer::new();
                let mut outs = Vec::new();
                for rq in reqs.iter() {
                    // the caller changes its mind: a longer context first, then the real one (also the empty one) - only the
                    // last call counts
                    if twice {
                        let long: String = std::iter::repeat(char::from_u32(c).unwrap()).take(4).collect();
                        ub.set_pre_context(&long);
                        ub.set_post_context(&long);
                        let pre: String = rq.pre.iter().filter_map(|x| char::from_u32(*x)).collect();
                        let post: String = rq.post.iter().filter_map(|x| char::from_u32(*x)).collect();
                        ub.set_pre_context(&pre);
                        ub.set_post_context(&post);
                    }
                    ub = fill_push_str(rq, ub);
                    let gb = rustybuzz::shape(&face, &[], ub);
                    outs.push(collect(&face, &gb));
                    ub = gb.clear();
                }
                outs
            }));
            let Ok(outs) = res else { continue };
            for (k, rq) in reqs.iter().enumerate() {
                cnt.evals += 1;
                cnt.nontrivial += 1;
                let fresh = catch(std::panic::AssertUnwindSafe(|| {
                    let gb = rustybuzz::shape(&face, &[], fill_push_str(rq, UnicodeBuffer::new()));
                    collect(&face, &gb)
                }));
                if let Ok(f) = fresh {
                    if f != outs[k] {
                        cnt.fail("C05", "recycled-buffer-keeps-context", &fi.path, rq, &format!("step={} of the context history on U+{:04X} (contexts set twice per step: {}) fresh={} recycled={}", k, c, twice, fmt_g(&f), fmt_g(&outs[k])));
                        break;
                    }
                }
            }
            cnt.bump("context_histories");
          }
        }
    }
    // (a4) a buffer filled in steps with guess_segment_properties() called in between, while it holds only script-neutral
    //      characters (or nothing): the guess finds no script then, and shape() guesses again over the full text - the
    //      result is that of a buffer filled in one go with the same direction
    for (k, fi) in fonts.iter().filter(|f| f.chars.iter().any(|c| (0x0621..=0x064A).contains(c) || (0x05D0..=0x05EA).contains(c) || (0x0905..=0x0939).contains(c) || (0xAC00..=0xD7A3).contains(c))).take(if n > 100 { 60 } else { 16 }).enumerate() {
        let Some(face) = Face::from_slice(&fi.data, 0) else { continue };
        let strong: Vec<u32> = fi.chars.iter().cloned().filter(|c| (0x0621..=0x064A).contains(c) || (0x05D0..=0x05EA).contains(c) || (0x0905..=0x0939).contains(c) || (0xAC00..=0xD7A3).contains(c)).take(40).collect();
        for j in 0..4usize {
            let prefix: String = ["", "1.", "12 ", "(3) "][(k + j) % 4].to_string();
            let body: String = (0..3 + j).map(|i| char::from_u32(strong[(k * 7 + i * 3 + j) % strong.len()]).unwrap()).collect();
            let res = catch(std::panic::AssertUnwindSafe(|| {
                let mut a = UnicodeBuffer::new();
                a.push_str(&prefix);
                a.guess_segment_properties();
                let dir = a.direction();
                a.push_str(&body);
                let ga = rustybuzz::shape(&face, &[], a);
                let mut b = UnicodeBuffer::new();
                b.push_str(&prefix);
                b.push_str(&body);
                b.set_direction(dir);
                let gb = rustybuzz::shape(&face, &[], b);
                (collect(&face, &ga), collect(&face, &gb))
            }));
            cnt.evals += 1;
            cnt.bump("guess_between_fills_cases");
            if let Ok((x, y)) = res {
                if x != y {
                    let rq = Req { text: prefix.chars().chain(body.chars()).enumerate().map(|(i, c)| (c as u32, i as u32)).collect(), ..Default::default() };
                    cnt.fail("C05", "guess-between-fills-differs", &fi.path, &rq, &format!("prefix={:?} stepwise={} at_once={}", prefix, fmt_g(&x[..x.len().min(10)]), fmt_g(&y[..y.len().min(10)])));
                }
            }
        }
    }
    // (b) threads sharing Face and ShapePlan
    let nthreads = 8;
    // variable fonts of the corpus: shaped at a non-default instance in every fourth round (variation deltas of advances
    // and anchors are computed per call from the shared Face)
    let varfonts: Vec<&FontInfo> = fonts.iter().filter(|f| Face::from_slice(&f.data, 0).map(|x| x.is_variable()).unwrap_or(false)).collect();
    for round in 0..(n / 20).max(4) {
        let variable = round % 4 == 1 && !varfonts.is_empty();
        let fi = if variable { varfonts[r.below(varfonts.len() as u64) as usize] } else if round % 3 == 2 { &randf } else { &fonts[r.below(fonts.len() as u64) as usize] };
        let Some(mut face) = Face::from_slice(&fi.data, 0) else { continue };
        if variable {
            let vars: Vec<rustybuzz::Variation> = face.variation_axes().into_iter().enumerate().map(|(k, a)| rustybuzz::Variation { tag: a.tag, value: if k % 2 == 0 { a.max_value } else { a.min_value + (a.max_value - a.min_value) * 0.3 } }).collect();
            face.set_variations(&vars);
            cnt.bump("thread_rounds_on_a_variable_instance");
        }
        let face = face;
        // texts sharing one plan: same direction/script/features
        let dir = *r.pick(&[Direction::LeftToRight, Direction::RightToLeft]);
        let mut reqs: Vec<Req> = Vec::new();
        for _ in 0..24 {
            let mut rq = gen_req(r, fi, 16);
            rq.dir = Some(dir);
            rq.features = vec![];
            rq.lang = None;
            reqs.push(rq);
        }
        let script = {
            let mut b = fill(&reqs[0], UnicodeBuffer::new());
            b.guess_segment_properties();
            b.script()
        };
        trace(tr, &format!("threads {} {}", round, fi.path));
        let res = catch(std::panic::AssertUnwindSafe(|| {
            let plan = rustybuzz::ShapePlan::new(&face, dir, Some(script), None, &[]);
            let run_one = |rq: &Req| -> Vec<G> {
                let mut b = fill(rq, UnicodeBuffer::new());
                b.set_script(script);
                let gb = rustybuzz::shape_with_plan(&face, &plan, b);
                collect(&face, &gb)
            };
            let seq: Vec<Vec<G>> = reqs.iter().map(|q| run_one(q)).collect();
            let mut par: Vec<Vec<Vec<G>>> = Vec::new();
            std::thread::scope(|s| {
                let hs: Vec<_> = (0..nthreads)
                    .map(|t| {
                        let reqs = &reqs;
                        let run_one = &run_one;
                        s.spawn(move || {
                            // each thread walks the list from a different offset, repeatedly
                            let mut o = vec![Vec::new(); reqs.len()];
                            for rep in 0..3 {
                                for k in 0..reqs.len() {
                                    let j = (k + t * 5 + rep) % reqs.len();
                                    o[j] = run_one(&reqs[j]);
                                }
                            }
                            o
                        })
                    })
                    .collect();
                for h in hs {
                    par.push(h.join().unwrap());
                }
            });
            (seq, par)
        }));
        if let Ok((seq, par)) = res {
            for p in &par {
                cnt.evals += reqs.len() as u64;
                cnt.nontrivial += reqs.len() as u64;
                if *p != seq {
                    cnt.fail("C05", "threaded-result-differs", &fi.path, &reqs[0], "");
                    break;
                }
            }
            cnt.bump("thread_rounds");
        }
    }
    cnt.summary("C05");
}

// ------------------------------------------------------------------------------------------ C01

pub fn check_c01(path: &str, data: &[u8], req: &Req, cnt: &mut Counters) {
    cnt.evals += 1;
    let d = data.to_vec();
    let rq = req.clone();
    let res = catch_loc(move || {
        let Some(f) = Face::from_slice(&d, 0) else { return None };
        let b = fill(&rq, UnicodeBuffer::new());
        let feats = features_of(&rq);
        let gb = rustybuzz::shape(&f, &feats, b);
        let s1 = gb.serialize(&f, rustybuzz::SerializeFlags::default());
        let s2 = gb.serialize(&f, rustybuzz::SerializeFlags::all());
        Some((gb.len(), s1.len() + s2.len()))
    });
    match res {
        Err(class) if path.starts_with("generated:") && req.text.len() > 64 => {
            // generated adversarial cases are identified by their name and length, not by the text
            cnt.fail("C01", &format!("panic-{}", class), path, &Req { text: vec![], ..req.clone() }, &format!("n={}", req.text.len()))
        }
        Err(class) => cnt.fail("C01", &format!("panic-{}", class), path, req, ""),
        Ok(None) => cnt.bump("face_rejected"),
        Ok(Some((n_out, _))) => {
            cnt.extra.insert("last_out_len".to_string(), n_out as u64);
            let n = req.text.len();
            let bound = std::cmp::max(64 * n, 16384);
            if n_out > bound {
                cnt.fail("C01", "length-bound", path, req, &format!("out={} bound={}", n_out, bound));
            }
            if n_out != n {
                cnt.nontrivial += 1;
            }
        }
    }
}

fn c01(r: &mut Rng, fonts: &[FontInfo], n: u64, tr: &mut Option<std::fs::File>, args: &[String]) {
    let mut cnt = Counters::default();
    let mutated_share = arg_u64(args, "--mutated", 30); // percent
    let langs = ["a-é", "é", "x-hbot", "x-hbsc-", "zz-", "-", "en-", "en--us", "\u{1F600}", "x-hbotABCD", "aaaaaaaaaaaaaaaaaaaaaaaaaaaaaaaaaaaaaaaaaaaaaaaaa", "zh-\u{4E2D}", "e\u{301}-x"];
    // dedicated pass: every AAT font, every ordered pair of (up to six of) its letters repeated 70 and 150 times: state
    // machines keep per-text stacks (ligature components, marks) of fixed capacity that only a long text fills
    for fi in fonts.iter().filter(|f| f.has_morx) {
        let mut letters: Vec<u32> = fi.chars.iter().cloned().filter(|c| (0x61..=0x7A).contains(c) || (0x41..=0x5A).contains(c)).take(6).collect();
        if letters.len() < 2 {
            letters = fi.chars.iter().cloned().take(4).collect();
        }
        for a in &letters {
            for b in &letters {
                for k in [70usize, 150] {
                    let text: Vec<(u32, u32)> = (0..2 * k).map(|j| (if j % 2 == 0 { *a } else { *b }, j as u32)).collect();
                    let req = Req { text, flags: 3, ..Default::default() };
                    trace(tr, &format!("pairs {} [n={}]", fi.path, req.text.len()));
                    check_c01(&fi.path, &fi.data, &req, &mut cnt);
                    cnt.bump("aat_repeated_pair_cases");
                }
            }
        }
    }
    for i in 0..n {
        let fi = &fonts[r.below(fonts.len() as u64) as usize];
        let mut req = gen_req_s(r, fi, 40);
        // cluster values at the top of the 32-bit range now and then (non-decreasing numbering kept)
        if r.chance(1, 12) && !req.text.is_empty() {
            let n = req.text.len();
            let k = 1 + r.below(n.min(3) as u64) as usize;
            for j in 0..k {
                req.text[n - 1 - j].1 = u32::MAX - j as u32;
            }
        }
        match r.below(16) {
            0 => req.lang = Some((*r.pick(&langs)).to_string()),
            1 => {
                // degenerate texts: all the same mark-ish char / very long
                let c = *r.pick(&fi.chars);
                let k = *r.pick(&[200usize, 1000, 5000]);
                req.text = (0..k).map(|j| (c, j as u32)).collect();
            }
            5 | 6 => {
                // a base of a script with a dedicated shaper followed by a long run of one or two of its
                // combining marks (beyond every fixed-size scratch array and sort bound), then more text
                let alpha = *r.pick(&SCRIPT_ALPHABETS);
                let pick = |r: &mut Rng| { let (lo, hi) = *r.pick(alpha); lo + r.below((hi - lo + 1) as u64) as u32 };
                let mut marks: Vec<u32> = (0..64).map(|_| pick(r)).filter(|c| markish(*c)).collect();
                if marks.is_empty() {
                    marks.push(0x0301);
                }
                let base = (0..64).map(|_| pick(r)).find(|c| !markish(*c)).unwrap_or(0x25CC);
                let m1 = *r.pick(&marks);
                let m2 = if r.chance(1, 2) { m1 } else { *r.pick(&marks) };
                let k = *r.pick(&[31usize, 32, 33, 34, 40, 64, 65, 100, 300]);
                let mut t = vec![base];
                for j in 0..k {
                    t.push(if j % 2 == 0 { m1 } else { m2 });
                }
                t.push(base);
                t.push(m1);
                req.text = t.into_iter().enumerate().map(|(j, c)| (c, j as u32)).collect();
            }
            7 => {
                // one syllable of several hundred glyphs: (consonant, virama) x k, consonant [, vowel sign] - the syllabic
                // shapers keep per-glyph positions of a syllable in one byte
                let cands: Vec<&(u32, u32, u32, &str)> = SYL.iter().filter(|x| fi.chars.contains(&x.0)).collect();
                let (c, h, m, sc) = if cands.is_empty() { SYL[0] } else { **r.pick(&cands) };
                let k = *r.pick(&[63usize, 64, 127, 128, 129, 200, 255, 256, 300]);
                let mut t: Vec<u32> = Vec::new();
                for _ in 0..k {
                    t.push(c);
                    t.push(h);
                }
                t.push(c);
                if r.chance(1, 2) {
                    t.push(m);
                }
                req.text = t.into_iter().enumerate().map(|(j, c)| (c, j as u32)).collect();
                req.script = Some(sc.to_string());
                req.dir = None;
            }
            2 => req.features = vec![format!("aalt={}", r.below(80000)), "rand=7".into()],
            3 => req.features = vec![format!("ss01[{}:{}]", r.below(10), r.below(10)), "kern[3:1]=0".into()],
            4 => req.nf_vs = Some(r.below(70000) as u32),
            _ => {}
        }
        let data: Vec<u8> = if r.below(100) < mutated_share {
            // byte-mutated corpus font
            let mut d = fi.data.clone();
            let k = 1 + r.below(6);
            for _ in 0..k {
                let p = r.below(d.len() as u64) as usize;
                d[p] = match r.below(4) { 0 => 0, 1 => 0xFF, 2 => d[p].wrapping_add(1), _ => r.below(256) as u8 };
            }
            cnt.bump("mutated_fonts");
            d
        } else {
            fi.data.clone()
        };
        trace(tr, &format!("{} {} [{}]", i, fi.path, fmt_req(&req)));
        let before = cnt.fails;
        let mutated = data != fi.data;
        // a failure on a byte-mutated font is only replayable with the mutated bytes: dump them first
        let mut path = fi.path.clone();
        if mutated {
            if let Ok(dir) = std::env::var("RBV_DUMP_DIR") {
                let mut h: u64 = 0xcbf29ce484222325;
                for b in &data {
                    h = (h ^ *b as u64).wrapping_mul(0x100000001b3);
                }
                let pth = format!("{}/mutated-{:016x}.ttf", dir, h);
                path = pth;
            }
        }
        check_c01(&path, &data, &req, &mut cnt);
        if cnt.fails > before && mutated && path != fi.path {
            let _ = std::fs::create_dir_all(std::path::Path::new(&path).parent().unwrap());
            let _ = std::fs::write(&path, &data);
        }
    }
    cnt.summary("C01");
}

// ------------------------------------------------------------------------------- C01 adversarial

/// Deterministic adversarial generated fonts: growth bombs, recursion rings, deep contexts,
/// long attachment chains, very long texts.  Each case is traced before it runs so that a process
/// abort (stack exhaustion) or a hang can be attributed by the driver.
fn c01gen(tr: &mut Option<std::fs::File>) {
    use crate::fontgen::*;
    let mut cnt = Counters::default();
    let mut run_case = |name: &str, spec: &FontSpec, req: Req, cnt: &mut Counters, tr: &mut Option<std::fs::File>| {
        let data = build(spec);
        if let Ok(dir) = std::env::var("RBV_DUMP_DIR") {
            let _ = std::fs::create_dir_all(&dir);
            let _ = std::fs::write(format!("{}/generated-{}.ttf", dir, name), &data);
        }
        trace(tr, &format!("c01gen {} n={}", name, req.text.len()));
        let t0 = std::time::Instant::now();
        check_c01(&format!("generated:{}", name), &data, &req, cnt);
        let ms = t0.elapsed().as_millis();
        if ms > 20_000 {
            cnt.fail("C01", "slow", &format!("generated:{}", name), &Req { text: vec![], ..req.clone() }, &format!("ms={} n={}", ms, req.text.len()));
        }
        println!("c01gen-case {} n={} out={} ms={}", name, req.text.len(), cnt.extra.get("last_out_len").copied().unwrap_or(0), ms);
    };
    let text_of = |n: usize, cps: &[u32]| -> Vec<(u32, u32)> { (0..n).map(|i| (cps[i % cps.len()], i as u32)).collect() };
    // 1. growth bomb: 14 lookups, each a -> a a
    {
        let mut f = FontSpec::basic(4);
        let lookups: Vec<Lookup<SubstSubtable>> = (0..14)
            .map(|_| Lookup::one(SubstSubtable::Multiple { coverage: Coverage::Glyphs(vec![1]), sequences: vec![vec![1, 1]] }))
            .collect();
        f.gsub = Some(Layout::single_feature(*b"ccmp", lookups));
        for n in [1usize, 10, 300] {
            run_case("bomb", &f, Req { text: text_of(n, &[pua(0)]), flags: 3, ..Default::default() }, &mut cnt, tr);
        }
    }
    // 2. recursion ring: context lookup 0 applies lookup 0 at position 0; lookup 1 nests 0
    {
        let mut f = FontSpec::basic(4);
        let ring = SubstSubtable::Context3 { coverages: vec![Coverage::Glyphs(vec![1]), Coverage::Glyphs(vec![1])], lookups: vec![SeqLookup { sequence_index: 0, lookup_index: 0 }, SeqLookup { sequence_index: 1, lookup_index: 1 }] };
        let grow = SubstSubtable::Multiple { coverage: Coverage::Glyphs(vec![1]), sequences: vec![vec![1, 1]] };
        f.gsub = Some(Layout::single_feature(*b"ccmp", vec![Lookup::one(ring), Lookup::one(grow)]));
        for n in [2usize, 40, 2000] {
            run_case("ring", &f, Req { text: text_of(n, &[pua(0)]), flags: 3, ..Default::default() }, &mut cnt, tr);
        }
    }
    // 3. chain of 80 nested context lookups (deeper than the nesting limit)
    {
        let mut f = FontSpec::basic(4);
        let mut lookups: Vec<Lookup<SubstSubtable>> = Vec::new();
        for k in 0..80u16 {
            lookups.push(Lookup::one(SubstSubtable::Context3 { coverages: vec![Coverage::Glyphs(vec![1])], lookups: vec![SeqLookup { sequence_index: 0, lookup_index: k + 1 }] }));
        }
        lookups.push(Lookup::one(SubstSubtable::Single2 { coverage: Coverage::Glyphs(vec![1]), substitutes: vec![2] }));
        f.gsub = Some(Layout::single_feature_top(*b"ccmp", 1, lookups));
        run_case("deep-nesting", &f, Req { text: text_of(50, &[pua(0)]), flags: 3, ..Default::default() }, &mut cnt, tr);
    }
    // 3b. fan-out tower: 10 nested context lookups, each calling the next through 64 lookup records
    //     (64^10 nested calls unless the operation budget stops them)
    {
        let mut f = FontSpec::basic(4);
        let mut lookups: Vec<Lookup<SubstSubtable>> = Vec::new();
        for k in 0..10u16 {
            let recs: Vec<SeqLookup> = (0..64).map(|_| SeqLookup { sequence_index: 0, lookup_index: k + 1 }).collect();
            lookups.push(Lookup::one(SubstSubtable::Context3 { coverages: vec![Coverage::Glyphs(vec![1])], lookups: recs }));
        }
        lookups.push(Lookup::one(SubstSubtable::Single2 { coverage: Coverage::Glyphs(vec![3]), substitutes: vec![2] }));
        f.gsub = Some(Layout::single_feature_top(*b"ccmp", 1, lookups));
        run_case("fan-out-tower", &f, Req { text: text_of(4, &[pua(0)]), flags: 3, ..Default::default() }, &mut cnt, tr);
    }
    // 4. cursive chain with the RightToLeft flag (child precedes parent): very long text
    {
        let mut f = FontSpec::basic(4);
        let cur = PosSubtable::Cursive { coverage: Coverage::Glyphs(vec![1]), entry_exit: vec![(Some(Anchor { x: 0, y: 10 }), Some(Anchor { x: 500, y: 30 }))] };
        f.gpos = Some(Layout::single_feature(*b"curs", vec![Lookup::with_flags(1, vec![cur.clone()])]));
        for n in [100usize, 20_000, 200_000] {
            run_case("cursive-rtl-flag", &f, Req { text: text_of(n, &[pua(0)]), flags: 3, ..Default::default() }, &mut cnt, tr);
        }
        f.gpos = Some(Layout::single_feature(*b"curs", vec![Lookup::with_flags(0, vec![cur.clone()])]));
        run_case("cursive", &f, Req { text: text_of(200_000, &[pua(0)]), flags: 3, ..Default::default() }, &mut cnt, tr);
        // two cursive lookups with opposite RightToLeft flags: the second one reverses the chain the first built
        for (fl1, fl2) in [(0u16, 1u16), (1, 0)] {
            f.gpos = Some(Layout::single_feature(*b"curs", vec![Lookup::with_flags(fl1, vec![cur.clone()]), Lookup::with_flags(fl2, vec![cur.clone()])]));
            for n in [50usize, 20_000, 200_000] {
                run_case("cursive-reversed-chain", &f, Req { text: text_of(n, &[pua(0)]), flags: 3, ..Default::default() }, &mut cnt, tr);
                run_case("cursive-reversed-chain-rtl", &f, Req { text: text_of(n, &[pua(0)]), flags: 3, dir: Some(Direction::RightToLeft), ..Default::default() }, &mut cnt, tr);
            }
        }
    }
    // 3c. a lookup deletes every glyph (multiple substitution with an empty sequence) and later lookups of every
    //     kind (forward, reverse chaining, contextual) still run on the emptied buffer
    {
        let mut f = FontSpec::basic(5);
        let del = SubstSubtable::Multiple { coverage: Coverage::Glyphs(vec![1]), sequences: vec![vec![]] };
        let rev = SubstSubtable::ReverseChain { coverage: Coverage::Glyphs(vec![1, 2]), backtrack: vec![], lookahead: vec![], substitutes: vec![3, 3] };
        let single = SubstSubtable::Single2 { coverage: Coverage::Glyphs(vec![1, 2]), substitutes: vec![4, 4] };
        let ctx = SubstSubtable::Context3 { coverages: vec![Coverage::Glyphs(vec![1, 2])], lookups: vec![SeqLookup { sequence_index: 0, lookup_index: 2 }] };
        f.gsub = Some(Layout::single_feature(*b"ccmp", vec![Lookup::one(del), Lookup::one(rev), Lookup::one(single), Lookup::one(ctx)]));
        for cps in [vec![pua(0)], vec![pua(0), pua(0), pua(0), pua(0)], vec![pua(0), pua(1)], vec![pua(1), pua(0)]] {
            let text: Vec<(u32, u32)> = cps.iter().enumerate().map(|(i, c)| (*c, i as u32)).collect();
            run_case("delete-all-then-more-lookups", &f, Req { text: text.clone(), flags: 3, ..Default::default() }, &mut cnt, tr);
            run_case("delete-all-then-more-lookups-rtl", &f, Req { text, flags: 3, dir: Some(Direction::RightToLeft), ..Default::default() }, &mut cnt, tr);
        }
        // the same with GPOS after an emptied buffer
        f.gpos = Some(Layout::single_feature(*b"kern", vec![Lookup::one(PosSubtable::Single1 { coverage: Coverage::Glyphs(vec![1, 2]), value: ValueRecord::xadv(10), vf: ValueFormat::NonZero })]));
        run_case("delete-all-then-gpos", &f, Req { text: text_of(3, &[pua(0)]), flags: 3, ..Default::default() }, &mut cnt, tr);
    }
    // 3d. morx with a feat table and range-restricted user features, cluster values at the very top of the
    //     32-bit range (the per-chain feature ranges must cover every cluster value)
    {
        let mut f = FontSpec::basic(12);
        f.feat = Some(Feat { names: vec![FeatName { feature: 1, settings: vec![2, 3, 4, 5], exclusive: false, default_index: None }, FeatName { feature: 37, settings: vec![0, 1], exclusive: true, default_index: None }] });
        let nonctx = |flags: u32| MorxSubtable { coverage: 0, sub_feature_flags: flags, kind: MorxKind::NonContextual(AatLookup::new(6, (1..6u16).map(|g| (g, g + 5)).collect())) };
        f.morx = Some(Morx { version: 2, chains: vec![MorxChain { default_flags: 0, features: vec![MorxFeature { feature_type: 37, feature_setting: 1, enable_flags: 1, disable_flags: 0xFFFF_FFFF }, MorxFeature { feature_type: 1, feature_setting: 2, enable_flags: 2, disable_flags: 0xFFFF_FFFF }], subtables: vec![nonctx(1), nonctx(2)] }] });
        for feats in [vec!["smcp[1:3]"], vec!["smcp[0:2]", "liga[2:9]"], vec!["smcp[4294967294:4294967295]"], vec!["liga[1:4294967295]", "smcp[3:4]"]] {
            for top in [0u32, 1, 2] {
                // clusters 0,1,2,... with the last `top` ones at u32::MAX - 1, u32::MAX
                let n = 5usize;
                let text: Vec<(u32, u32)> = (0..n).map(|i| (pua(i as u32 % 4), if i + (top as usize) >= n { u32::MAX - (n - 1 - i) as u32 } else { i as u32 })).collect();
                for level in [0u8, 2] {
                    run_case("morx-feat-ranges-top-clusters", &f, Req { text: text.clone(), flags: 3, level, features: feats.iter().map(|x| x.to_string()).collect(), ..Default::default() }, &mut cnt, tr);
                }
            }
        }
    }
    // 3d2. Apple `kern` tables with format-1 STATE MACHINES (written byte by byte: fontgen has no writer for them): random
    //      small machines over one glyph class - entries that push, apply a value list, and do or do not advance, from any
    //      state, the start states included (a non-advancing entry of a start state acts before any glyph is consumed)
    {
        let mut rr = Rng::new(0xA991E);
        for k in 0..160u32 {
            let nstates = 2 + rr.below(3) as u16;
            let nentries = 3 + rr.below(4) as u16;
            const NCLASSES: u16 = 5;
            let class_off = 10u16;
            let state_off = 16u16;
            let mut entry_off = state_off + NCLASSES * nstates;
            if entry_off % 2 == 1 {
                entry_off += 1;
            }
            let value_off = entry_off + 4 * nentries;
            let st = |j: u16| state_off + NCLASSES * j;
            let mut d: Vec<u8> = Vec::new();
            for x in [NCLASSES, class_off, state_off, entry_off, value_off] {
                d.extend_from_slice(&x.to_be_bytes());
            }
            d.extend_from_slice(&1u16.to_be_bytes()); // first glyph
            d.extend_from_slice(&1u16.to_be_bytes()); // number of glyphs
            d.push(4);
            d.push(0);
            for _ in 0..nstates {
                d.extend_from_slice(&[0, 0, 0, 0, 1 + rr.below(nentries as u64 - 1) as u8]);
            }
            while d.len() < entry_off as usize {
                d.push(0);
            }
            // entry 0: back to the start state, advance; the others random
            d.extend_from_slice(&st(0).to_be_bytes());
            d.extend_from_slice(&0u16.to_be_bytes());
            for _ in 1..nentries {
                let flags: u16 = *rr.pick(&[0u16, 0x4000, 0x8000, 0x8000 | value_off, 0xC000, value_off, 0x4000 | value_off]);
                d.extend_from_slice(&st(rr.below(nstates as u64) as u16).to_be_bytes());
                d.extend_from_slice(&flags.to_be_bytes());
            }
            for v in [-40i16, -22, -31] {
                d.extend_from_slice(&v.to_be_bytes());
            }
            let mut t: Vec<u8> = Vec::new();
            t.extend_from_slice(&0x0001_0000u32.to_be_bytes());
            t.extend_from_slice(&1u32.to_be_bytes());
            t.extend_from_slice(&(8 + d.len() as u32).to_be_bytes());
            t.push(if k % 5 == 4 { 0x40 } else { 0 }); // coverage (cross-stream now and then)
            t.push(1); // format 1
            t.extend_from_slice(&0u16.to_be_bytes());
            t.extend_from_slice(&d);
            let mut f = FontSpec::basic(3);
            f.raw_tables = vec![(*b"kern", t)];
            for n in [1usize, 2, 3, 8] {
                for dir in [Direction::LeftToRight, Direction::RightToLeft] {
                    run_case(&format!("apple-kern-state-machine-{}", k), &f, Req { text: text_of(n, &[pua(0)]), flags: 3, dir: Some(dir), level: (k % 3) as u8, ..Default::default() }, &mut cnt, tr);
                }
            }
        }
    }
    // 3e0. a context rule whose records act on a position an EARLIER record of the same rule has deleted (MultipleSubst with
    //      an empty sequence shrinks the buffer but not the list of match positions), with the match at the very end of the
    //      text, in the middle, and repeated
    {
        for dpos in 0..3u16 {
            for (ri, second) in [0u16, 1, 2].iter().enumerate() {
                for (ki, kind) in ["single", "delete", "grow"].iter().enumerate() {
                    let mut f = FontSpec::basic(8);
                    let del = Lookup::one(SubstSubtable::Multiple { coverage: Coverage::Glyphs(vec![1, 2, 3]), sequences: vec![vec![], vec![], vec![]] });
                    let other = match *kind {
                        "single" => Lookup::one(SubstSubtable::Single1 { coverage: Coverage::Glyphs(vec![1, 2, 3]), delta: 3 }),
                        "delete" => del.clone(),
                        _ => Lookup::one(SubstSubtable::Multiple { coverage: Coverage::Glyphs(vec![1, 2, 3]), sequences: vec![vec![4, 4], vec![5, 5], vec![6, 6]] }),
                    };
                    let ctx = SubstSubtable::Context3 { coverages: vec![Coverage::Glyphs(vec![1]), Coverage::Glyphs(vec![2]), Coverage::Glyphs(vec![3])], lookups: vec![SeqLookup { sequence_index: dpos, lookup_index: 1 }, SeqLookup { sequence_index: *second, lookup_index: 2 }, SeqLookup { sequence_index: 2, lookup_index: 2 }] };
                    f.gsub = Some(Layout::single_feature_top(*b"liga", 1, vec![Lookup::one(ctx), del, other]));
                    for gl in [vec![1u32, 2, 3], vec![3, 1, 2, 3], vec![1, 2, 3, 1, 2, 3], vec![1, 2, 3, 3], vec![3, 3, 3, 1, 2, 3]] {
                        let text: Vec<(u32, u32)> = gl.iter().enumerate().map(|(i, g)| (pua(*g - 1), i as u32)).collect();
                        for dir in [Direction::LeftToRight, Direction::RightToLeft] {
                            run_case(&format!("record-on-deleted-position-{}-{}-{}", dpos, ri, ki), &f, Req { text: text.clone(), flags: 3, dir: Some(dir), ..Default::default() }, &mut cnt, tr);
                        }
                    }
                }
            }
        }
    }
    // 3e. attachment lookups nested in a GPOS context whose sequence-lookup records are NOT in ascending order (or repeat):
    //     the nested lookup then runs with the cursor moved BACK, on texts that start with a mark or have marks without
    //     any base in front (the attachment target search must not keep an index from the later position)
    {
        let an = |x: i16, y: i16| Some(Anchor { x, y });
        let nested: Vec<(&str, PosSubtable)> = vec![
            ("markbase", PosSubtable::MarkBase { mark_coverage: Coverage::Glyphs(vec![2]), base_coverage: Coverage::Glyphs(vec![1]), class_count: 1, marks: vec![(0, Anchor { x: 10, y: 20 })], bases: vec![vec![an(300, 400)]] }),
            ("marklig", PosSubtable::MarkLig { mark_coverage: Coverage::Glyphs(vec![2]), lig_coverage: Coverage::Glyphs(vec![3]), class_count: 1, marks: vec![(0, Anchor { x: 10, y: 20 })], ligatures: vec![vec![vec![an(100, 400)], vec![an(500, 400)]]] }),
            ("markmark", PosSubtable::MarkMark { mark1_coverage: Coverage::Glyphs(vec![2]), mark2_coverage: Coverage::Glyphs(vec![2]), class_count: 1, marks: vec![(0, Anchor { x: 10, y: 20 })], mark2s: vec![vec![an(10, 300)]] }),
            ("cursive", PosSubtable::Cursive { coverage: Coverage::Glyphs(vec![1, 2, 3]), entry_exit: vec![(an(0, 10), an(500, 30)), (an(0, 5), an(100, 15)), (an(0, 0), an(600, 50))] }),
        ];
        let orders: [&[u16]; 4] = [&[2, 0], &[1, 0], &[0, 0], &[2, 1, 0, 2]];
        let shapes: [[u16; 3]; 3] = [[2, 1, 2], [1, 2, 2], [2, 2, 1]];
        for (lname, sub) in &nested {
            for (oi, order) in orders.iter().enumerate() {
                for (si, shape) in shapes.iter().enumerate() {
                    let mut f = FontSpec::basic(4);
                    f.gdef = Some(Gdef { glyph_classes: vec![(1, 1), (2, 3), (3, 2)], mark_attach_classes: vec![], mark_glyph_sets: vec![] });
                    // each position also accepts the ligature glyph where it accepts the base
                    let covs: Vec<Coverage> = shape.iter().map(|g| if *g == 1 { Coverage::Glyphs(vec![1, 3]) } else { Coverage::Glyphs(vec![2]) }).collect();
                    let ctx = PosSubtable::Context3 { coverages: covs, lookups: order.iter().map(|i| SeqLookup { sequence_index: *i, lookup_index: 1 }).collect() };
                    f.gpos = Some(Layout::single_feature(*b"mark", vec![Lookup::one(ctx), Lookup::one(sub.clone())]));
                    for code in 0..27u32 {
                        let gl = [code % 3, (code / 3) % 3, code / 9];
                        let text: Vec<(u32, u32)> = gl.iter().enumerate().map(|(i, g)| (pua(*g), i as u32)).collect();
                        for dir in [Direction::LeftToRight, Direction::RightToLeft] {
                            run_case(&format!("gpos-context-records-out-of-order-{}-{}-{}", lname, oi, si), &f, Req { text: text.clone(), flags: 3, dir: Some(dir), ..Default::default() }, &mut cnt, tr);
                        }
                    }
                }
            }
        }
    }
    // 4a. nested ligatures: 15 x a -> L1, then 18 x L1 -> L2 (270 components: beyond every 8-bit counter);
    //     very wide advances (the serializer sums them)
    {
        let mut f = FontSpec::basic(5);
        let l1 = SubstSubtable::Ligature { coverage: Coverage::Glyphs(vec![1]), ligature_sets: vec![vec![crate::fontgen::Ligature { glyph: 2, components: vec![1; 14] }]] };
        let l2 = SubstSubtable::Ligature { coverage: Coverage::Glyphs(vec![2]), ligature_sets: vec![vec![crate::fontgen::Ligature { glyph: 3, components: vec![2; 17] }]] };
        f.gsub = Some(Layout::single_feature(*b"liga", vec![Lookup::one(l1), Lookup::one(l2)]));
        for n in [270usize, 271, 540, 4000] {
            run_case("nested-ligatures", &f, Req { text: text_of(n, &[pua(0)]), flags: 3, ..Default::default() }, &mut cnt, tr);
        }
        let mut w = FontSpec::basic(3);
        w.hadv = vec![65535, 65535, 65535];
        for n in [40_000usize, 70_000] {
            run_case("wide-advances", &w, Req { text: text_of(n, &[pua(0)]), flags: 3, ..Default::default() }, &mut cnt, tr);
            run_case("wide-advances-ttb", &w, Req { text: text_of(n, &[pua(0)]), flags: 3, dir: Some(Direction::TopToBottom), ..Default::default() }, &mut cnt, tr);
        }
    }
    // 4b. two cursive glyphs separated by 32768 / 65536 skipped marks (IgnoreMarks): the parent-child distance
    //     no longer fits the 16-bit attachment chain
    {
        let mut f = FontSpec::basic(4);
        f.gdef = Some(Gdef { glyph_classes: vec![(1, 1), (2, 3)], mark_attach_classes: vec![], mark_glyph_sets: vec![] });
        let cur = PosSubtable::Cursive { coverage: Coverage::Glyphs(vec![1]), entry_exit: vec![(Some(Anchor { x: 0, y: 10 }), Some(Anchor { x: 500, y: 30 }))] };
        for fl in [0x8u16, 0x9] {
            f.gpos = Some(Layout::single_feature(*b"curs", vec![Lookup::with_flags(fl, vec![cur.clone()])]));
            for k in [32767usize, 32768, 65535, 65536] {
                let mut text: Vec<(u32, u32)> = vec![(pua(0), 0)];
                text.extend((0..k).map(|i| (pua(1), 1 + i as u32)));
                text.push((pua(0), 1 + k as u32));
                text.push((pua(0), 2 + k as u32));
                run_case("cursive-far-apart", &f, Req { text, flags: 3, ..Default::default() }, &mut cnt, tr);
            }
        }
    }
    // 4c. Syriac abbreviation mark stretched (stch) over a very long word of very wide letters: the widths
    //     are summed in 32 bits
    {
        let mut f = FontSpec::basic(6);
        f.cmap = vec![(0x070F, 1), (0x0712, 2), (0x0713, 5)];
        f.hadv = vec![500, 300, 65535, 100, 10, 40000];
        let mut l = Layout::single_feature(*b"stch", vec![Lookup::one(SubstSubtable::Multiple { coverage: Coverage::Glyphs(vec![1]), sequences: vec![vec![3, 4, 3]] })]);
        for sc in l.scripts.iter_mut() {
            sc.tag = *b"syrc"; // the Arabic shaper is used for Syriac only when the font has the script
        }
        f.gsub = Some(l);
        for (n, c) in [(8usize, 0x0712u32), (33_000, 0x0712), (70_000, 0x0713), (200_000, 0x0712)] {
            let mut text: Vec<(u32, u32)> = vec![(0x070F, 0)];
            text.extend((0..n).map(|i| (c, 1 + i as u32)));
            run_case("stch-long-word", &f, Req { text: text.clone(), flags: 3, ..Default::default() }, &mut cnt, tr);
            run_case("stch-long-word-ltr", &f, Req { text, flags: 3, dir: Some(Direction::LeftToRight), ..Default::default() }, &mut cnt, tr);
        }
    }
    // 4d. stch with every combination of degenerate tile / word advances (zero-width repeating or fixed
    //     tiles, zero-width words, a word narrower than the tiles): the tile arithmetic divides by the
    //     repeating width and subtracts widths from each other
    {
        let mut l = Layout::single_feature(*b"stch", vec![Lookup::one(SubstSubtable::Multiple { coverage: Coverage::Glyphs(vec![1]), sequences: vec![vec![3, 4, 3]] })]);
        for sc in l.scripts.iter_mut() {
            sc.tag = *b"syrc";
        }
        for fixed in [0u16, 1, 100, 65535] {
            for rep in [0u16, 1, 100, 65535] {
                for word in [0u16, 1, 300, 65535] {
                    let mut f = FontSpec::basic(6);
                    f.cmap = vec![(0x070F, 1), (0x0712, 2), (0x0713, 5)];
                    f.hadv = vec![500, 300, word, fixed, rep, 40000];
                    f.gsub = Some(l.clone());
                    for n in [1usize, 3, 8] {
                        let mut text: Vec<(u32, u32)> = vec![(0x070F, 0)];
                        text.extend((0..n).map(|i| (0x0712, 1 + i as u32)));
                        text.push((0x002E, 1 + n as u32));
                        let nm = format!("stch-tile-advances-f{}-r{}-w{}", fixed, rep, word);
                        run_case(&nm, &f, Req { text: text.clone(), flags: 3, ..Default::default() }, &mut cnt, tr);
                        run_case(&format!("{}-ltr", nm), &f, Req { text, flags: 3, dir: Some(Direction::LeftToRight), ..Default::default() }, &mut cnt, tr);
                    }
                }
            }
        }
        // only repeating tiles, only fixed tiles
        for seq in [vec![4u16, 4, 4], vec![3, 3], vec![4], vec![3, 4]] {
            let mut l2 = Layout::single_feature(*b"stch", vec![Lookup::one(SubstSubtable::Multiple { coverage: Coverage::Glyphs(vec![1]), sequences: vec![seq.clone()] })]);
            for sc in l2.scripts.iter_mut() {
                sc.tag = *b"syrc";
            }
            for rep in [0u16, 7] {
                let mut f = FontSpec::basic(6);
                f.cmap = vec![(0x070F, 1), (0x0712, 2), (0x0713, 5)];
                f.hadv = vec![500, 300, 250, 30, rep, 40000];
                f.gsub = Some(l2.clone());
                let text: Vec<(u32, u32)> = vec![(0x0712, 0), (0x070F, 1), (0x0712, 2), (0x0712, 3), (0x002E, 4)];
                run_case(&format!("stch-tile-kinds-{}-r{}", seq.len() * 10 + seq[0] as usize, rep), &f, Req { text, flags: 3, ..Default::default() }, &mut cnt, tr);
            }
        }
    }
    // 4e. a ligature of N components followed by combining marks on a font WITHOUT GPOS (fallback mark positioning
    //     divides the ligature's width among its components; the component count lives in 4 bits of lig_props, so
    //     N = 16, 32, 48 wrap to 0) - with outlines (glyph extents) and without
    {
        for n in [2usize, 3, 15, 16, 17, 31, 32, 33, 48, 63, 64] {
            for outlines in [false, true] {
                for gdef in [false, true] {
                    let mut f = FontSpec::basic(6);
                    f.cmap = vec![(0x61, 1), (0x62, 4), (0x0301, 3), (0x0323, 5)];
                    f.hadv = vec![500, 600, 1400, 0, 550, 0];
                    if outlines {
                        f.glyf = Some(vec![None, Some([50, 0, 550, 700]), Some([40, -10, 1350, 720]), Some([-300, 600, -100, 780]), Some([0, 0, 500, 500]), Some([-250, -200, -150, -60])]);
                    }
                    if gdef {
                        f.gdef = Some(Gdef { glyph_classes: vec![(1, 1), (2, 2), (3, 3), (4, 1), (5, 3)], mark_attach_classes: vec![], mark_glyph_sets: vec![] });
                    }
                    let lig = SubstSubtable::Ligature { coverage: Coverage::Glyphs(vec![1]), ligature_sets: vec![vec![Ligature { glyph: 2, components: vec![1; n - 1] }]] };
                    // with GDEF the lookup ignores marks, so a mark typed between the components ends up inside the ligature
                    f.gsub = Some(Layout::single_feature(*b"liga", vec![Lookup::with_flags(if gdef { lookup_flags::IGNORE_MARKS } else { 0 }, vec![lig])]));
                    let name = format!("ligature-{}-components-marks{}{}", n, if outlines { "-glyf" } else { "" }, if gdef { "-gdef" } else { "" });
                    for marks in [vec![0x0301u32], vec![0x0301, 0x0323], vec![0x0323, 0x0301, 0x0301]] {
                        for d in [None, Some(Direction::RightToLeft), Some(Direction::TopToBottom)] {
                            let mut text: Vec<(u32, u32)> = (0..n).map(|i| (0x61u32, i as u32)).collect();
                            // a mark in the middle of the components (only when the lookup skips marks) and marks after the last one
                            if gdef {
                                text.insert(n / 2, (0x0301, (n / 2) as u32));
                            }
                            for (j, m) in marks.iter().enumerate() {
                                text.push((*m, (n + j) as u32));
                            }
                            text.push((0x62, (n + 5) as u32));
                            run_case(&name, &f, Req { text, flags: 3, dir: d, ..Default::default() }, &mut cnt, tr);
                        }
                    }
                }
            }
        }
    }
    // 4f. every two- and three-letter language code (the language registry is searched and walked for each; rows at the
    //     ends of the table and languages with several OpenType tags are where an index can run off), with and
    //     without further subtags, through shape() and through ShapePlan::new
    {
        // the font needs layout tables: the language is only translated to OpenType tags for a table that exists
        let mut f = FontSpec::basic(3);
        f.gsub = Some(Layout::single_feature(*b"liga", vec![Lookup::one(SubstSubtable::Single1 { coverage: Coverage::Glyphs(vec![2]), delta: -1 })]));
        f.gpos = Some(Layout::single_feature(*b"kern", vec![Lookup::one(PosSubtable::Single1 { coverage: Coverage::Glyphs(vec![2]), value: ValueRecord::xadv(10), vf: ValueFormat::NonZero })]));
        let data = build(&f);
        if let Ok(dir) = std::env::var("RBV_DUMP_DIR") {
            let _ = std::fs::create_dir_all(&dir);
            let _ = std::fs::write(format!("{}/generated-language-sweep.ttf", dir), &data);
        }
        let mut codes: Vec<String> = Vec::new();
        for a in b'a'..=b'z' {
            for b2 in b'a'..=b'z' {
                codes.push(format!("{}{}", a as char, b2 as char));
                for c in b'a'..=b'z' {
                    codes.push(format!("{}{}{}", a as char, b2 as char, c as char));
                }
            }
        }
        let mut bad = 0u32;
        for (k, code) in codes.iter().enumerate() {
            // the plain code always, plus one rotating decorated form
            let mut variants: Vec<String> = vec![code.clone()];
            variants.push(match k % 5 { 0 => code.to_uppercase(), 1 => format!("{}-CN", code), 2 => format!("{}-x-foo", code), 3 => format!("{}-Latn-ZZ-fonipa", code), _ => format!("x-hbot-{}", code) });
            for lang in variants {
                let d = data.clone();
                let l2 = lang.clone();
                let r = catch_loc(move || {
                    let face = Face::from_slice(&d, 0).unwrap();
                    let rq = Req { text: vec![(pua(0), 0)], lang: Some(l2.clone()), flags: 3, ..Default::default() };
                    let out = shape_req(&face, &rq);
                    let language = <rustybuzz::Language as std::str::FromStr>::from_str(&l2).ok();
                    let plan = rustybuzz::ShapePlan::new(&face, Direction::LeftToRight, Some(rustybuzz::script::LATIN), language.as_ref(), &[]);
                    let mut b = UnicodeBuffer::new();
                    b.push_str("a");
                    b.set_direction(Direction::LeftToRight);
                    b.set_script(rustybuzz::script::LATIN);
                    if let Some(l) = language {
                        b.set_language(l);
                    }
                    let gb = rustybuzz::shape_with_plan(&face, &plan, b);
                    out.len() + gb.len()
                });
                cnt.evals += 1;
                if let Err(e) = r {
                    bad += 1;
                    if bad <= 5 {
                        cnt.fail("C01", "panic", "generated:language-sweep", &Req { text: vec![(pua(0), 0)], lang: Some(lang.clone()), flags: 3, ..Default::default() }, &format!("language {} {}", lang, e));
                    }
                }
            }
        }
        println!("c01gen-case language-sweep n={} out=0 ms=0", codes.len());
    }
    // 4g. pre-/post-contexts longer than the five characters a buffer keeps, made of joining-transparent marks (the
    //     joining pass walks the context until it meets a non-transparent character), for the scripts of the Arabic shaper
    {
        let mut f = FontSpec::basic(6);
        f.cmap = vec![(0x0628, 1), (0x064E, 2), (0x0712, 3), (0x0730, 4), (0x0640, 5)];
        let data_spec = f.clone();
        for (letter, mark, script) in [(0x0628u32, 0x064Eu32, "Arab"), (0x0712, 0x0730, "Syrc")] {
            for n in [1usize, 4, 5, 6, 7, 12, 40] {
                for with_letter in [false, true] {
                    let mut ctx: Vec<u32> = vec![mark; n];
                    if with_letter {
                        ctx.insert(0, letter);
                    }
                    let mut rev = ctx.clone();
                    rev.reverse();
                    let text: Vec<(u32, u32)> = vec![(letter, 0), (mark, 1), (letter, 2)];
                    run_case(&format!("long-transparent-context-{}-{}", script, n), &data_spec, Req { text: text.clone(), pre: ctx.clone(), post: rev, script: Some(script.to_string()), flags: 0, ..Default::default() }, &mut cnt, tr);
                    run_case(&format!("long-transparent-precontext-{}-{}", script, n), &data_spec, Req { text, pre: ctx, script: Some(script.to_string()), dir: Some(Direction::LeftToRight), flags: 0, ..Default::default() }, &mut cnt, tr);
                }
            }
        }
    }
    // 5. one base followed by 70000 marks attached by mark-to-base and mark-to-mark
    {
        let mut f = FontSpec::basic(4);
        f.gdef = Some(Gdef { glyph_classes: vec![(1, 1), (2, 3)], mark_attach_classes: vec![], mark_glyph_sets: vec![] });
        let mb = PosSubtable::MarkBase { mark_coverage: Coverage::Glyphs(vec![2]), base_coverage: Coverage::Glyphs(vec![1]), class_count: 1, marks: vec![(0, Anchor { x: 0, y: 0 })], bases: vec![vec![Some(Anchor { x: 200, y: 700 })]] };
        let mm = PosSubtable::MarkMark { mark1_coverage: Coverage::Glyphs(vec![2]), mark2_coverage: Coverage::Glyphs(vec![2]), class_count: 1, marks: vec![(0, Anchor { x: 0, y: 0 })], mark2s: vec![vec![Some(Anchor { x: 0, y: 200 })]] };
        f.gpos = Some(Layout::with_features(vec![(*b"mark", vec![0]), (*b"mkmk", vec![1])], vec![Lookup::one(mb), Lookup::one(mm)]));
        let mut text = vec![(pua(0), 0u32)];
        for i in 0..70_000u32 {
            text.push((pua(1), i + 1));
        }
        run_case("marks-70000", &f, Req { text, flags: 3, ..Default::default() }, &mut cnt, tr);
    }
    // 6. very long plain texts, all directions
    {
        let f = FontSpec::basic(8).with_basic_vmetrics();
        for d in DIRS {
            run_case("long-plain", &f, Req { text: text_of(120_000, &[pua(0), pua(1), pua(2), 0x20, 0x301]), dir: Some(d), flags: 3, ..Default::default() }, &mut cnt, tr);
        }
    }
    // 7. morx insertion machine that inserts on every glyph without advancing
    {
        let mut f = FontSpec::basic(6);
        let table = StateTable {
            n_classes: 5,
            class_lookup: AatLookup::new(6, vec![(1, 4)]),
            states: vec![vec![0, 0, 0, 0, 1], vec![0, 0, 0, 0, 1]],
            entries: vec![
                InsEntry { new_state: 0, flags: 0, current_insert_index: 0xFFFF, marked_insert_index: 0xFFFF },
                InsEntry { new_state: 0, flags: 0x4000 | (2 << 5), current_insert_index: 0, marked_insert_index: 0xFFFF },
            ],
        };
        f.morx = Some(Morx { version: 2, chains: vec![MorxChain { default_flags: 1, features: vec![], subtables: vec![MorxSubtable { coverage: 0, sub_feature_flags: 1, kind: MorxKind::Insertion { table, glyphs: vec![1, 1] } }] }] });
        for n in [3usize, 200] {
            run_case("morx-insert-loop", &f, Req { text: text_of(n, &[pua(0)]), flags: 3, ..Default::default() }, &mut cnt, tr);
        }
    }
    cnt.summary("C01");
}
