//! Small-alphabet generated fonts for the glyph-flag properties (C03 unsafe-to-break, C04 unsafe-to-concat).
//! The corpus fonts are produced by font compilers and never contain the table shapes in which a flag range
//! is easy to get wrong: value records that are non-empty but have no effect in the run direction, pairs
//! found through a zero-valued class record, contextual lookups whose nested MultipleSubst makes the
//! out-buffer run ahead of the in-buffer, several matches of one lookup in one pass.  Two families:
//!   pairs  — GPOS PairPos format 1/2, records drawn from {empty, x-advance, y-advance, placement, device-only};
//!   chains — GSUB (chain) context formats 1/2/3 with backtrack/lookahead, nested single/multiple/ligature.
//! Alphabets are 4-5 glyphs so that random texts of 2..8 characters match often and more than once.
use crate::fontgen::*;
use crate::shp::Req;
use crate::util::Rng;
use rustybuzz::Direction;

pub const FAMILIES: [&str; 3] = ["pairs", "chains", "hangul"];

fn rng_for(seed: u64, k: u64) -> Rng {
    Rng::new(seed.wrapping_mul(0x9E37_79B9_7F4A_7C15).wrapping_add(k.wrapping_mul(0xD1B5_4A32_D192_ED03)).wrapping_add(0xF1A6))
}

pub fn family_of(k: u64) -> &'static str {
    if k % 5 == 4 { "hangul" } else { FAMILIES[(k % 2) as usize] }
}

pub fn gen_font(seed: u64, k: u64) -> FontSpec {
    let mut r = rng_for(seed, k);
    match family_of(k) {
        "pairs" => fam_pairs(&mut r),
        "hangul" => fam_hangul(&mut r),
        _ => {
            // the context fonts also map ZERO WIDTH NON-JOINER (to the filler glyph): context matching steps over a
            // default-ignorable character, so a rule's input, backtrack or lookahead can span one
            let mut s = fam_chains(&mut r);
            s.cmap.insert(0, (0x200C, 5));
            s
        }
    }
}

fn cov(mut gs: Vec<u16>, r: &mut Rng) -> Coverage {
    gs.sort();
    gs.dedup();
    if r.chance(1, 3) {
        let mut rs: Vec<(u16, u16)> = Vec::new();
        for g in gs {
            if let Some(l) = rs.last_mut() {
                if l.1 + 1 == g {
                    l.1 = g;
                    continue;
                }
            }
            rs.push((g, g));
        }
        Coverage::Ranges(rs)
    } else {
        Coverage::Glyphs(gs)
    }
}

fn subset(r: &mut Rng, lo: u16, hi: u16, num: u64, den: u64) -> Vec<u16> {
    let mut v: Vec<u16> = (lo..=hi).filter(|_| r.chance(num, den)).collect();
    if v.is_empty() {
        v.push(r.range(lo as u64, hi as u64) as u16);
    }
    v
}

// ------------------------------------------------------------------------------------------ pairs

const P_NG: u16 = 8; // glyphs 1..=5 letters, 6 and 7 marks (when GDEF says so)

fn amount(r: &mut Rng) -> i16 {
    let v = r.range(10, 120) as i16;
    if r.chance(1, 2) { -v } else { v }
}

/// A value record that is empty, or touches exactly one axis, or carries only a device table (no effect
/// without ppem), or is general.
fn axis_record(r: &mut Rng) -> ValueRecord {
    match r.below(10) {
        0 | 1 => ValueRecord::ZERO,
        2 | 3 => ValueRecord::xadv(amount(r)),
        4 | 5 => ValueRecord::new(0, 0, 0, amount(r)),
        6 => ValueRecord::new(amount(r), 0, 0, 0),
        7 => ValueRecord::new(0, amount(r), 0, 0),
        8 => {
            let mut v = ValueRecord::ZERO;
            v.devices[r.below(4) as usize] = Some(DeviceSpec { start_size: 9, end_size: 14, delta: 3 });
            v
        }
        _ => ValueRecord::new(amount(r), amount(r), amount(r), amount(r)),
    }
}

fn pair_subtable(r: &mut Rng) -> PosSubtable {
    let firsts = subset(r, 1, 5, 1, 2);
    if r.chance(1, 2) {
        let mut sets = Vec::new();
        for _ in &firsts {
            let seconds = subset(r, 1, 7, 1, 2);
            sets.push(seconds.iter().map(|g| (*g, axis_record(r), axis_record(r))).collect::<Vec<_>>());
        }
        PosSubtable::Pair1 { coverage: cov(firsts, r), pair_sets: sets, vf: if r.chance(1, 3) { ValueFormat::All } else { ValueFormat::NonZero } }
    } else {
        let n1 = r.range(1, 2) as u16;
        let n2 = r.range(1, 2) as u16;
        let cd = |r: &mut Rng, n: u16| -> ClassDef {
            let pairs: Vec<(u16, u16)> = (1..P_NG).filter_map(|g| { let c = r.below(n as u64 + 1) as u16; if c == 0 { None } else { Some((g, c)) } }).collect();
            ClassDef::from_pairs(&pairs)
        };
        let class_def1 = cd(r, n1);
        let class_def2 = cd(r, n2);
        // class 0 rows/columns are part of the matrix
        let records: Vec<Vec<(ValueRecord, ValueRecord)>> = (0..=n1).map(|_| (0..=n2).map(|_| (axis_record(r), axis_record(r))).collect()).collect();
        PosSubtable::Pair2 { coverage: cov(firsts, r), class_def1, class_def2, records, vf: if r.chance(1, 3) { ValueFormat::All } else { ValueFormat::NonZero } }
    }
}

fn fam_pairs(r: &mut Rng) -> FontSpec {
    let mut spec = FontSpec::basic(P_NG);
    if r.chance(1, 2) {
        spec = spec.with_basic_vmetrics();
    }
    if r.chance(1, 2) {
        spec.gdef = Some(Gdef { glyph_classes: vec![(1, 1), (2, 1), (3, 1), (4, 1), (5, 1), (6, 3), (7, 3)], mark_attach_classes: vec![], mark_glyph_sets: vec![] });
        spec.hadv[6] = 0;
        spec.hadv[7] = 0;
    }
    let nl = r.range(1, 2) as usize;
    let lookups: Vec<Lookup<PosSubtable>> = (0..nl)
        .map(|_| {
            let nst = r.range(1, 3) as usize;
            let mut l = Lookup::new((0..nst).map(|_| pair_subtable(r)).collect());
            if r.chance(1, 4) {
                l.flags |= lookup_flags::IGNORE_MARKS;
            }
            l
        })
        .collect();
    let tag = if r.chance(3, 4) { *b"kern" } else { *b"dist" };
    spec.gpos = Some(Layout::single_feature(tag, lookups));
    spec
}

// ------------------------------------------------------------------------------------------ chains

const C_NG: u16 = 13; // glyphs 1..=4 alphabet (a b c d), 5 a mark-like filler, 6..=12 outputs
const C_ALPHA: u16 = 4;

fn alpha(r: &mut Rng) -> u16 {
    r.range(1, C_ALPHA as u64) as u16
}

fn alpha_seq(r: &mut Rng, lo: u64, hi: u64) -> Vec<u16> {
    let k = r.range(lo, hi);
    (0..k).map(|_| alpha(r)).collect()
}

fn out_glyph(r: &mut Rng) -> u16 {
    if r.chance(1, 4) { alpha(r) } else { r.range(6, C_NG as u64 - 1) as u16 }
}

fn ctx_len(r: &mut Rng) -> u64 {
    match r.below(10) { 0..=3 => 0, 4..=7 => 1, _ => 2 }
}

fn nested(r: &mut Rng) -> Lookup<SubstSubtable> {
    let covered: Vec<u16> = { let mut v = subset(r, 1, C_ALPHA, 2, 3); if r.chance(1, 3) { v.push(r.range(6, C_NG as u64 - 1) as u16); } v.sort(); v.dedup(); v };
    let n = covered.len();
    let st = match r.below(10) {
        0..=2 => SubstSubtable::Single2 { coverage: cov(covered, r), substitutes: (0..n).map(|_| out_glyph(r)).collect() },
        3..=6 => SubstSubtable::Multiple {
            coverage: cov(covered, r),
            sequences: (0..n).map(|_| { let k = match r.below(8) { 0 => 0, 1 => 1, 2..=4 => 2, 5 | 6 => 3, _ => 4 }; (0..k).map(|_| out_glyph(r)).collect() }).collect(),
        },
        _ => SubstSubtable::Ligature {
            coverage: cov(covered, r),
            ligature_sets: (0..n)
                .map(|_| { let m = r.range(1, 2); (0..m).map(|_| Ligature { glyph: out_glyph(r), components: alpha_seq(r, 1, 2) }).collect() })
                .collect(),
        },
    };
    Lookup::one(st)
}

fn records(r: &mut Rng, input_len: usize, nested_lo: usize, nested_n: usize) -> Vec<SeqLookup> {
    let k = match r.below(6) { 0 => 0, 1..=3 => 1, _ => 2 };
    (0..k).map(|_| SeqLookup { sequence_index: r.below(input_len as u64) as u16, lookup_index: (nested_lo + r.below(nested_n as u64) as usize) as u16 }).collect()
}

fn identity_classes() -> ClassDef {
    ClassDef::Format1 { start: 1, classes: (1..=C_ALPHA).collect() }
}

fn contextual(r: &mut Rng, nested_lo: usize, nested_n: usize) -> Lookup<SubstSubtable> {
    let chain = r.chance(3, 4);
    let format = r.range(1, 3);
    let nst = r.range(1, 2) as usize;
    let subtables: Vec<SubstSubtable> = (0..nst)
        .map(|_| match (chain, format) {
            (true, 1) => {
                let firsts = subset(r, 1, C_ALPHA, 1, 2);
                let rule_sets = firsts.iter().map(|_| {
                    let m = r.range(1, 2);
                    (0..m).map(|_| { let input = alpha_seq(r, 0, 2); let il = input.len() + 1;
                        ChainRule { backtrack: (0..ctx_len(r)).map(|_| alpha(r)).collect(), input, lookahead: (0..ctx_len(r)).map(|_| alpha(r)).collect(), lookups: records(r, il, nested_lo, nested_n) } }).collect()
                }).collect();
                SubstSubtable::ChainContext1 { coverage: cov(firsts, r), rule_sets }
            }
            (true, 2) => {
                let firsts = subset(r, 1, C_ALPHA, 2, 3);
                let rule_sets = (0..=C_ALPHA).map(|c| {
                    if c == 0 || r.chance(1, 3) { None } else {
                        let m = r.range(1, 2);
                        Some((0..m).map(|_| { let input = alpha_seq(r, 0, 2); let il = input.len() + 1;
                            ChainRule { backtrack: (0..ctx_len(r)).map(|_| alpha(r)).collect(), input, lookahead: (0..ctx_len(r)).map(|_| alpha(r)).collect(), lookups: records(r, il, nested_lo, nested_n) } }).collect())
                    }
                }).collect();
                SubstSubtable::ChainContext2 { coverage: cov(firsts, r), backtrack_classes: identity_classes(), input_classes: identity_classes(), lookahead_classes: identity_classes(), rule_sets }
            }
            (true, _) => {
                let cv = |r: &mut Rng| { let v = subset(r, 1, C_ALPHA, 1, 3); cov(v, r) };
                let il = r.range(1, 3) as usize;
                let nb = ctx_len(r);
                let nl = ctx_len(r);
                SubstSubtable::ChainContext3 { backtrack: (0..nb).map(|_| cv(r)).collect(), input: (0..il).map(|_| cv(r)).collect(), lookahead: (0..nl).map(|_| cv(r)).collect(), lookups: records(r, il, nested_lo, nested_n) }
            }
            (false, 1) => {
                let firsts = subset(r, 1, C_ALPHA, 1, 2);
                let rule_sets = firsts.iter().map(|_| {
                    let m = r.range(1, 2);
                    (0..m).map(|_| { let input = alpha_seq(r, 0, 2); let il = input.len() + 1; SeqRule { input, lookups: records(r, il, nested_lo, nested_n) } }).collect()
                }).collect();
                SubstSubtable::Context1 { coverage: cov(firsts, r), rule_sets }
            }
            (false, 2) => {
                let firsts = subset(r, 1, C_ALPHA, 2, 3);
                let rule_sets = (0..=C_ALPHA).map(|c| {
                    if c == 0 || r.chance(1, 3) { None } else {
                        let m = r.range(1, 2);
                        Some((0..m).map(|_| { let input = alpha_seq(r, 0, 2); let il = input.len() + 1; SeqRule { input, lookups: records(r, il, nested_lo, nested_n) } }).collect())
                    }
                }).collect();
                SubstSubtable::Context2 { coverage: cov(firsts, r), class_def: identity_classes(), rule_sets }
            }
            _ => {
                let cv = |r: &mut Rng| { let v = subset(r, 1, C_ALPHA, 1, 3); cov(v, r) };
                let il = r.range(1, 3) as usize;
                SubstSubtable::Context3 { coverages: (0..il).map(|_| cv(r)).collect(), lookups: records(r, il, nested_lo, nested_n) }
            }
        })
        .collect();
    let mut l = Lookup::new(subtables);
    if r.chance(1, 5) {
        l.flags |= lookup_flags::IGNORE_MARKS;
    }
    l
}

/// Growth-focused font: one chain context lookup (any format) with a one-glyph backtrack or lookahead whose only
/// nested lookup multiplies the input glyph into 3..4 glyphs: after the first match of a pass the out-buffer runs
/// ahead of the in-buffer, which is where out-buffer / in-buffer index mix-ups in the flag calls show.
fn fam_growth(r: &mut Rng) -> FontSpec {
    let mut spec = FontSpec::basic(C_NG);
    let x = alpha(r);
    let b = alpha(r);
    let outs: Vec<u16> = (0..r.range(3, 4)).map(|_| r.range(6, C_NG as u64 - 1) as u16).collect();
    let multiple = Lookup::one(SubstSubtable::Multiple { coverage: Coverage::Glyphs(vec![x]), sequences: vec![outs] });
    let back = r.chance(2, 3);
    let ahead = !back || r.chance(1, 4);
    let bt: Vec<u16> = if back { vec![b] } else { vec![] };
    let la: Vec<u16> = if ahead { vec![alpha(r)] } else { vec![] };
    let recs = vec![SeqLookup { sequence_index: 0, lookup_index: 1 }];
    let st = match r.range(1, 3) {
        1 => SubstSubtable::ChainContext1 { coverage: Coverage::Glyphs(vec![x]), rule_sets: vec![vec![ChainRule { backtrack: bt, input: vec![], lookahead: la, lookups: recs }]] },
        2 => SubstSubtable::ChainContext2 {
            coverage: Coverage::Glyphs(vec![x]),
            backtrack_classes: identity_classes(),
            input_classes: identity_classes(),
            lookahead_classes: identity_classes(),
            rule_sets: (0..=C_ALPHA).map(|c| if c == x { Some(vec![ChainRule { backtrack: bt.clone(), input: vec![], lookahead: la.clone(), lookups: recs.clone() }]) } else { None }).collect(),
        },
        _ => SubstSubtable::ChainContext3 {
            backtrack: bt.iter().map(|g| Coverage::Glyphs(vec![*g])).collect(),
            input: vec![Coverage::Glyphs(vec![x])],
            lookahead: la.iter().map(|g| Coverage::Glyphs(vec![*g])).collect(),
            lookups: recs,
        },
    };
    let tag = if r.chance(1, 2) { *b"calt" } else { *b"liga" };
    spec.gsub = Some(Layout::with_features(vec![(tag, vec![0])], vec![Lookup::one(st), multiple]));
    spec
}

fn fam_chains(r: &mut Rng) -> FontSpec {
    if r.chance(1, 5) {
        return fam_growth(r);
    }
    let mut spec = FontSpec::basic(C_NG);
    if r.chance(1, 2) {
        let mut gc: Vec<(u16, u16)> = (1..C_NG).map(|g| (g, 1)).collect();
        gc[4] = (5, 3);
        spec.gdef = Some(Gdef { glyph_classes: gc, mark_attach_classes: vec![], mark_glyph_sets: vec![] });
    }
    let ntop = r.range(1, 2) as usize;
    let nnested = r.range(1, 3) as usize;
    let mut lookups: Vec<Lookup<SubstSubtable>> = (0..ntop).map(|_| contextual(r, ntop, nnested)).collect();
    for _ in 0..nnested {
        lookups.push(nested(r));
    }
    // sometimes a nested lookup also runs on its own, before or after
    let mut top: Vec<u16> = (0..ntop as u16).collect();
    if r.chance(1, 4) {
        let extra = (ntop + r.below(nnested as u64) as usize) as u16;
        if r.chance(1, 2) { top.insert(0, extra) } else { top.push(extra) }
    }
    let tag = if r.chance(1, 2) { *b"calt" } else { *b"liga" };
    spec.gsub = Some(Layout::with_features(vec![(tag, top)], lookups));
    // a kerning pair on output glyphs makes positions depend on the substitution result
    if r.chance(1, 3) {
        spec.kern = Some(vec![KernSubtable { horizontal: true, minimum: false, cross_stream: false, override_: false, pairs: vec![(1, 2, -40), (2, 1, 30), (6, 7, -25)] }]);
    }
    spec
}

// ------------------------------------------------------------------------------------------ hangul

/// Conjoining jamo (modern and old), a random subset of the precomposed syllables they form, the jamo features
/// (ljmo / vjmo / tjmo: one single substitution each) and distinct advances: the Hangul shaper composes, decomposes
/// and flags inside one pre-pass that writes an out-buffer while it reads the in-buffer.
pub const H_CHARS: &[u32] = &[0x1100, 0x1101, 0x1161, 0x1162, 0x11A8, 0x11AB, 0x115F, 0x1160, 0x11A2, 0x11C3, 0xAC00, 0xAC01, 0xAC04, 0xAC1C, 0xAE4C, 0x302E];

fn fam_hangul(r: &mut Rng) -> FontSpec {
    let mut cmap: Vec<(u32, u16)> = Vec::new();
    let mut next = 1u16;
    for c in H_CHARS {
        let jamo = *c < 0x1200;
        if jamo || r.chance(1, 2) {
            cmap.push((*c, next));
            next += 1;
        }
    }
    let nj = next - 1;
    let mut spec = FontSpec::basic(1 + 4 * nj);
    spec.cmap = cmap;
    spec.hadv = (0..1 + 4 * nj).map(|g| 400 + 7 * g).collect();
    let plain: Vec<u16> = (1..=nj).collect();
    let single = |k: u16| Lookup::one(SubstSubtable::Single1 { coverage: Coverage::Ranges(vec![(1, nj)]), delta: (k * nj) as i16 });
    let _ = plain;
    let mut layout = Layout::with_features(vec![(*b"ljmo", vec![0]), (*b"tjmo", vec![2]), (*b"vjmo", vec![1])], vec![single(1), single(2), single(3)]);
    let all = layout.scripts[0].default_langsys.clone();
    layout.scripts = vec![ScriptRecord { tag: *b"DFLT", default_langsys: all.clone(), langsys: vec![] }, ScriptRecord { tag: *b"hang", default_langsys: all, langsys: vec![] }];
    spec.gsub = Some(layout);
    spec
}

/// For C04: only precomposed LV syllables, each optionally followed by a COMBINING trailing jamo.  The Hangul shaper
/// places no UNSAFE_TO_CONCAT of its own (free jamo of two segments compose when redistributed: known class
/// hangul_shaper); in this sub-domain the only dependency is LV <-> T, which it flags (UNSAFE_TO_BREAK implies CONCAT)
/// or removes by composing.
pub fn gen_req_hangul_lv_t(r: &mut Rng) -> Req {
    let mut rq = gen_req_hangul(r);
    let n = rq.text.len();
    let mut t: Vec<u32> = Vec::new();
    while t.len() < n {
        t.push(*r.pick(&[0xAC00u32, 0xAC1C, 0xAE4C]));
        if r.chance(1, 2) {
            t.push(*r.pick(&[0x11A8u32, 0x11AB]));
        }
    }
    rq.text = t.into_iter().enumerate().map(|(i, c)| (c, i as u32)).collect();
    rq
}

fn gen_req_hangul(r: &mut Rng) -> Req {
    let len = r.range(2, 8) as usize;
    let mut text: Vec<u32> = Vec::new();
    while text.len() < len {
        match r.below(6) {
            0 | 1 => {
                // a conjoining sequence L V (T)
                text.push(*r.pick(&[0x1100u32, 0x1101, 0x115F]));
                text.push(*r.pick(&[0x1161u32, 0x1162, 0x1160, 0x11A2]));
                if r.chance(1, 2) {
                    text.push(*r.pick(&[0x11A8u32, 0x11AB, 0x11C3]));
                }
            }
            2 | 3 => text.push(*r.pick(&[0xAC00u32, 0xAC01, 0xAC04, 0xAC1C, 0xAE4C])),
            4 => text.push(*r.pick(H_CHARS)),
            _ => text.push(0x302E),
        }
    }
    let clusters: Vec<u32> = (0..text.len() as u32).collect();
    Req {
        text: text.into_iter().zip(clusters.into_iter()).collect(),
        dir: match r.below(4) { 0 | 1 => None, 2 => Some(Direction::LeftToRight), _ => Some(Direction::RightToLeft) },
        script: if r.chance(1, 2) { Some("Hang".to_string()) } else { None },
        lang: None,
        features: vec![],
        flags: match r.below(3) { 0 => 0, 1 => 3, _ => 0x40 },
        level: r.below(2) as u8,
        pre: vec![],
        post: vec![],
        nf_vs: None,
        ptem: None,
    }
}

// ------------------------------------------------------------------------------------------ requests

pub fn gen_req(r: &mut Rng, k: u64) -> Req {
    if family_of(k) == "hangul" {
        return gen_req_hangul(r);
    }
    let pairs = family_of(k) == "pairs";
    let len = match r.below(10) { 0..=6 => r.range(2, 6), 7 | 8 => r.range(7, 10), _ => r.range(11, 16) } as usize;
    let mut gl: Vec<u16> = Vec::new();
    while gl.len() < len {
        if pairs {
            gl.push(if r.chance(1, 6) { r.range(6, 7) as u16 } else { r.range(1, 5) as u16 });
        } else {
            gl.push(if r.chance(1, 12) { 5 } else { alpha(r) });
        }
    }
    // repeated motifs make one lookup match several times in one pass
    if !pairs && len >= 4 && r.chance(1, 2) {
        let m = r.range(1, 3) as usize;
        for i in m..len {
            if r.chance(3, 4) {
                gl[i] = gl[i % m];
            }
        }
    }
    let clusters: Vec<u32> = match r.below(8) {
        0..=5 => (0..len as u32).collect(),
        6 => (0..len as u32).map(|i| i * 3 + 1).collect(),
        _ => (0..len as u32).map(|i| i / 2).collect(),
    };
    let dir = match r.below(10) {
        0..=2 => None,
        3 | 4 => Some(Direction::LeftToRight),
        5..=7 => Some(Direction::RightToLeft),
        8 => Some(Direction::TopToBottom),
        _ => Some(Direction::BottomToTop),
    };
    let script = match r.below(6) { 0..=2 => None, 3 | 4 => Some("Latn".to_string()), _ => Some("Hebr".to_string()) };
    let mut cps: Vec<u32> = gl.iter().map(|g| pua(*g as u32 - 1)).collect();
    if !pairs && r.chance(1, 3) {
        for _ in 0..r.range(1, 2) {
            let i = r.below(len as u64) as usize;
            cps[i] = 0x200C;
        }
    }
    Req {
        text: cps.into_iter().zip(clusters.iter().copied()).collect(),
        dir,
        script,
        lang: None,
        features: if r.chance(1, 8) { vec!["-kern".to_string()] } else { vec![] },
        flags: match r.below(4) { 0 | 1 => 0, 2 => 3, _ => 0x40 },
        level: r.below(2) as u8,
        pre: vec![],
        post: vec![],
        nf_vs: None,
        ptem: None,
    }
}

// ------------------------------------------------------------------------------------------------------------
// dotted-circle fonts (C03 only): a syllabic script whose shaper inserts U+25CC for a broken syllable in a pause
// between GSUB stages, and a late-stage lookup that covers the dotted circle together with the consonant: whether the
// lookup reaches the inserted glyph must not depend on what else the text contains.

pub const DOTTED_SCRIPTS: &[(&[u8; 4], &str, u32, u32, &[u8; 4])] = &[
    (b"dev2", "Deva", 0x0915, 0x093E, b"pres"),
    (b"bng2", "Beng", 0x0995, 0x09BE, b"psts"),
    (b"gjr2", "Gujr", 0x0A95, 0x0ABE, b"abvs"),
    (b"tml2", "Taml", 0x0B95, 0x0BBE, b"blws"),
    (b"khmr", "Khmr", 0x1780, 0x17B6, b"pres"),
    (b"mym2", "Mymr", 0x1000, 0x102C, b"psts"),
    (b"bali", "Bali", 0x1B13, 0x1B35, b"abvs"),
    (b"java", "Java", 0xA98F, 0xA9B4, b"pres"),
];

pub fn gen_font_dotted(seed: u64, k: u64) -> (FontSpec, &'static str) {
    let mut r = rng_for(seed ^ 0xD077ED, k);
    let (stag, sname, cons, matra, feat) = DOTTED_SCRIPTS[(k % DOTTED_SCRIPTS.len() as u64) as usize];
    // glyphs: 1 consonant, 2 vowel sign, 3 space, 4 dotted circle, 5.. alternates (ids spread out so that digests differ)
    let ng = 700u16;
    let mut spec = FontSpec::basic(ng);
    let mut cmap = vec![(0x20u32, 3u16), (0x25CC, 4), (cons, 1), (matra, 2)];
    cmap.sort();
    spec.cmap = cmap;
    let alt = |r: &mut Rng| *r.pick(&[5u16, 37, 64, 129, 300, 511, 690]);
    let (a1, a4) = (alt(&mut r), alt(&mut r));
    let both = Lookup::one(SubstSubtable::Single2 { coverage: Coverage::Glyphs(vec![1, 4]), substitutes: vec![a1, a4] });
    let only_dc = Lookup::one(SubstSubtable::Single2 { coverage: Coverage::Glyphs(vec![4]), substitutes: vec![a4] });
    let lookups = if r.chance(1, 2) { vec![both] } else { vec![only_dc, both] };
    let mut layout = Layout::single_feature(*feat, lookups);
    let all = layout.scripts[0].default_langsys.clone();
    layout.scripts = vec![ScriptRecord { tag: *b"DFLT", default_langsys: all.clone(), langsys: vec![] }, ScriptRecord { tag: *stag, default_langsys: all, langsys: vec![] }];
    layout.scripts.sort_by(|a, b| a.tag.cmp(&b.tag));
    spec.gsub = Some(layout);
    (spec, sname)
}

pub fn gen_req_dotted(r: &mut Rng, k: u64) -> Req {
    let (_, sname, cons, matra, _) = DOTTED_SCRIPTS[(k % DOTTED_SCRIPTS.len() as u64) as usize];
    let n = r.range(2, 6) as usize;
    let text: Vec<u32> = (0..n).map(|_| match r.below(5) { 0 | 1 => cons, 2 | 3 => 0x20, _ => matra }).collect();
    Req {
        text: text.into_iter().enumerate().map(|(i, c)| (c, i as u32)).collect(),
        dir: Some(Direction::LeftToRight),
        script: Some(sname.to_string()),
        lang: None,
        features: vec![],
        flags: if r.chance(1, 2) { 0 } else { 3 },
        level: r.below(2) as u8,
        pre: vec![],
        post: vec![],
        nf_vs: None,
        ptem: None,
    }
}
