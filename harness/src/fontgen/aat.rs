//! 'kern' (OpenType version 0, format 0) and 'morx' writers.
use super::w::{bsearch_header, Obj};
use super::*;

// ---------------------------------------------------------------------------------------------
// kern

pub fn kern(subtables: &[KernSubtable]) -> Vec<u8> {
    let mut o = Obj::new();
    o.u16(0).count(subtables.len(), "kern subtables");
    for (i, st) in subtables.iter().enumerate() {
        let n = st.pairs.len();
        let len = 6 + 8 + 6 * n;
        assert!(len <= 0xFFFF, "fontgen: kern subtable {i} too large ({len} bytes)");
        let (sr, es, rs) = bsearch_header(n, 6);
        let cov: u16 = (st.horizontal as u16) | (st.minimum as u16) << 1 | (st.cross_stream as u16) << 2 | (st.override_ as u16) << 3;
        o.u16(0).u16(len as u16).u16(cov); // format 0 in the high byte
        o.u16(n as u16).u16(sr).u16(es).u16(rs);
        for (l, r, v) in &st.pairs {
            o.u16(*l).u16(*r).i16(*v);
        }
    }
    o.data
}

// ---------------------------------------------------------------------------------------------
// feat

/// 'feat' version 1.0: header (12 bytes), one 12-byte feature name record per entry, then the
/// setting name arrays (4 bytes per setting); offsets are from the start of the table.
pub fn feat(f: &Feat) -> Vec<u8> {
    let mut o = Obj::new();
    o.u32(0x0001_0000).count(f.names.len(), "feat names").u16(0).u32(0);
    let mut off = 12 + 12 * f.names.len();
    for (i, n) in f.names.iter().enumerate() {
        let flags: u16 = if n.exclusive { 0x8000 } else { 0 } | match n.default_index {
            Some(d) => 0x4000 | d as u16,
            None => 0,
        };
        o.u16(n.feature).count(n.settings.len(), "feat settings").u32(off as u32).u16(flags).u16(256 + i as u16);
        off += 4 * n.settings.len();
    }
    for (i, n) in f.names.iter().enumerate() {
        for (j, s) in n.settings.iter().enumerate() {
            o.u16(*s).u16(300 + (i * 16 + j) as u16);
        }
    }
    o.data
}

// ---------------------------------------------------------------------------------------------
// AAT lookup tables

#[derive(Clone, Copy, PartialEq, Eq)]
pub enum LookupRole {
    /// glyph -> class: default fill 1 (out of bounds)
    Class,
    /// glyph -> glyph: default fill identity
    Glyph,
}

fn fill_value(l: &AatLookup, role: LookupRole, gid: u16) -> u16 {
    match (l.fill, role) {
        (Some(v), _) => v,
        (None, LookupRole::Class) => 1,
        (None, LookupRole::Glyph) => gid,
    }
}

/// The value a lookup table written from `l` yields for `gid` (None: not covered).
pub fn lookup_value(l: &AatLookup, role: LookupRole, num_glyphs: u16, gid: u16) -> Option<u16> {
    let hit = l.map.iter().find(|(g, _)| *g == gid).map(|p| p.1);
    match l.format {
        0 => {
            if gid < num_glyphs {
                Some(hit.unwrap_or_else(|| fill_value(l, role, gid)))
            } else {
                None
            }
        }
        8 => {
            let first = l.map.first()?.0;
            let last = l.map.last()?.0;
            if gid >= first && gid <= last {
                Some(hit.unwrap_or_else(|| fill_value(l, role, gid)))
            } else {
                None
            }
        }
        _ => hit,
    }
}

pub fn aat_lookup(l: &AatLookup, role: LookupRole, num_glyphs: u16) -> Vec<u8> {
    let mut o = Obj::new();
    match l.format {
        0 => {
            o.u16(0);
            let mut it = l.map.iter().peekable();
            for g in 0..num_glyphs {
                while matches!(it.peek(), Some((mg, _)) if *mg < g) {
                    it.next();
                }
                match it.peek() {
                    Some((mg, v)) if *mg == g => {
                        o.u16(*v);
                    }
                    _ => {
                        o.u16(fill_value(l, role, g));
                    }
                }
            }
        }
        2 => {
            let mut segs: Vec<(u16, u16, u16)> = Vec::new(); // first, last, value
            for (g, v) in &l.map {
                if let Some(s) = segs.last_mut() {
                    if s.2 == *v && s.1 != 0xFFFF && s.1 + 1 == *g {
                        s.1 = *g;
                        continue;
                    }
                }
                segs.push((*g, *g, *v));
            }
            let (sr, es, rs) = bsearch_header(segs.len(), 6);
            o.u16(2).u16(6).count(segs.len(), "lookup segments").u16(sr).u16(es).u16(rs);
            for (first, last, v) in &segs {
                o.u16(*last).u16(*first).u16(*v);
            }
            o.u16(0xFFFF).u16(0xFFFF).u16(0);
        }
        6 => {
            let (sr, es, rs) = bsearch_header(l.map.len(), 4);
            o.u16(6).u16(4).count(l.map.len(), "lookup entries").u16(sr).u16(es).u16(rs);
            for (g, v) in &l.map {
                o.u16(*g).u16(*v);
            }
            o.u16(0xFFFF).u16(0);
        }
        8 => {
            o.u16(8);
            match (l.map.first(), l.map.last()) {
                (Some((first, _)), Some((last, _))) if last >= first => {
                    o.u16(*first).u16(*last - *first + 1);
                    let mut it = l.map.iter().peekable();
                    let mut g = *first as u32;
                    while g <= *last as u32 {
                        while matches!(it.peek(), Some((mg, _)) if (*mg as u32) < g) {
                            it.next();
                        }
                        match it.peek() {
                            Some((mg, v)) if *mg as u32 == g => {
                                o.u16(*v);
                            }
                            _ => {
                                o.u16(fill_value(l, role, g as u16));
                            }
                        }
                        g += 1;
                    }
                }
                _ => {
                    o.u16(0).u16(0);
                }
            }
        }
        f => panic!("fontgen: AAT lookup format {f} not supported (use 0, 2, 6 or 8)"),
    }
    o.data
}

// ---------------------------------------------------------------------------------------------
// morx

fn pad4(v: &mut Vec<u8>) {
    while v.len() % 4 != 0 {
        v.push(0);
    }
}

trait Entry {
    fn write(&self, o: &mut Obj);
}
impl Entry for RearrEntry {
    fn write(&self, o: &mut Obj) {
        o.u16(self.new_state).u16(self.flags);
    }
}
impl Entry for CtxEntry {
    fn write(&self, o: &mut Obj) {
        o.u16(self.new_state).u16(self.flags).u16(self.mark_index).u16(self.current_index);
    }
}
impl Entry for LigEntry {
    fn write(&self, o: &mut Obj) {
        o.u16(self.new_state).u16(self.flags).u16(self.lig_action_index);
    }
}
impl Entry for InsEntry {
    fn write(&self, o: &mut Obj) {
        o.u16(self.new_state).u16(self.flags).u16(self.current_insert_index).u16(self.marked_insert_index);
    }
}

/// Extended state table body: header (16 bytes + 4 per extra offset), class lookup, state array,
/// entry table, then the extra tables, each 4-byte aligned.  Offsets are from the header start.
fn state_table<E: Entry>(t: &StateTable<E>, num_glyphs: u16, extras: &[Vec<u8>]) -> Vec<u8> {
    let header_len = 16 + 4 * extras.len();
    let mut class = aat_lookup(&t.class_lookup, LookupRole::Class, num_glyphs);
    pad4(&mut class);
    let mut states = Obj::new();
    for (i, row) in t.states.iter().enumerate() {
        assert!(
            row.len() == t.n_classes as usize,
            "fontgen: morx state {i} has {} columns, n_classes is {}",
            row.len(),
            t.n_classes
        );
        states.u16s(row);
    }
    pad4(&mut states.data);
    let mut entries = Obj::new();
    for e in &t.entries {
        e.write(&mut entries);
    }
    pad4(&mut entries.data);

    let class_off = header_len;
    let state_off = class_off + class.len();
    let entry_off = state_off + states.len();
    let mut o = Obj::new();
    o.u32(t.n_classes).u32(class_off as u32).u32(state_off as u32).u32(entry_off as u32);
    let mut off = entry_off + entries.len();
    for x in extras {
        o.u32(off as u32);
        off += x.len() + (4 - x.len() % 4) % 4;
    }
    o.bytes(&class).bytes(&states.data).bytes(&entries.data);
    for x in extras {
        o.bytes(x);
        pad4(&mut o.data);
    }
    o.data
}

fn u16_list(v: &[u16]) -> Vec<u8> {
    let mut o = Obj::new();
    o.u16s(v);
    o.data
}

fn subtable_body(kind: &MorxKind, num_glyphs: u16) -> Vec<u8> {
    match kind {
        MorxKind::Rearrangement(t) => state_table(t, num_glyphs, &[]),
        MorxKind::Contextual { table, substitutions } => {
            // substitution table: u32 offsets (from its own start) then the lookup tables
            let mut lookups: Vec<Vec<u8>> = Vec::new();
            for l in substitutions {
                let mut b = aat_lookup(l, LookupRole::Glyph, num_glyphs);
                pad4(&mut b);
                lookups.push(b);
            }
            let mut s = Obj::new();
            let mut off = 4 * lookups.len();
            for b in &lookups {
                s.u32(off as u32);
                off += b.len();
            }
            for b in &lookups {
                s.bytes(b);
            }
            state_table(table, num_glyphs, &[s.data])
        }
        MorxKind::Ligature { table, lig_actions, components, ligatures } => {
            let mut a = Obj::new();
            for x in lig_actions {
                a.u32(*x);
            }
            state_table(table, num_glyphs, &[a.data, u16_list(components), u16_list(ligatures)])
        }
        MorxKind::NonContextual(l) => aat_lookup(l, LookupRole::Glyph, num_glyphs),
        MorxKind::Insertion { table, glyphs } => state_table(table, num_glyphs, &[u16_list(glyphs)]),
    }
}

pub fn morx(m: &Morx, num_glyphs: u16) -> Vec<u8> {
    assert!(m.version == 2 || m.version == 3, "fontgen: morx version must be 2 or 3");
    let mut o = Obj::new();
    o.u16(m.version).u16(0).u32(m.chains.len() as u32);
    for c in &m.chains {
        let mut subs = Obj::new();
        for st in &c.subtables {
            let mut body = subtable_body(&st.kind, num_glyphs);
            pad4(&mut body);
            let cov = (st.coverage & 0xFFFF_FF00) | st.kind.type_code() as u32;
            subs.u32(12 + body.len() as u32).u32(cov).u32(st.sub_feature_flags).bytes(&body);
        }
        if m.version >= 3 {
            // subtable glyph coverage array: one zero offset per subtable (no coverage bitmaps)
            for _ in &c.subtables {
                subs.u32(0);
            }
        }
        let len = 16 + 12 * c.features.len() + subs.len();
        o.u32(c.default_flags).u32(len as u32).u32(c.features.len() as u32).u32(c.subtables.len() as u32);
        for f in &c.features {
            o.u16(f.feature_type).u16(f.feature_setting).u32(f.enable_flags).u32(f.disable_flags);
        }
        o.bytes(&subs.data);
    }
    o.data
}
