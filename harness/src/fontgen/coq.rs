//! Prints a `FontSpec` as a Coq term of type `RB.Model.Font.font` (see coq/Model/Font.v, which mirrors
//! the spec field by field), so that the same font description reaches the model and the real code.
use super::*;

pub trait ToCoq {
    fn coq(&self) -> String;
}

fn n<T: Into<u64> + Copy>(v: T) -> String {
    let x: u64 = v.into();
    format!("{}%N", x)
}

fn z(v: i64) -> String {
    format!("({})%Z", v)
}

fn list<T>(xs: &[T], f: impl Fn(&T) -> String) -> String {
    let v: Vec<String> = xs.iter().map(|x| f(x)).collect();
    format!("[{}]", v.join("; "))
}

fn opt<T>(x: &Option<T>, f: impl Fn(&T) -> String) -> String {
    match x {
        Some(v) => format!("(Some {})", f(v)),
        None => "None".to_string(),
    }
}

fn b(x: bool) -> &'static str {
    if x { "true" } else { "false" }
}

pub fn tag(t: &Tag) -> String {
    let v = ((t[0] as u64) << 24) | ((t[1] as u64) << 16) | ((t[2] as u64) << 8) | t[3] as u64;
    n(v)
}

fn glyphs(xs: &[u16]) -> String {
    list(xs, |g| n(*g))
}

impl ToCoq for Coverage {
    fn coq(&self) -> String {
        match self {
            Coverage::Glyphs(gs) => format!("(CovGlyphs {})", glyphs(gs)),
            Coverage::Ranges(rs) => format!("(CovRanges {})", list(rs, |(s, e)| format!("({}, {})", n(*s), n(*e)))),
        }
    }
}

impl ToCoq for ClassDef {
    fn coq(&self) -> String {
        match self {
            ClassDef::Format1 { start, classes } => format!("(ClassFmt1 {} {})", n(*start), glyphs(classes)),
            ClassDef::Format2 { ranges } => {
                format!("(ClassFmt2 {})", list(ranges, |(s, e, c)| format!("({}, {}, {})", n(*s), n(*e), n(*c))))
            }
        }
    }
}

fn seq_lookups(xs: &[SeqLookup]) -> String {
    list(xs, |l| format!("({}, {})", n(l.sequence_index), n(l.lookup_index)))
}

impl ToCoq for SeqRule {
    fn coq(&self) -> String {
        format!("(mkSeqRule {} {})", glyphs(&self.input), seq_lookups(&self.lookups))
    }
}

impl ToCoq for ChainRule {
    fn coq(&self) -> String {
        format!(
            "(mkChainRule {} {} {} {})",
            glyphs(&self.backtrack),
            glyphs(&self.input),
            glyphs(&self.lookahead),
            seq_lookups(&self.lookups)
        )
    }
}

fn covs(xs: &[Coverage]) -> String {
    list(xs, |c| c.coq())
}

fn rule_sets<T: ToCoq>(xs: &[Vec<T>]) -> String {
    list(xs, |s| list(s, |r| r.coq()))
}

fn opt_rule_sets<T: ToCoq>(xs: &[Option<Vec<T>>]) -> String {
    list(xs, |s| opt(s, |v| list(v, |r| r.coq())))
}

impl ToCoq for SubstSubtable {
    fn coq(&self) -> String {
        use SubstSubtable::*;
        match self {
            Single1 { coverage, delta } => format!("(SSingle1 {} {})", coverage.coq(), z(*delta as i64)),
            Single2 { coverage, substitutes } => format!("(SSingle2 {} {})", coverage.coq(), glyphs(substitutes)),
            Multiple { coverage, sequences } => format!("(SMultiple {} {})", coverage.coq(), list(sequences, |s| glyphs(s))),
            Alternate { coverage, alternates } => format!("(SAlternate {} {})", coverage.coq(), list(alternates, |s| glyphs(s))),
            Ligature { coverage, ligature_sets } => format!(
                "(SLigature {} {})",
                coverage.coq(),
                list(ligature_sets, |s| list(s, |l| format!("(mkLig {} {})", n(l.glyph), glyphs(&l.components))))
            ),
            Context1 { coverage, rule_sets: rs } => format!("(SContext1 {} {})", coverage.coq(), rule_sets(rs)),
            Context2 { coverage, class_def, rule_sets: rs } => {
                format!("(SContext2 {} {} {})", coverage.coq(), class_def.coq(), opt_rule_sets(rs))
            }
            Context3 { coverages, lookups } => format!("(SContext3 {} {})", covs(coverages), seq_lookups(lookups)),
            ChainContext1 { coverage, rule_sets: rs } => format!("(SChain1 {} {})", coverage.coq(), rule_sets(rs)),
            ChainContext2 { coverage, backtrack_classes, input_classes, lookahead_classes, rule_sets: rs } => format!(
                "(SChain2 {} {} {} {} {})",
                coverage.coq(),
                backtrack_classes.coq(),
                input_classes.coq(),
                lookahead_classes.coq(),
                opt_rule_sets(rs)
            ),
            ChainContext3 { backtrack, input, lookahead, lookups } => {
                format!("(SChain3 {} {} {} {})", covs(backtrack), covs(input), covs(lookahead), seq_lookups(lookups))
            }
            ReverseChain { coverage, backtrack, lookahead, substitutes } => {
                format!("(SReverse {} {} {} {})", coverage.coq(), covs(backtrack), covs(lookahead), glyphs(substitutes))
            }
        }
    }
}

impl ToCoq for ValueRecord {
    fn coq(&self) -> String {
        format!(
            "(mkVR {} {} {} {})",
            z(self.x_placement as i64),
            z(self.y_placement as i64),
            z(self.x_advance as i64),
            z(self.y_advance as i64)
        )
    }
}

fn anchor(a: &Anchor) -> String {
    format!("({}, {})", z(a.x as i64), z(a.y as i64))
}

fn vf(v: &ValueFormat) -> &'static str {
    match v {
        ValueFormat::All => "true",
        ValueFormat::NonZero => "false",
    }
}

fn marks(xs: &[(u16, Anchor)]) -> String {
    list(xs, |(c, a)| format!("({}, {})", n(*c), anchor(a)))
}

fn anchor_matrix(xs: &[Vec<Option<Anchor>>]) -> String {
    list(xs, |row| list(row, |a| opt(a, anchor)))
}

impl ToCoq for PosSubtable {
    fn coq(&self) -> String {
        use PosSubtable::*;
        match self {
            Single1 { coverage, value, vf: f } => format!("(PSingle1 {} {} {})", coverage.coq(), value.coq(), vf(f)),
            Single2 { coverage, values, vf: f } => format!("(PSingle2 {} {} {})", coverage.coq(), list(values, |v| v.coq()), vf(f)),
            Pair1 { coverage, pair_sets, vf: f } => format!(
                "(PPair1 {} {} {})",
                coverage.coq(),
                list(pair_sets, |s| list(s, |(g, a, b2)| format!("({}, {}, {})", n(*g), a.coq(), b2.coq()))),
                vf(f)
            ),
            Pair2 { coverage, class_def1, class_def2, records, vf: f } => format!(
                "(PPair2 {} {} {} {} {})",
                coverage.coq(),
                class_def1.coq(),
                class_def2.coq(),
                list(records, |row| list(row, |(a, b2)| format!("({}, {})", a.coq(), b2.coq()))),
                vf(f)
            ),
            Cursive { coverage, entry_exit } => format!(
                "(PCursive {} {})",
                coverage.coq(),
                list(entry_exit, |(en, ex)| format!("({}, {})", opt(en, anchor), opt(ex, anchor)))
            ),
            MarkBase { mark_coverage, base_coverage, class_count, marks: m, bases } => format!(
                "(PMarkBase {} {} {} {} {})",
                mark_coverage.coq(),
                base_coverage.coq(),
                n(*class_count),
                marks(m),
                anchor_matrix(bases)
            ),
            MarkLig { mark_coverage, lig_coverage, class_count, marks: m, ligatures } => format!(
                "(PMarkLig {} {} {} {} {})",
                mark_coverage.coq(),
                lig_coverage.coq(),
                n(*class_count),
                marks(m),
                list(ligatures, |l| anchor_matrix(l))
            ),
            MarkMark { mark1_coverage, mark2_coverage, class_count, marks: m, mark2s } => format!(
                "(PMarkMark {} {} {} {} {})",
                mark1_coverage.coq(),
                mark2_coverage.coq(),
                n(*class_count),
                marks(m),
                anchor_matrix(mark2s)
            ),
            Context1 { coverage, rule_sets: rs } => format!("(PContext1 {} {})", coverage.coq(), rule_sets(rs)),
            Context2 { coverage, class_def, rule_sets: rs } => {
                format!("(PContext2 {} {} {})", coverage.coq(), class_def.coq(), opt_rule_sets(rs))
            }
            Context3 { coverages, lookups } => format!("(PContext3 {} {})", covs(coverages), seq_lookups(lookups)),
            ChainContext1 { coverage, rule_sets: rs } => format!("(PChain1 {} {})", coverage.coq(), rule_sets(rs)),
            ChainContext2 { coverage, backtrack_classes, input_classes, lookahead_classes, rule_sets: rs } => format!(
                "(PChain2 {} {} {} {} {})",
                coverage.coq(),
                backtrack_classes.coq(),
                input_classes.coq(),
                lookahead_classes.coq(),
                opt_rule_sets(rs)
            ),
            ChainContext3 { backtrack, input, lookahead, lookups } => {
                format!("(PChain3 {} {} {} {})", covs(backtrack), covs(input), covs(lookahead), seq_lookups(lookups))
            }
        }
    }
}

impl<S: ToCoq> ToCoq for Lookup<S> {
    fn coq(&self) -> String {
        format!(
            "(mkLookup {} {} {})",
            n(self.written_flags()),
            opt(&self.mark_filtering_set, |s| n(*s)),
            list(&self.subtables, |s| s.coq())
        )
    }
}

impl ToCoq for LangSys {
    fn coq(&self) -> String {
        format!("(mkLangSys {} {})", opt(&self.required_feature, |f| n(*f)), glyphs(&self.feature_indices))
    }
}

impl<S: ToCoq> ToCoq for Layout<S> {
    fn coq(&self) -> String {
        format!(
            "(mkLayout {} {} {})",
            list(&self.scripts, |s| format!(
                "(mkScript {} {} {})",
                tag(&s.tag),
                opt(&s.default_langsys, |l| l.coq()),
                list(&s.langsys, |(t, l)| format!("({}, {})", tag(t), l.coq()))
            )),
            list(&self.features, |f| format!("({}, {})", tag(&f.tag), glyphs(&f.lookup_indices))),
            list(&self.lookups, |l| l.coq())
        )
    }
}

fn pairs16(xs: &[(u16, u16)]) -> String {
    list(xs, |(a, b2)| format!("({}, {})", n(*a), n(*b2)))
}

impl ToCoq for Gdef {
    fn coq(&self) -> String {
        format!(
            "(mkGdef {} {} {})",
            pairs16(&self.glyph_classes),
            pairs16(&self.mark_attach_classes),
            list(&self.mark_glyph_sets, |s| glyphs(s))
        )
    }
}

impl ToCoq for KernSubtable {
    fn coq(&self) -> String {
        format!(
            "(mkKern {} {} {} {} {})",
            b(self.horizontal),
            b(self.minimum),
            b(self.cross_stream),
            b(self.override_),
            list(&self.pairs, |(l, r, v)| format!("({}, {}, {})", n(*l), n(*r), z(*v as i64)))
        )
    }
}

impl ToCoq for AatLookup {
    fn coq(&self) -> String {
        format!("(mkAatLookup {} {} {})", n(self.format), pairs16(&self.map), opt(&self.fill, |f| n(*f)))
    }
}

fn state_table<E>(t: &StateTable<E>, f: impl Fn(&E) -> String) -> String {
    format!(
        "(mkStateTable {} {} {} {})",
        n(t.n_classes),
        t.class_lookup.coq(),
        list(&t.states, |row| glyphs(row)),
        list(&t.entries, |e| f(e))
    )
}

impl ToCoq for MorxKind {
    fn coq(&self) -> String {
        match self {
            MorxKind::Rearrangement(t) => {
                format!("(MRearrangement {})", state_table(t, |e| format!("(mkRearr {} {})", n(e.new_state), n(e.flags))))
            }
            MorxKind::Contextual { table, substitutions } => format!(
                "(MContextual {} {})",
                state_table(table, |e| format!("(mkCtx {} {} {} {})", n(e.new_state), n(e.flags), n(e.mark_index), n(e.current_index))),
                list(substitutions, |l| l.coq())
            ),
            MorxKind::Ligature { table, lig_actions, components, ligatures } => format!(
                "(MLigature {} {} {} {})",
                state_table(table, |e| format!("(mkLigE {} {} {})", n(e.new_state), n(e.flags), n(e.lig_action_index))),
                list(lig_actions, |a| n(*a)),
                glyphs(components),
                glyphs(ligatures)
            ),
            MorxKind::NonContextual(l) => format!("(MNonContextual {})", l.coq()),
            MorxKind::Insertion { table, glyphs: gs } => format!(
                "(MInsertion {} {})",
                state_table(table, |e| format!(
                    "(mkIns {} {} {} {})",
                    n(e.new_state),
                    n(e.flags),
                    n(e.current_insert_index),
                    n(e.marked_insert_index)
                )),
                glyphs(gs)
            ),
        }
    }
}

impl ToCoq for Morx {
    fn coq(&self) -> String {
        format!(
            "(mkMorx {} {})",
            n(self.version),
            list(&self.chains, |c| format!(
                "(mkMorxChain {} {} {})",
                n(c.default_flags),
                list(&c.features, |f| format!(
                    "(mkMorxFeat {} {} {} {})",
                    n(f.feature_type),
                    n(f.feature_setting),
                    n(f.enable_flags),
                    n(f.disable_flags)
                )),
                list(&c.subtables, |s| {
                    let cov = (s.coverage & 0xFFFF_FF00) | s.kind.type_code() as u32;
                    format!("(mkMorxSub {} {} {})", n(cov), n(s.sub_feature_flags), s.kind.coq())
                })
            ))
        )
    }
}

/// `feat` is NOT a field of the Coq `font` record: it is printed as a term of type
/// `list (N * list N * bool)` = (feature type, setting selectors, exclusive) — Model/MorxFeat.v `feat_table`.
impl ToCoq for Feat {
    fn coq(&self) -> String {
        list(&self.names, |nm| format!("({}, {}, {})", n(nm.feature), glyphs(&nm.settings), b(nm.exclusive)))
    }
}

impl ToCoq for FontSpec {
    fn coq(&self) -> String {
        format!(
            "(mkFont {} {} {} {} {} {} {} {} {} {} {} {} {} {})",
            n(self.num_glyphs),
            n(self.units_per_em),
            // the model's font carries the line metrics the font's tables define (hhea or OS/2, FontSpec::line_metrics)
            z(self.line_metrics().0 as i64),
            z(self.line_metrics().1 as i64),
            z(self.line_gap as i64),
            glyphs(&self.hadv),
            opt(&self.vmetrics, |v| format!(
                "(mkVMetrics {} {} {} {})",
                z(v.ascender as i64),
                z(v.descender as i64),
                z(v.line_gap as i64),
                glyphs(&v.vadv)
            )),
            list(&self.cmap, |(c, g)| format!("({}, {})", n(*c), n(*g))),
            list(&self.cmap14, |(c, s, g)| format!("({}, {}, {})", n(*c), n(*s), n(*g))),
            opt(&self.gdef, |g| g.coq()),
            opt(&self.gsub, |g| g.coq()),
            opt(&self.gpos, |g| g.coq()),
            opt(&self.kern, |k| list(k, |s| s.coq())),
            opt(&self.morx, |m| m.coq())
        )
    }
}
