//! GDEF, GSUB and GPOS writers.
use super::w::{pack, Obj};
use super::*;

// ---------------------------------------------------------------------------------------------
// shared pieces

pub fn coverage_obj(c: &Coverage) -> Obj {
    let mut o = Obj::new();
    match c {
        Coverage::Glyphs(g) => {
            o.u16(1).count(g.len(), "coverage glyphs").u16s(g);
        }
        Coverage::Ranges(rs) => {
            o.u16(2).count(rs.len(), "coverage ranges");
            let mut idx: u32 = 0;
            for (s, e) in rs {
                o.u16(*s).u16(*e).u16((idx & 0xFFFF) as u16);
                if e >= s {
                    idx += (*e - *s) as u32 + 1;
                }
            }
        }
    }
    o
}

pub fn classdef_obj(c: &ClassDef) -> Obj {
    let mut o = Obj::new();
    match c {
        ClassDef::Format1 { start, classes } => {
            o.u16(1).u16(*start).count(classes.len(), "classdef classes").u16s(classes);
        }
        ClassDef::Format2 { ranges } => {
            o.u16(2).count(ranges.len(), "classdef ranges");
            for (s, e, c) in ranges {
                o.u16(*s).u16(*e).u16(*c);
            }
        }
    }
    o
}

/// ClassDef format 2 from sorted (glyph, class) pairs, merging consecutive glyphs of equal class.
fn classdef_from_pairs(pairs: &[(u16, u16)]) -> Obj {
    let mut ranges: Vec<(u16, u16, u16)> = Vec::new();
    for (g, c) in pairs {
        if let Some(last) = ranges.last_mut() {
            if last.2 == *c && last.1 != 0xFFFF && last.1 + 1 == *g {
                last.1 = *g;
                continue;
            }
        }
        ranges.push((*g, *g, *c));
    }
    classdef_obj(&ClassDef::Format2 { ranges })
}

fn seq_lookups(o: &mut Obj, ls: &[SeqLookup]) {
    for l in ls {
        o.u16(l.sequence_index).u16(l.lookup_index);
    }
}

// ---------------------------------------------------------------------------------------------
// GDEF

pub fn gdef(g: &Gdef) -> Vec<u8> {
    let mut o = Obj::new();
    let v12 = !g.mark_glyph_sets.is_empty();
    o.u32(if v12 { 0x0001_0002 } else { 0x0001_0000 });
    o.off16_opt(if g.glyph_classes.is_empty() { None } else { Some(classdef_from_pairs(&g.glyph_classes)) });
    o.u16(0); // attachList
    o.u16(0); // ligCaretList
    o.off16_opt(if g.mark_attach_classes.is_empty() { None } else { Some(classdef_from_pairs(&g.mark_attach_classes)) });
    if v12 {
        let mut sets = Obj::new();
        sets.u16(1).count(g.mark_glyph_sets.len(), "mark glyph sets");
        for s in &g.mark_glyph_sets {
            sets.off32(coverage_obj(&Coverage::Glyphs(s.clone())));
        }
        o.off16(sets);
    }
    pack(o, "GDEF")
}

// ---------------------------------------------------------------------------------------------
// GSUB/GPOS header, script list, feature list, lookup list

pub trait Subtable {
    /// lookup type of the extension subtable in this table (7 for GSUB, 9 for GPOS)
    const EXTENSION: u16;
    const TABLE: &'static str;
    fn lookup_type(&self) -> u16;
    fn obj(&self) -> Obj;
}

fn langsys_obj(l: &LangSys) -> Obj {
    let mut o = Obj::new();
    o.u16(0).u16(l.required_feature.unwrap_or(0xFFFF)).count(l.feature_indices.len(), "langsys features").u16s(&l.feature_indices);
    o
}

fn layout_table<S: Subtable>(l: &Layout<S>) -> Vec<u8> {
    let mut scripts = Obj::new();
    scripts.count(l.scripts.len(), "scripts");
    for s in &l.scripts {
        let mut so = Obj::new();
        so.off16_opt(s.default_langsys.as_ref().map(langsys_obj));
        so.count(s.langsys.len(), "langsys records");
        for (tag, ls) in &s.langsys {
            so.tag(tag).off16(langsys_obj(ls));
        }
        scripts.tag(&s.tag).off16(so);
    }

    let mut features = Obj::new();
    features.count(l.features.len(), "features");
    for f in &l.features {
        let mut fo = Obj::new();
        fo.u16(0).count(f.lookup_indices.len(), "feature lookups").u16s(&f.lookup_indices);
        features.tag(&f.tag).off16(fo);
    }

    let mut lookups = Obj::new();
    lookups.count(l.lookups.len(), "lookups");
    for (i, lk) in l.lookups.iter().enumerate() {
        let ty = lk.subtables.first().map(|s| s.lookup_type()).unwrap_or(1);
        for s in &lk.subtables {
            assert!(
                s.lookup_type() == ty,
                "fontgen: {} lookup {i}: subtables of different lookup types ({} and {})",
                S::TABLE,
                ty,
                s.lookup_type()
            );
        }
        assert!(
            !(lk.flags & lookup_flags::USE_MARK_FILTERING_SET != 0 && lk.mark_filtering_set.is_none()),
            "fontgen: {} lookup {i}: UseMarkFilteringSet flag without mark_filtering_set",
            S::TABLE
        );
        let mut lo = Obj::new();
        lo.u16(if lk.use_extension { S::EXTENSION } else { ty });
        lo.u16(lk.written_flags());
        lo.count(lk.subtables.len(), "subtables");
        for s in &lk.subtables {
            if lk.use_extension {
                let mut e = Obj::new();
                e.u16(1).u16(ty).off32(s.obj());
                lo.off16(e);
            } else {
                lo.off16(s.obj());
            }
        }
        if let Some(m) = lk.mark_filtering_set {
            lo.u16(m);
        }
        lookups.off16(lo);
    }

    let mut o = Obj::new();
    o.u16(1).u16(0).off16(scripts).off16(features).off16(lookups);
    pack(o, S::TABLE)
}

pub fn gsub(l: &Layout<SubstSubtable>) -> Vec<u8> {
    layout_table(l)
}

pub fn gpos(l: &Layout<PosSubtable>) -> Vec<u8> {
    layout_table(l)
}

// ---------------------------------------------------------------------------------------------
// contextual subtables (shared)

fn seq_rule_obj(r: &SeqRule) -> Obj {
    let mut o = Obj::new();
    o.count(r.input.len() + 1, "rule glyph count").count(r.lookups.len(), "rule lookups").u16s(&r.input);
    seq_lookups(&mut o, &r.lookups);
    o
}

fn chain_rule_obj(r: &ChainRule) -> Obj {
    let mut o = Obj::new();
    o.count(r.backtrack.len(), "backtrack").u16s(&r.backtrack);
    o.count(r.input.len() + 1, "input").u16s(&r.input);
    o.count(r.lookahead.len(), "lookahead").u16s(&r.lookahead);
    o.count(r.lookups.len(), "rule lookups");
    seq_lookups(&mut o, &r.lookups);
    o
}

fn rule_set_obj<R>(rules: &[R], f: fn(&R) -> Obj) -> Obj {
    let mut o = Obj::new();
    o.count(rules.len(), "rules");
    for r in rules {
        o.off16(f(r));
    }
    o
}

fn context1(coverage: &Coverage, rule_sets: &[Vec<SeqRule>]) -> Obj {
    let mut o = Obj::new();
    o.u16(1).off16(coverage_obj(coverage)).count(rule_sets.len(), "rule sets");
    for rs in rule_sets {
        o.off16_opt(if rs.is_empty() { None } else { Some(rule_set_obj(rs, seq_rule_obj)) });
    }
    o
}

fn context2(coverage: &Coverage, class_def: &ClassDef, rule_sets: &[Option<Vec<SeqRule>>]) -> Obj {
    let mut o = Obj::new();
    o.u16(2).off16(coverage_obj(coverage)).off16(classdef_obj(class_def)).count(rule_sets.len(), "class rule sets");
    for rs in rule_sets {
        o.off16_opt(rs.as_ref().map(|rs| rule_set_obj(rs, seq_rule_obj)));
    }
    o
}

fn context3(coverages: &[Coverage], lookups: &[SeqLookup]) -> Obj {
    assert!(!coverages.is_empty(), "fontgen: Context3 needs at least one input coverage");
    let mut o = Obj::new();
    o.u16(3).count(coverages.len(), "coverages").count(lookups.len(), "lookups");
    for c in coverages {
        o.off16(coverage_obj(c));
    }
    seq_lookups(&mut o, lookups);
    o
}

fn chain1(coverage: &Coverage, rule_sets: &[Vec<ChainRule>]) -> Obj {
    let mut o = Obj::new();
    o.u16(1).off16(coverage_obj(coverage)).count(rule_sets.len(), "chain rule sets");
    for rs in rule_sets {
        o.off16_opt(if rs.is_empty() { None } else { Some(rule_set_obj(rs, chain_rule_obj)) });
    }
    o
}

fn chain2(coverage: &Coverage, b: &ClassDef, i: &ClassDef, l: &ClassDef, rule_sets: &[Option<Vec<ChainRule>>]) -> Obj {
    let mut o = Obj::new();
    o.u16(2)
        .off16(coverage_obj(coverage))
        .off16(classdef_obj(b))
        .off16(classdef_obj(i))
        .off16(classdef_obj(l))
        .count(rule_sets.len(), "chain class rule sets");
    for rs in rule_sets {
        o.off16_opt(rs.as_ref().map(|rs| rule_set_obj(rs, chain_rule_obj)));
    }
    o
}

fn chain3(backtrack: &[Coverage], input: &[Coverage], lookahead: &[Coverage], lookups: &[SeqLookup]) -> Obj {
    assert!(!input.is_empty(), "fontgen: ChainContext3 needs at least one input coverage");
    let mut o = Obj::new();
    o.u16(3);
    o.count(backtrack.len(), "backtrack coverages");
    for c in backtrack {
        o.off16(coverage_obj(c));
    }
    o.count(input.len(), "input coverages");
    for c in input {
        o.off16(coverage_obj(c));
    }
    o.count(lookahead.len(), "lookahead coverages");
    for c in lookahead {
        o.off16(coverage_obj(c));
    }
    o.count(lookups.len(), "lookups");
    seq_lookups(&mut o, lookups);
    o
}

// ---------------------------------------------------------------------------------------------
// GSUB subtables

fn glyph_list_set(format: u16, coverage: &Coverage, lists: &[Vec<u16>]) -> Obj {
    let mut o = Obj::new();
    o.u16(format).off16(coverage_obj(coverage)).count(lists.len(), "sequences");
    for l in lists {
        let mut s = Obj::new();
        s.count(l.len(), "glyphs").u16s(l);
        o.off16(s);
    }
    o
}

impl Subtable for SubstSubtable {
    const EXTENSION: u16 = 7;
    const TABLE: &'static str = "GSUB";

    fn lookup_type(&self) -> u16 {
        use SubstSubtable::*;
        match self {
            Single1 { .. } | Single2 { .. } => 1,
            Multiple { .. } => 2,
            Alternate { .. } => 3,
            Ligature { .. } => 4,
            Context1 { .. } | Context2 { .. } | Context3 { .. } => 5,
            ChainContext1 { .. } | ChainContext2 { .. } | ChainContext3 { .. } => 6,
            ReverseChain { .. } => 8,
        }
    }

    fn obj(&self) -> Obj {
        use SubstSubtable::*;
        match self {
            Single1 { coverage, delta } => {
                let mut o = Obj::new();
                o.u16(1).off16(coverage_obj(coverage)).i16(*delta);
                o
            }
            Single2 { coverage, substitutes } => {
                let mut o = Obj::new();
                o.u16(2).off16(coverage_obj(coverage)).count(substitutes.len(), "substitutes").u16s(substitutes);
                o
            }
            Multiple { coverage, sequences } => glyph_list_set(1, coverage, sequences),
            Alternate { coverage, alternates } => glyph_list_set(1, coverage, alternates),
            Ligature { coverage, ligature_sets } => {
                let mut o = Obj::new();
                o.u16(1).off16(coverage_obj(coverage)).count(ligature_sets.len(), "ligature sets");
                for set in ligature_sets {
                    let mut so = Obj::new();
                    so.count(set.len(), "ligatures");
                    for lig in set {
                        let mut lo = Obj::new();
                        lo.u16(lig.glyph).count(lig.components.len() + 1, "components").u16s(&lig.components);
                        so.off16(lo);
                    }
                    o.off16(so);
                }
                o
            }
            Context1 { coverage, rule_sets } => context1(coverage, rule_sets),
            Context2 { coverage, class_def, rule_sets } => context2(coverage, class_def, rule_sets),
            Context3 { coverages, lookups } => context3(coverages, lookups),
            ChainContext1 { coverage, rule_sets } => chain1(coverage, rule_sets),
            ChainContext2 { coverage, backtrack_classes, input_classes, lookahead_classes, rule_sets } => {
                chain2(coverage, backtrack_classes, input_classes, lookahead_classes, rule_sets)
            }
            ChainContext3 { backtrack, input, lookahead, lookups } => chain3(backtrack, input, lookahead, lookups),
            ReverseChain { coverage, backtrack, lookahead, substitutes } => {
                let mut o = Obj::new();
                o.u16(1).off16(coverage_obj(coverage));
                o.count(backtrack.len(), "backtrack coverages");
                for c in backtrack {
                    o.off16(coverage_obj(c));
                }
                o.count(lookahead.len(), "lookahead coverages");
                for c in lookahead {
                    o.off16(coverage_obj(c));
                }
                o.count(substitutes.len(), "substitutes").u16s(substitutes);
                o
            }
        }
    }
}

/// All coverage tables of a subtable (for `check`).
pub fn subst_coverages(s: &SubstSubtable) -> Vec<Coverage> {
    use SubstSubtable::*;
    match s {
        Single1 { coverage, .. }
        | Single2 { coverage, .. }
        | Multiple { coverage, .. }
        | Alternate { coverage, .. }
        | Ligature { coverage, .. }
        | Context1 { coverage, .. }
        | Context2 { coverage, .. }
        | ChainContext1 { coverage, .. }
        | ChainContext2 { coverage, .. } => vec![coverage.clone()],
        Context3 { coverages, .. } => coverages.clone(),
        ChainContext3 { backtrack, input, lookahead, .. } => {
            backtrack.iter().chain(input).chain(lookahead).cloned().collect()
        }
        ReverseChain { coverage, backtrack, lookahead, .. } => {
            std::iter::once(coverage).chain(backtrack).chain(lookahead).cloned().collect()
        }
    }
}

// ---------------------------------------------------------------------------------------------
// GPOS subtables

fn value(o: &mut Obj, v: &ValueRecord, format: u16) {
    if format & 1 != 0 {
        o.i16(v.x_placement);
    }
    if format & 2 != 0 {
        o.i16(v.y_placement);
    }
    if format & 4 != 0 {
        o.i16(v.x_advance);
    }
    if format & 8 != 0 {
        o.i16(v.y_advance);
    }
    // device offsets are relative to the table the value record sits in
    for k in 0..4 {
        if format & (0x10 << k) != 0 {
            o.off16_opt(v.devices[k].as_ref().map(device_obj));
        }
    }
}

fn device_obj(d: &DeviceSpec) -> Obj {
    let mut o = Obj::new();
    o.u16(d.start_size).u16(d.end_size).u16(3);
    let n = (d.end_size.saturating_sub(d.start_size) as usize) + 1;
    let mut bytes: Vec<u8> = (0..n).map(|_| d.delta as u8).collect();
    if bytes.len() % 2 == 1 {
        bytes.push(0);
    }
    for b in bytes {
        o.u8(b);
    }
    o
}

fn anchor_obj(a: &Anchor) -> Obj {
    let mut o = Obj::new();
    o.u16(1).i16(a.x).i16(a.y);
    o
}

fn mark_array(marks: &[(u16, Anchor)]) -> Obj {
    let mut o = Obj::new();
    o.count(marks.len(), "mark records");
    for (class, a) in marks {
        o.u16(*class).off16(anchor_obj(a));
    }
    o
}

/// BaseArray / Mark2Array / LigatureAttach: row count then rows * class_count anchor offsets.
fn anchor_matrix(rows: &[Vec<Option<Anchor>>], class_count: u16, what: &str) -> Obj {
    let mut o = Obj::new();
    o.count(rows.len(), what);
    for (i, row) in rows.iter().enumerate() {
        assert!(
            row.len() == class_count as usize,
            "fontgen: {what}: row {i} has {} anchors, class_count is {class_count}",
            row.len()
        );
        for a in row {
            o.off16_opt(a.as_ref().map(anchor_obj));
        }
    }
    o
}

fn mark_attach(c1: &Coverage, c2: &Coverage, class_count: u16, marks: &[(u16, Anchor)], second: Obj) -> Obj {
    let mut o = Obj::new();
    o.u16(1).off16(coverage_obj(c1)).off16(coverage_obj(c2)).u16(class_count).off16(mark_array(marks)).off16(second);
    o
}

/// (valueFormat1, valueFormat2) that `build` writes for a Pair1 subtable.
pub fn pair1_formats(pair_sets: &[Vec<(u16, ValueRecord, ValueRecord)>], vf: ValueFormat) -> (u16, u16) {
    (
        value_format_of(pair_sets.iter().flatten().map(|p| &p.1), vf),
        value_format_of(pair_sets.iter().flatten().map(|p| &p.2), vf),
    )
}

/// (valueFormat1, valueFormat2) that `build` writes for a Pair2 subtable.
pub fn pair2_formats(records: &[Vec<(ValueRecord, ValueRecord)>], vf: ValueFormat) -> (u16, u16) {
    (
        value_format_of(records.iter().flatten().map(|p| &p.0), vf),
        value_format_of(records.iter().flatten().map(|p| &p.1), vf),
    )
}

impl Subtable for PosSubtable {
    const EXTENSION: u16 = 9;
    const TABLE: &'static str = "GPOS";

    fn lookup_type(&self) -> u16 {
        use PosSubtable::*;
        match self {
            Single1 { .. } | Single2 { .. } => 1,
            Pair1 { .. } | Pair2 { .. } => 2,
            Cursive { .. } => 3,
            MarkBase { .. } => 4,
            MarkLig { .. } => 5,
            MarkMark { .. } => 6,
            Context1 { .. } | Context2 { .. } | Context3 { .. } => 7,
            ChainContext1 { .. } | ChainContext2 { .. } | ChainContext3 { .. } => 8,
        }
    }

    fn obj(&self) -> Obj {
        use PosSubtable::*;
        match self {
            Single1 { coverage, value: v, vf } => {
                let f = value_format_of([v], *vf);
                let mut o = Obj::new();
                o.u16(1).off16(coverage_obj(coverage)).u16(f);
                value(&mut o, v, f);
                o
            }
            Single2 { coverage, values, vf } => {
                let f = value_format_of(values.iter(), *vf);
                let mut o = Obj::new();
                o.u16(2).off16(coverage_obj(coverage)).u16(f).count(values.len(), "values");
                for v in values {
                    value(&mut o, v, f);
                }
                o
            }
            Pair1 { coverage, pair_sets, vf } => {
                let (f1, f2) = pair1_formats(pair_sets, *vf);
                let mut o = Obj::new();
                o.u16(1).off16(coverage_obj(coverage)).u16(f1).u16(f2).count(pair_sets.len(), "pair sets");
                for set in pair_sets {
                    let mut so = Obj::new();
                    so.count(set.len(), "pair value records");
                    for (second, v1, v2) in set {
                        so.u16(*second);
                        value(&mut so, v1, f1);
                        value(&mut so, v2, f2);
                    }
                    o.off16(so);
                }
                o
            }
            Pair2 { coverage, class_def1, class_def2, records, vf } => {
                let (f1, f2) = pair2_formats(records, *vf);
                let c2 = records.first().map(|r| r.len()).unwrap_or(0);
                let mut o = Obj::new();
                o.u16(2)
                    .off16(coverage_obj(coverage))
                    .u16(f1)
                    .u16(f2)
                    .off16(classdef_obj(class_def1))
                    .off16(classdef_obj(class_def2))
                    .count(records.len(), "class1 count")
                    .count(c2, "class2 count");
                for (i, row) in records.iter().enumerate() {
                    assert!(row.len() == c2, "fontgen: Pair2: row {i} has {} records, expected {c2}", row.len());
                    for (v1, v2) in row {
                        value(&mut o, v1, f1);
                        value(&mut o, v2, f2);
                    }
                }
                o
            }
            Cursive { coverage, entry_exit } => {
                let mut o = Obj::new();
                o.u16(1).off16(coverage_obj(coverage)).count(entry_exit.len(), "entry/exit records");
                for (en, ex) in entry_exit {
                    o.off16_opt(en.as_ref().map(anchor_obj));
                    o.off16_opt(ex.as_ref().map(anchor_obj));
                }
                o
            }
            MarkBase { mark_coverage, base_coverage, class_count, marks, bases } => mark_attach(
                mark_coverage,
                base_coverage,
                *class_count,
                marks,
                anchor_matrix(bases, *class_count, "base records"),
            ),
            MarkLig { mark_coverage, lig_coverage, class_count, marks, ligatures } => {
                let mut la = Obj::new();
                la.count(ligatures.len(), "ligature attach tables");
                for lig in ligatures {
                    la.off16(anchor_matrix(lig, *class_count, "component records"));
                }
                mark_attach(mark_coverage, lig_coverage, *class_count, marks, la)
            }
            MarkMark { mark1_coverage, mark2_coverage, class_count, marks, mark2s } => mark_attach(
                mark1_coverage,
                mark2_coverage,
                *class_count,
                marks,
                anchor_matrix(mark2s, *class_count, "mark2 records"),
            ),
            Context1 { coverage, rule_sets } => context1(coverage, rule_sets),
            Context2 { coverage, class_def, rule_sets } => context2(coverage, class_def, rule_sets),
            Context3 { coverages, lookups } => context3(coverages, lookups),
            ChainContext1 { coverage, rule_sets } => chain1(coverage, rule_sets),
            ChainContext2 { coverage, backtrack_classes, input_classes, lookahead_classes, rule_sets } => {
                chain2(coverage, backtrack_classes, input_classes, lookahead_classes, rule_sets)
            }
            ChainContext3 { backtrack, input, lookahead, lookups } => chain3(backtrack, input, lookahead, lookups),
        }
    }
}

pub fn pos_coverages(s: &PosSubtable) -> Vec<Coverage> {
    use PosSubtable::*;
    match s {
        Single1 { coverage, .. }
        | Single2 { coverage, .. }
        | Pair1 { coverage, .. }
        | Pair2 { coverage, .. }
        | Cursive { coverage, .. }
        | Context1 { coverage, .. }
        | Context2 { coverage, .. }
        | ChainContext1 { coverage, .. }
        | ChainContext2 { coverage, .. } => vec![coverage.clone()],
        MarkBase { mark_coverage: a, base_coverage: b, .. }
        | MarkLig { mark_coverage: a, lig_coverage: b, .. }
        | MarkMark { mark1_coverage: a, mark2_coverage: b, .. } => vec![a.clone(), b.clone()],
        Context3 { coverages, .. } => coverages.clone(),
        ChainContext3 { backtrack, input, lookahead, .. } => {
            backtrack.iter().chain(input).chain(lookahead).cloned().collect()
        }
    }
}
