//! fontgen: binary sfnt (OpenType/TrueType) font writer for generated test fonts.
//!
//! `build(&FontSpec) -> Vec<u8>` turns a plain-data font description into bytes that
//! `rustybuzz::Face::from_slice(&bytes, 0)` accepts.  The writer is deterministic (a pure function
//! of the spec) and writes exactly what the spec says: it never sorts, deduplicates or merges
//! caller data (the only derived values are counts, offsets, value formats, binary-search headers
//! and `startCoverageIndex`).  Sort orders that the parsers rely on are the caller's business;
//! `check(&FontSpec)` lists violations.
//!
//! Conventions
//! * glyph 0 is `.notdef`; `FontSpec::basic(n)` maps U+E000+i -> glyph i+1 (`pua(i)`).
//! * `backtrack` sequences (rules, coverages) are in FONT order: element 0 is the glyph
//!   immediately before the input sequence, element 1 the one before that, and so on.
//! * `input` of rules / `components` of ligatures start at the SECOND glyph (the first one is
//!   given by the coverage / class index).
//! * Device tables only in value records (hinting, delta format 3; see DeviceSpec), no anchors of format 2/3, no FeatureVariations, no feature params.

pub mod aat;
pub mod coq;
pub mod layout;
pub mod selftest;
pub mod sfnt;
pub mod w;

pub use selftest::selftest;

pub type Tag = [u8; 4];

/// U+E000 + i : the i-th private use character (glyph i+1 in `FontSpec::basic`).
pub fn pua(i: u32) -> u32 {
    0xE000 + i
}

// ---------------------------------------------------------------------------------------------
// top level

#[derive(Clone, Debug, Default)]
pub struct Os2 {
    /// table version (USE_TYPO_METRICS is honoured from version 4 on)
    pub version: u16,
    /// fsSelection; bit 7 (0x80) = USE_TYPO_METRICS
    pub fs_selection: u16,
    pub typo_ascender: i16,
    pub typo_descender: i16,
    pub typo_line_gap: i16,
    pub win_ascent: u16,
    pub win_descent: u16,
}

#[derive(Clone, Debug, Default)]
pub struct FontSpec {
    /// maxp (version 0.5).
    pub num_glyphs: u16,
    /// head.unitsPerEm (ttf-parser requires 16..=16384).
    pub units_per_em: u16,
    /// hhea.
    pub ascender: i16,
    pub descender: i16,
    pub line_gap: i16,
    /// OS/2 (version 4, 96 bytes): its line metrics replace those of hhea when USE_TYPO_METRICS is set or hhea's are 0.
    pub os2: Option<Os2>,
    /// tables written as given (tag, bytes): for table kinds fontgen has no writer for (Apple `kern` state machines ...);
    /// not part of the Coq `font` term
    pub raw_tables: Vec<([u8; 4], Vec<u8>)>,
    /// hmtx advance per glyph (len == num_glyphs; numberOfHMetrics = num_glyphs), lsb 0.
    pub hadv: Vec<u16>,
    /// vhea + vmtx.
    pub vmetrics: Option<VMetrics>,
    /// code point -> glyph id; must be sorted by code point, no duplicates.
    pub cmap: Vec<(u32, u16)>,
    pub cmap_format: CmapFormat,
    /// (base, variation selector, glyph): cmap format 14 non-default UVS mappings under
    /// platform 0 / encoding 5; must be sorted by (selector, base); empty => no subtable.
    pub cmap14: Vec<(u32, u32, u16)>,
    pub gdef: Option<Gdef>,
    pub gsub: Option<Layout<SubstSubtable>>,
    pub gpos: Option<Layout<PosSubtable>>,
    /// OpenType 'kern' version 0 with format 0 subtables.
    pub kern: Option<Vec<KernSubtable>>,
    pub morx: Option<Morx>,
    /// AAT feature name table ('feat'); not part of the Coq `font` term (printed separately, see coq.rs).
    pub feat: Option<Feat>,
    /// TrueType outlines: per glyph None (empty glyph, no extents) or Some([x_min, y_min, x_max, y_max]) written as
    /// one rectangular contour ('glyf' + long 'loca'); not part of the Coq `font` term.
    pub glyf: Option<Vec<Option<[i16; 4]>>>,
    /// false: 'post' version 3.0 (no names); true: 'post' version 2.0 with names ".notdef", "g1", "g2", ...
    pub post_names: bool,
}

#[derive(Clone, Debug, Default)]
pub struct VMetrics {
    pub ascender: i16,
    pub descender: i16,
    pub line_gap: i16,
    /// vmtx advance height per glyph (len == num_glyphs), top side bearing 0.
    pub vadv: Vec<u16>,
}

#[derive(Clone, Copy, Debug, Default, PartialEq, Eq)]
pub enum CmapFormat {
    /// format 12 under platform 3 / encoding 10.
    #[default]
    Format12,
    /// format 4 under platform 3 / encoding 1 (BMP only; panics on code points above U+FFFF).
    Format4,
    /// both subtables (format 4 gets the BMP part of the mapping).
    Both,
    /// several encoding records: bit k of the mask = record CMAP_RANKED[k] is present.  The most preferred
    /// record present (lowest k: the order in which a shaper must look for them) holds the mapping; every
    /// other record holds a decoy mapping (glyph ids rotated by one), so choosing the wrong record shows.
    /// Records 0..3 are written as format 12, the others as format 4 (BMP part).
    Records(u8),
}

/// (platform, encoding) in order of preference: Windows full, Unicode full (6, 4), Windows BMP, Unicode BMP (3, 2, 1, 0).
pub const CMAP_RANKED: [(u16, u16); 8] = [(3, 10), (0, 6), (0, 4), (3, 1), (0, 3), (0, 2), (0, 1), (0, 0)];

impl CmapFormat {
    /// true when the record that holds the mapping is a 16-bit (format 4) one
    pub fn is_16bit(&self) -> bool {
        match self {
            CmapFormat::Format4 => true,
            CmapFormat::Records(mask) => (mask & 7) == 0,
            _ => false,
        }
    }
}

// ---------------------------------------------------------------------------------------------
// GDEF

/// GDEF version 1.0, or 1.2 with MarkGlyphSetsDef when `mark_glyph_sets` is non-empty.
/// `glyph_classes` / `mark_attach_classes` are written as ClassDef format 2 with one range per
/// maximal run of consecutive glyph ids of equal class (entries must be sorted by glyph id); an
/// empty list gives a NULL offset (no class definition at all).
#[derive(Clone, Debug, Default)]
pub struct Gdef {
    /// (glyph, class): 1 base, 2 ligature, 3 mark, 4 component.
    pub glyph_classes: Vec<(u16, u16)>,
    pub mark_attach_classes: Vec<(u16, u16)>,
    /// each set is written as a format 1 coverage (glyphs must be sorted).
    pub mark_glyph_sets: Vec<Vec<u16>>,
}

// ---------------------------------------------------------------------------------------------
// GSUB / GPOS common

#[derive(Clone, Debug)]
pub struct Layout<S> {
    /// ScriptList records in this order (parsers binary-search: sort by tag).
    pub scripts: Vec<ScriptRecord>,
    /// FeatureList records in this order (indices are referenced by LangSys).
    pub features: Vec<FeatureRecord>,
    pub lookups: Vec<Lookup<S>>,
}

impl<S> Default for Layout<S> {
    fn default() -> Self {
        Layout { scripts: Vec::new(), features: Vec::new(), lookups: Vec::new() }
    }
}

#[derive(Clone, Debug, Default)]
pub struct ScriptRecord {
    pub tag: Tag,
    pub default_langsys: Option<LangSys>,
    /// LangSysRecords in this order (sort by tag).
    pub langsys: Vec<(Tag, LangSys)>,
}

#[derive(Clone, Debug, Default)]
pub struct LangSys {
    /// None => 0xFFFF.
    pub required_feature: Option<u16>,
    pub feature_indices: Vec<u16>,
}

#[derive(Clone, Debug, Default)]
pub struct FeatureRecord {
    pub tag: Tag,
    pub lookup_indices: Vec<u16>,
}

pub mod lookup_flags {
    pub const RIGHT_TO_LEFT: u16 = 0x0001;
    pub const IGNORE_BASE_GLYPHS: u16 = 0x0002;
    pub const IGNORE_LIGATURES: u16 = 0x0004;
    pub const IGNORE_MARKS: u16 = 0x0008;
    pub const USE_MARK_FILTERING_SET: u16 = 0x0010;
    pub const MARK_ATTACHMENT_TYPE_MASK: u16 = 0xFF00;
}

#[derive(Clone, Debug)]
pub struct Lookup<S> {
    /// RightToLeft=1, IgnoreBase=2, IgnoreLigatures=4, IgnoreMarks=8, UseMarkFilteringSet=0x10,
    /// MarkAttachmentType=0xFF00.  Bit 0x10 is OR-ed in when `mark_filtering_set` is `Some`.
    pub flags: u16,
    pub mark_filtering_set: Option<u16>,
    /// all subtables of a lookup must have the same lookup type (checked).
    pub subtables: Vec<S>,
    /// wrap every subtable in an Extension subtable (GSUB type 7 / GPOS type 9, Offset32).
    pub use_extension: bool,
}

impl<S> Default for Lookup<S> {
    fn default() -> Self {
        Lookup { flags: 0, mark_filtering_set: None, subtables: Vec::new(), use_extension: false }
    }
}

impl<S> Lookup<S> {
    pub fn new(subtables: Vec<S>) -> Self {
        Lookup { flags: 0, mark_filtering_set: None, subtables, use_extension: false }
    }
    pub fn with_flags(flags: u16, subtables: Vec<S>) -> Self {
        Lookup { flags, mark_filtering_set: None, subtables, use_extension: false }
    }
    pub fn one(subtable: S) -> Self {
        Lookup::new(vec![subtable])
    }
    /// The flags word as written (bit 0x10 added when a filtering set is given).
    pub fn written_flags(&self) -> u16 {
        if self.mark_filtering_set.is_some() {
            self.flags | lookup_flags::USE_MARK_FILTERING_SET
        } else {
            self.flags
        }
    }
}

impl<S> Layout<S> {
    /// DFLT script with a default LangSys listing every feature in order.
    pub fn with_features(features: Vec<(Tag, Vec<u16>)>, lookups: Vec<Lookup<S>>) -> Self {
        let n = features.len() as u16;
        Layout {
            scripts: vec![ScriptRecord {
                tag: *b"DFLT",
                default_langsys: Some(LangSys { required_feature: None, feature_indices: (0..n).collect() }),
                langsys: Vec::new(),
            }],
            features: features
                .into_iter()
                .map(|(tag, lookup_indices)| FeatureRecord { tag, lookup_indices })
                .collect(),
            lookups,
        }
    }
    /// DFLT script, default LangSys, one feature `tag` that references lookups `0..n_top`
    /// where `n_top` = lookups.len() (all lookups, in order).
    pub fn single_feature(tag: Tag, lookups: Vec<Lookup<S>>) -> Self {
        let n = lookups.len() as u16;
        Self::with_features(vec![(tag, (0..n).collect())], lookups)
    }
    /// Like `single_feature` but the feature references only the first `n_top` lookups (the
    /// remaining ones are reachable through contextual lookups only).
    pub fn single_feature_top(tag: Tag, n_top: u16, lookups: Vec<Lookup<S>>) -> Self {
        Self::with_features(vec![(tag, (0..n_top).collect())], lookups)
    }
}

#[derive(Clone, Debug, PartialEq, Eq)]
pub enum Coverage {
    /// format 1 (glyphs must be sorted ascending).
    Glyphs(Vec<u16>),
    /// format 2: (start, end) inclusive, sorted, disjoint; startCoverageIndex is computed.
    Ranges(Vec<(u16, u16)>),
}

impl Default for Coverage {
    fn default() -> Self {
        Coverage::Glyphs(Vec::new())
    }
}

impl Coverage {
    /// Covered glyphs in coverage-index order.
    pub fn glyphs(&self) -> Vec<u16> {
        match self {
            Coverage::Glyphs(g) => g.clone(),
            Coverage::Ranges(rs) => {
                let mut out = Vec::new();
                for (s, e) in rs {
                    let mut g = *s as u32;
                    while g <= *e as u32 {
                        out.push(g as u16);
                        g += 1;
                    }
                }
                out
            }
        }
    }
    /// Coverage index of a glyph under a linear scan of `glyphs()` (what a well-formed table gives).
    pub fn index_of(&self, gid: u16) -> Option<u16> {
        self.glyphs().iter().position(|g| *g == gid).map(|i| i as u16)
    }
    pub fn len(&self) -> usize {
        match self {
            Coverage::Glyphs(g) => g.len(),
            Coverage::Ranges(rs) => rs.iter().map(|(s, e)| if e >= s { (*e - *s) as usize + 1 } else { 0 }).sum(),
        }
    }
}

#[derive(Clone, Debug, PartialEq, Eq)]
pub enum ClassDef {
    Format1 { start: u16, classes: Vec<u16> },
    /// (start, end, class), sorted, disjoint.
    Format2 { ranges: Vec<(u16, u16, u16)> },
}

impl Default for ClassDef {
    fn default() -> Self {
        ClassDef::Format2 { ranges: Vec::new() }
    }
}

impl ClassDef {
    pub fn class_of(&self, gid: u16) -> u16 {
        match self {
            ClassDef::Format1 { start, classes } => {
                if gid >= *start {
                    classes.get((gid - *start) as usize).copied().unwrap_or(0)
                } else {
                    0
                }
            }
            ClassDef::Format2 { ranges } => {
                ranges.iter().find(|(s, e, _)| *s <= gid && gid <= *e).map(|r| r.2).unwrap_or(0)
            }
        }
    }
    /// Format 2 with one range per glyph from (glyph, class) pairs (must be sorted by glyph).
    pub fn from_pairs(pairs: &[(u16, u16)]) -> ClassDef {
        ClassDef::Format2 { ranges: pairs.iter().map(|(g, c)| (*g, *g, *c)).collect() }
    }
}

#[derive(Clone, Copy, Debug, Default, PartialEq, Eq)]
pub struct SeqLookup {
    pub sequence_index: u16,
    pub lookup_index: u16,
}

#[derive(Clone, Debug, Default, PartialEq, Eq)]
pub struct Ligature {
    pub glyph: u16,
    /// components from the second one.
    pub components: Vec<u16>,
}

#[derive(Clone, Debug, Default, PartialEq, Eq)]
pub struct SeqRule {
    /// glyphs (format 1) or classes (format 2) from the second position.
    pub input: Vec<u16>,
    pub lookups: Vec<SeqLookup>,
}

#[derive(Clone, Debug, Default, PartialEq, Eq)]
pub struct ChainRule {
    /// font order: [0] is immediately before the input.
    pub backtrack: Vec<u16>,
    pub input: Vec<u16>,
    pub lookahead: Vec<u16>,
    pub lookups: Vec<SeqLookup>,
}

// ---------------------------------------------------------------------------------------------
// GSUB

#[derive(Clone, Debug)]
pub enum SubstSubtable {
    /// type 1 format 1
    Single1 { coverage: Coverage, delta: i16 },
    /// type 1 format 2 (substitutes indexed by coverage index)
    Single2 { coverage: Coverage, substitutes: Vec<u16> },
    /// type 2; an empty sequence deletes the glyph
    Multiple { coverage: Coverage, sequences: Vec<Vec<u16>> },
    /// type 3
    Alternate { coverage: Coverage, alternates: Vec<Vec<u16>> },
    /// type 4
    Ligature { coverage: Coverage, ligature_sets: Vec<Vec<Ligature>> },
    /// type 5 format 1; an empty rule set is written as a NULL offset
    Context1 { coverage: Coverage, rule_sets: Vec<Vec<SeqRule>> },
    /// type 5 format 2; rule_sets indexed by class of the first glyph; None => NULL offset
    Context2 { coverage: Coverage, class_def: ClassDef, rule_sets: Vec<Option<Vec<SeqRule>>> },
    /// type 5 format 3; coverages for every input position (non-empty)
    Context3 { coverages: Vec<Coverage>, lookups: Vec<SeqLookup> },
    /// type 6 format 1; an empty rule set is written as a NULL offset
    ChainContext1 { coverage: Coverage, rule_sets: Vec<Vec<ChainRule>> },
    /// type 6 format 2
    ChainContext2 {
        coverage: Coverage,
        backtrack_classes: ClassDef,
        input_classes: ClassDef,
        lookahead_classes: ClassDef,
        rule_sets: Vec<Option<Vec<ChainRule>>>,
    },
    /// type 6 format 3 (input non-empty; backtrack in font order)
    ChainContext3 { backtrack: Vec<Coverage>, input: Vec<Coverage>, lookahead: Vec<Coverage>, lookups: Vec<SeqLookup> },
    /// type 8
    ReverseChain { coverage: Coverage, backtrack: Vec<Coverage>, lookahead: Vec<Coverage>, substitutes: Vec<u16> },
}

// ---------------------------------------------------------------------------------------------
// GPOS

#[derive(Clone, Copy, Debug, Default, PartialEq, Eq)]
pub struct ValueRecord {
    pub x_placement: i16,
    pub y_placement: i16,
    pub x_advance: i16,
    pub y_advance: i16,
    /// device tables for x_placement, y_placement, x_advance, y_advance (not mirrored in the Coq font term:
    /// only generators of model-free invariant checks set them)
    pub devices: [Option<DeviceSpec>; 4],
}

/// A hinting Device table (delta format 3: one signed byte per ppem size) with the same delta at every size
/// of [start_size, end_size].
#[derive(Clone, Copy, Debug, Default, PartialEq, Eq)]
pub struct DeviceSpec {
    pub start_size: u16,
    pub end_size: u16,
    pub delta: i8,
}

impl ValueRecord {
    pub const ZERO: ValueRecord = ValueRecord { x_placement: 0, y_placement: 0, x_advance: 0, y_advance: 0, devices: [None; 4] };
    pub fn xadv(v: i16) -> Self {
        ValueRecord { x_advance: v, ..Self::ZERO }
    }
    pub fn new(x_placement: i16, y_placement: i16, x_advance: i16, y_advance: i16) -> Self {
        ValueRecord { x_placement, y_placement, x_advance, y_advance, devices: [None; 4] }
    }
    /// Value-format bits of the non-zero fields (XPlacement 1, YPlacement 2, XAdvance 4, YAdvance 8) and of
    /// the device tables present (XPlaDevice 0x10, YPlaDevice 0x20, XAdvDevice 0x40, YAdvDevice 0x80).
    pub fn nonzero_bits(&self) -> u16 {
        (self.x_placement != 0) as u16
            | ((self.y_placement != 0) as u16) << 1
            | ((self.x_advance != 0) as u16) << 2
            | ((self.y_advance != 0) as u16) << 3
            | (self.devices[0].is_some() as u16) << 4
            | (self.devices[1].is_some() as u16) << 5
            | (self.devices[2].is_some() as u16) << 6
            | (self.devices[3].is_some() as u16) << 7
    }
}

/// How the ValueFormat word of a positioning subtable is derived.
#[derive(Clone, Copy, Debug, Default, PartialEq, Eq)]
pub enum ValueFormat {
    /// a bit is set iff at least one record of the subtable (in that slot) has the field non-zero.
    #[default]
    NonZero,
    /// always 0x000F (all four fields written).
    All,
}

/// The ValueFormat word `build` writes for a set of records under `mode`.
pub fn value_format_of<'a>(records: impl IntoIterator<Item = &'a ValueRecord>, mode: ValueFormat) -> u16 {
    match mode {
        ValueFormat::All => records.into_iter().fold(0x000F, |a, r| a | (r.nonzero_bits() & 0x00F0)),
        ValueFormat::NonZero => records.into_iter().fold(0, |a, r| a | r.nonzero_bits()),
    }
}

/// Anchor format 1.
#[derive(Clone, Copy, Debug, Default, PartialEq, Eq)]
pub struct Anchor {
    pub x: i16,
    pub y: i16,
}

#[derive(Clone, Debug)]
pub enum PosSubtable {
    /// type 1 format 1
    Single1 { coverage: Coverage, value: ValueRecord, vf: ValueFormat },
    /// type 1 format 2 (values indexed by coverage index)
    Single2 { coverage: Coverage, values: Vec<ValueRecord>, vf: ValueFormat },
    /// type 2 format 1: pair_sets[coverage index] = (second glyph, value1, value2), sorted by second glyph
    Pair1 { coverage: Coverage, pair_sets: Vec<Vec<(u16, ValueRecord, ValueRecord)>>, vf: ValueFormat },
    /// type 2 format 2: records[class1][class2]; class1Count = records.len(), class2Count = records[0].len()
    Pair2 { coverage: Coverage, class_def1: ClassDef, class_def2: ClassDef, records: Vec<Vec<(ValueRecord, ValueRecord)>>, vf: ValueFormat },
    /// type 3: entry_exit[coverage index] = (entry, exit)
    Cursive { coverage: Coverage, entry_exit: Vec<(Option<Anchor>, Option<Anchor>)> },
    /// type 4: marks[mark coverage index] = (class, anchor); bases[base coverage index][class]
    MarkBase { mark_coverage: Coverage, base_coverage: Coverage, class_count: u16, marks: Vec<(u16, Anchor)>, bases: Vec<Vec<Option<Anchor>>> },
    /// type 5: ligatures[lig coverage index][component][class]
    MarkLig { mark_coverage: Coverage, lig_coverage: Coverage, class_count: u16, marks: Vec<(u16, Anchor)>, ligatures: Vec<Vec<Vec<Option<Anchor>>>> },
    /// type 6: mark1 attaches to mark2; mark2s[mark2 coverage index][class]
    MarkMark { mark1_coverage: Coverage, mark2_coverage: Coverage, class_count: u16, marks: Vec<(u16, Anchor)>, mark2s: Vec<Vec<Option<Anchor>>> },
    /// type 7 formats 1..3 (same shapes as GSUB type 5)
    Context1 { coverage: Coverage, rule_sets: Vec<Vec<SeqRule>> },
    Context2 { coverage: Coverage, class_def: ClassDef, rule_sets: Vec<Option<Vec<SeqRule>>> },
    Context3 { coverages: Vec<Coverage>, lookups: Vec<SeqLookup> },
    /// type 8 formats 1..3 (same shapes as GSUB type 6)
    ChainContext1 { coverage: Coverage, rule_sets: Vec<Vec<ChainRule>> },
    ChainContext2 {
        coverage: Coverage,
        backtrack_classes: ClassDef,
        input_classes: ClassDef,
        lookahead_classes: ClassDef,
        rule_sets: Vec<Option<Vec<ChainRule>>>,
    },
    ChainContext3 { backtrack: Vec<Coverage>, input: Vec<Coverage>, lookahead: Vec<Coverage>, lookups: Vec<SeqLookup> },
}

// ---------------------------------------------------------------------------------------------
// kern

/// One OpenType 'kern' (version 0) format 0 subtable.
#[derive(Clone, Debug, Default)]
pub struct KernSubtable {
    pub horizontal: bool,
    pub minimum: bool,
    pub cross_stream: bool,
    pub override_: bool,
    /// (left, right, value), sorted by (left, right).
    pub pairs: Vec<(u16, u16, i16)>,
}

// ---------------------------------------------------------------------------------------------
// feat

/// AAT 'feat' table.  `names` must be sorted by `feature` (ttf-parser binary-searches it).
#[derive(Clone, Debug, Default)]
pub struct Feat {
    pub names: Vec<FeatName>,
}

/// One feature name record: feature type, its setting selectors (written in this order), the
/// exclusive-settings flag (featureFlags 0x8000) and an optional default setting index (0x4000).
#[derive(Clone, Debug, Default, PartialEq, Eq)]
pub struct FeatName {
    pub feature: u16,
    pub settings: Vec<u16>,
    pub exclusive: bool,
    pub default_index: Option<u8>,
}

// ---------------------------------------------------------------------------------------------
// morx

pub mod morx_coverage {
    pub const VERTICAL: u32 = 0x8000_0000;
    pub const BACKWARDS: u32 = 0x4000_0000;
    pub const ALL_DIRECTIONS: u32 = 0x2000_0000;
    pub const LOGICAL: u32 = 0x1000_0000;
}

#[derive(Clone, Debug)]
pub struct Morx {
    /// 2 or 3 (version 3 gets an all-zero subtable glyph coverage array after each chain's subtables).
    pub version: u16,
    pub chains: Vec<MorxChain>,
}

impl Default for Morx {
    fn default() -> Self {
        Morx { version: 2, chains: Vec::new() }
    }
}

#[derive(Clone, Debug, Default)]
pub struct MorxChain {
    pub default_flags: u32,
    pub features: Vec<MorxFeature>,
    pub subtables: Vec<MorxSubtable>,
}

#[derive(Clone, Copy, Debug, Default, PartialEq, Eq)]
pub struct MorxFeature {
    pub feature_type: u16,
    pub feature_setting: u16,
    pub enable_flags: u32,
    pub disable_flags: u32,
}

#[derive(Clone, Debug)]
pub struct MorxSubtable {
    /// coverage word: the high byte carries the flags (see `morx_coverage`); the low byte (subtable
    /// type) is derived from `kind` and overwrites whatever is given here.
    pub coverage: u32,
    pub sub_feature_flags: u32,
    pub kind: MorxKind,
}

/// AAT lookup table.  `map` is (glyph, value) sorted by glyph without duplicates.
/// * format 0: one value per glyph 0..num_glyphs; glyphs absent from `map` get the fill value.
/// * format 2: one segment per maximal run of consecutive glyphs with equal value, nUnits without
///   the terminator, followed by the 0xFFFF/0xFFFF terminator segment.
/// * format 6: one (glyph, value) entry per pair, followed by the 0xFFFF terminator entry.
/// * format 8: trimmed array from the first to the last glyph of `map`; gaps get the fill value.
/// Fill value: `fill` when `Some`, otherwise 1 (OUT_OF_BOUNDS) for class tables and the glyph id
/// itself for glyph substitution tables (identity).
#[derive(Clone, Debug, Default)]
pub struct AatLookup {
    pub format: u8,
    pub map: Vec<(u16, u16)>,
    pub fill: Option<u16>,
}

impl AatLookup {
    pub fn new(format: u8, map: Vec<(u16, u16)>) -> Self {
        AatLookup { format, map, fill: None }
    }
}

/// Extended state table.  Classes 0..3 are predefined (0 end of text, 1 out of bounds, 2 deleted
/// glyph, 3 end of line); custom classes start at 4.  States 0 (start of text) and 1 (start of
/// line) are predefined.  `states[state][class]` is an index into `entries`; every row must
/// have `n_classes` elements.  `new_state` in entries is a state (row) index.
#[derive(Clone, Debug)]
pub struct StateTable<E> {
    pub n_classes: u32,
    pub class_lookup: AatLookup,
    pub states: Vec<Vec<u16>>,
    pub entries: Vec<E>,
}

impl<E> Default for StateTable<E> {
    fn default() -> Self {
        StateTable { n_classes: 4, class_lookup: AatLookup::default(), states: Vec::new(), entries: Vec::new() }
    }
}

/// flags: markFirst 0x8000, dontAdvance 0x4000, markLast 0x2000, verb 0x000F.
#[derive(Clone, Copy, Debug, Default, PartialEq, Eq)]
pub struct RearrEntry {
    pub new_state: u16,
    pub flags: u16,
}

/// flags: setMark 0x8000, dontAdvance 0x4000; indices 0xFFFF = no substitution.
#[derive(Clone, Copy, Debug, Default, PartialEq, Eq)]
pub struct CtxEntry {
    pub new_state: u16,
    pub flags: u16,
    pub mark_index: u16,
    pub current_index: u16,
}

/// flags: setComponent 0x8000, dontAdvance 0x4000, performAction 0x2000.
#[derive(Clone, Copy, Debug, Default, PartialEq, Eq)]
pub struct LigEntry {
    pub new_state: u16,
    pub flags: u16,
    pub lig_action_index: u16,
}

/// flags: setMark 0x8000, dontAdvance 0x4000, currentIsKashidaLike 0x2000, markedIsKashidaLike
/// 0x1000, currentInsertBefore 0x0800, markedInsertBefore 0x0400, currentInsertCount 0x03E0,
/// markedInsertCount 0x001F; indices 0xFFFF = no insertion.
#[derive(Clone, Copy, Debug, Default, PartialEq, Eq)]
pub struct InsEntry {
    pub new_state: u16,
    pub flags: u16,
    pub current_insert_index: u16,
    pub marked_insert_index: u16,
}

#[derive(Clone, Debug)]
pub enum MorxKind {
    /// type 0
    Rearrangement(StateTable<RearrEntry>),
    /// type 1
    Contextual { table: StateTable<CtxEntry>, substitutions: Vec<AatLookup> },
    /// type 2; lig_actions: last 0x80000000, store 0x40000000, offset = low 30 bits (signed)
    Ligature { table: StateTable<LigEntry>, lig_actions: Vec<u32>, components: Vec<u16>, ligatures: Vec<u16> },
    /// type 4
    NonContextual(AatLookup),
    /// type 5
    Insertion { table: StateTable<InsEntry>, glyphs: Vec<u16> },
}

impl MorxKind {
    pub fn type_code(&self) -> u8 {
        match self {
            MorxKind::Rearrangement(_) => 0,
            MorxKind::Contextual { .. } => 1,
            MorxKind::Ligature { .. } => 2,
            MorxKind::NonContextual(_) => 4,
            MorxKind::Insertion { .. } => 5,
        }
    }
}

/// Encode a signed ligature-action offset (component index = glyph id + offset) with flags.
pub fn lig_action(offset: i32, store: bool, last: bool) -> u32 {
    ((offset as u32) & 0x3FFF_FFFF) | if store { 0x4000_0000 } else { 0 } | if last { 0x8000_0000 } else { 0 }
}

// ---------------------------------------------------------------------------------------------
// constructors

impl FontSpec {
    /// `num_glyphs` glyphs (glyph 0 = .notdef), U+E000+i -> glyph i+1 for i in 0..num_glyphs-1,
    /// unitsPerEm 1000, ascender 800, descender -200, hadv[g] = 500 + 10*g, format 12 cmap.
    pub fn basic(num_glyphs: u16) -> FontSpec {
        assert!(num_glyphs >= 1);
        FontSpec {
            num_glyphs,
            units_per_em: 1000,
            ascender: 800,
            descender: -200,
            line_gap: 0,
            os2: None,
            raw_tables: Vec::new(),
            hadv: (0..num_glyphs).map(Self::basic_hadv).collect(),
            vmetrics: None,
            cmap: (1..num_glyphs).map(|g| (pua(g as u32 - 1), g)).collect(),
            cmap_format: CmapFormat::Format12,
            cmap14: Vec::new(),
            gdef: None,
            gsub: None,
            gpos: None,
            kern: None,
            morx: None,
            feat: None,
            glyf: None,
            post_names: false,
        }
    }
    /// The face's horizontal line metrics (ascender, descender) as the font's own tables define them: OS/2 typographic
    /// metrics when OS/2 version >= 4 sets USE_TYPO_METRICS; else hhea's, where a zero falls back to OS/2 typographic and
    /// then to the (negated, for the descender) Windows metrics.
    pub fn line_metrics(&self) -> (i16, i16) {
        if let Some(o) = &self.os2 {
            if o.version >= 4 && o.fs_selection & 0x80 != 0 {
                return (o.typo_ascender, o.typo_descender);
            }
        }
        let mut a = self.ascender;
        let mut d = self.descender;
        if let Some(o) = &self.os2 {
            if a == 0 {
                a = if o.typo_ascender != 0 { o.typo_ascender } else { o.win_ascent as i16 };
            }
            if d == 0 {
                d = if o.typo_descender != 0 { o.typo_descender } else { (o.win_descent as i16).wrapping_neg() };
            }
        }
        (a, d)
    }
    /// The advance `basic` gives to glyph `g`.
    pub fn basic_hadv(g: u16) -> u16 {
        500u16.wrapping_add(10u16.wrapping_mul(g))
    }
    /// vhea/vmtx with vadv[g] = 1000 + 10*g, vertical ascender 500 / descender -500.
    pub fn with_basic_vmetrics(mut self) -> FontSpec {
        self.vmetrics = Some(VMetrics {
            ascender: 500,
            descender: -500,
            line_gap: 0,
            vadv: (0..self.num_glyphs).map(|g| 1000u16.wrapping_add(10u16.wrapping_mul(g))).collect(),
        });
        self
    }
}

/// Build the font file.
pub fn build(spec: &FontSpec) -> Vec<u8> {
    sfnt::build(spec)
}

/// Well-formedness conditions that the parsers (binary searches) rely on; returns one message
/// per violation.  `build` does not call this: ill-formed tables can be generated on purpose.
pub fn check(spec: &FontSpec) -> Vec<String> {
    let mut v = Vec::new();
    let n = spec.num_glyphs as usize;
    if spec.num_glyphs == 0 {
        v.push("num_glyphs is 0".into());
    }
    if !(16..=16384).contains(&spec.units_per_em) {
        v.push("units_per_em outside 16..=16384".into());
    }
    if spec.hadv.len() != n {
        v.push("hadv.len() != num_glyphs".into());
    }
    if let Some(f) = &spec.feat {
        if !f.names.windows(2).all(|w| w[0].feature < w[1].feature) {
            v.push("feat.names not strictly sorted by feature type".into());
        }
    }
    if let Some(vm) = &spec.vmetrics {
        if vm.vadv.len() != n {
            v.push("vadv.len() != num_glyphs".into());
        }
    }
    if !spec.cmap.windows(2).all(|w| w[0].0 < w[1].0) {
        v.push("cmap not strictly sorted by code point".into());
    }
    if !spec.cmap14.windows(2).all(|w| (w[0].1, w[0].0) < (w[1].1, w[1].0)) {
        v.push("cmap14 not strictly sorted by (selector, base)".into());
    }
    if let Some(g) = &spec.gdef {
        if !g.glyph_classes.windows(2).all(|w| w[0].0 < w[1].0) {
            v.push("gdef.glyph_classes not sorted".into());
        }
        if !g.mark_attach_classes.windows(2).all(|w| w[0].0 < w[1].0) {
            v.push("gdef.mark_attach_classes not sorted".into());
        }
        for (i, s) in g.mark_glyph_sets.iter().enumerate() {
            if !s.windows(2).all(|w| w[0] < w[1]) {
                v.push(format!("gdef.mark_glyph_sets[{i}] not sorted"));
            }
        }
    }
    fn check_layout<S>(name: &str, l: &Layout<S>, covs: impl Fn(&S) -> Vec<Coverage>, v: &mut Vec<String>) {
        if !l.scripts.windows(2).all(|w| w[0].tag < w[1].tag) {
            v.push(format!("{name}: scripts not sorted by tag"));
        }
        for s in &l.scripts {
            if !s.langsys.windows(2).all(|w| w[0].0 < w[1].0) {
                v.push(format!("{name}: langsys of script {:?} not sorted by tag", s.tag));
            }
            for ls in s.default_langsys.iter().chain(s.langsys.iter().map(|x| &x.1)) {
                for f in ls.feature_indices.iter().chain(ls.required_feature.iter()) {
                    if *f as usize >= l.features.len() {
                        v.push(format!("{name}: feature index {f} out of range"));
                    }
                }
            }
        }
        for f in &l.features {
            for li in &f.lookup_indices {
                if *li as usize >= l.lookups.len() {
                    v.push(format!("{name}: lookup index {li} out of range"));
                }
            }
        }
        for (i, lk) in l.lookups.iter().enumerate() {
            for (j, st) in lk.subtables.iter().enumerate() {
                for c in covs(st) {
                    let ok = match &c {
                        Coverage::Glyphs(g) => g.windows(2).all(|w| w[0] < w[1]),
                        Coverage::Ranges(r) => r.iter().all(|(s, e)| s <= e) && r.windows(2).all(|w| w[0].1 < w[1].0),
                    };
                    if !ok {
                        v.push(format!("{name}: lookup {i} subtable {j}: coverage not sorted"));
                    }
                }
            }
        }
    }
    if let Some(l) = &spec.gsub {
        check_layout("GSUB", l, layout::subst_coverages, &mut v);
    }
    if let Some(l) = &spec.gpos {
        check_layout("GPOS", l, layout::pos_coverages, &mut v);
    }
    if let Some(k) = &spec.kern {
        for (i, st) in k.iter().enumerate() {
            if !st.pairs.windows(2).all(|w| (w[0].0, w[0].1) < (w[1].0, w[1].1)) {
                v.push(format!("kern subtable {i}: pairs not strictly sorted"));
            }
        }
    }
    v
}
