//! fontgen: binary sfnt writer for generated test fonts (stub).
