//! `rbv fontgen-selftest`: builds one small font per table/subtable kind, parses it with
//! rustybuzz and shapes PUA text through the public API; every expectation below was derived by
//! hand from the OpenType / AAT semantics (not recorded from the implementation).
use super::*;
use crate::shp::{shape_req, Req, G};
use rustybuzz::ttf_parser;
use rustybuzz::Direction;

type R = Result<(), String>;

fn face(bytes: &[u8]) -> Result<rustybuzz::Face<'_>, String> {
    rustybuzz::Face::from_slice(bytes, 0).ok_or_else(|| "Face::from_slice rejected the font".to_string())
}

/// Request whose text is the PUA characters of the given glyph ids (glyph g <-> U+E000+g-1).
fn req(gids: &[u16]) -> Req {
    Req { text: gids.iter().enumerate().map(|(i, g)| (pua(*g as u32 - 1), i as u32)).collect(), ..Req::default() }
}

fn shape_with(spec: &FontSpec, r: &Req) -> Result<Vec<G>, String> {
    let problems = check(spec);
    if !problems.is_empty() {
        return Err(format!("spec not well-formed: {}", problems.join("; ")));
    }
    let bytes = build(spec);
    let f = face(&bytes)?;
    Ok(shape_req(&f, r))
}

fn shape(spec: &FontSpec, gids: &[u16], feats: &[&str]) -> Result<Vec<G>, String> {
    let mut r = req(gids);
    r.features = feats.iter().map(|s| s.to_string()).collect();
    shape_with(spec, &r)
}

fn ids(gs: &[G]) -> Vec<u32> {
    gs.iter().map(|g| g.gid).collect()
}

fn eq<T: PartialEq + std::fmt::Debug>(what: &str, got: T, want: T) -> R {
    if got == want {
        Ok(())
    } else {
        Err(format!("{what}: got {got:?}, want {want:?}"))
    }
}

/// Shape `gids` and compare the resulting glyph ids.
fn expect_ids(spec: &FontSpec, gids: &[u16], feats: &[&str], want: &[u32]) -> R {
    let out = shape(spec, gids, feats)?;
    eq(&format!("glyphs for input {gids:?}"), ids(&out), want.to_vec())
}

/// Shape `gids` and compare (gid, x_advance, y_advance, x_offset, y_offset).
fn expect_pos(spec: &FontSpec, gids: &[u16], feats: &[&str], want: &[(u32, i32, i32, i32, i32)]) -> R {
    let out = shape(spec, gids, feats)?;
    let got: Vec<(u32, i32, i32, i32, i32)> = out.iter().map(|g| (g.gid, g.xa, g.ya, g.xo, g.yo)).collect();
    eq(&format!("positions for input {gids:?}"), got, want.to_vec())
}

fn adv(g: u16) -> i32 {
    FontSpec::basic_hadv(g) as i32
}

fn cov(g: &[u16]) -> Coverage {
    Coverage::Glyphs(g.to_vec())
}

/// single substitution a -> b as a lookup
fn sub(a: u16, b: u16) -> Lookup<SubstSubtable> {
    Lookup::one(SubstSubtable::Single2 { coverage: cov(&[a]), substitutes: vec![b] })
}

fn sl(sequence_index: u16, lookup_index: u16) -> SeqLookup {
    SeqLookup { sequence_index, lookup_index }
}

fn gsub_font(top: u16, lookups: Vec<Lookup<SubstSubtable>>) -> FontSpec {
    let mut s = FontSpec::basic(24);
    s.gsub = Some(Layout::single_feature_top(*b"liga", top, lookups));
    s
}

fn gpos_font(top: u16, lookups: Vec<Lookup<PosSubtable>>) -> FontSpec {
    let mut s = FontSpec::basic(24);
    s.gpos = Some(Layout::single_feature_top(*b"kern", top, lookups));
    s
}

fn xadv(v: i16) -> ValueRecord {
    ValueRecord::xadv(v)
}

/// GDEF used by the mark tests: 1,2 base; 3 ligature; 10,11,12 marks (attach classes 10->1, 11->2).
fn mark_gdef() -> Gdef {
    Gdef {
        glyph_classes: vec![(1, 1), (2, 1), (3, 2), (10, 3), (11, 3), (12, 3)],
        mark_attach_classes: vec![(10, 1), (11, 2)],
        mark_glyph_sets: vec![vec![10], vec![11, 12]],
    }
}

// ---------------------------------------------------------------------------------------------
// sfnt / basic tables

fn t_sfnt() -> R {
    let mut spec = FontSpec::basic(8);
    spec.post_names = true;
    let bytes = build(&spec);
    // whole-file checksum and directory
    let mut sum = 0u32;
    for c in bytes.chunks(4) {
        let mut w = [0u8; 4];
        w[..c.len()].copy_from_slice(c);
        sum = sum.wrapping_add(u32::from_be_bytes(w));
    }
    eq("whole-file checksum", sum, 0xB1B0_AFBA)?;
    eq("length multiple of 4", bytes.len() % 4, 0)?;
    let n = u16::from_be_bytes([bytes[4], bytes[5]]) as usize;
    let mut prev = [0u8; 4];
    for i in 0..n {
        let r = &bytes[12 + 16 * i..12 + 16 * i + 16];
        let tag = [r[0], r[1], r[2], r[3]];
        if tag <= prev {
            return Err("table directory not sorted".into());
        }
        prev = tag;
        let cs = u32::from_be_bytes([r[4], r[5], r[6], r[7]]);
        let off = u32::from_be_bytes([r[8], r[9], r[10], r[11]]) as usize;
        let len = u32::from_be_bytes([r[12], r[13], r[14], r[15]]) as usize;
        eq("table offset alignment", off % 4, 0)?;
        let mut data = bytes[off..off + len].to_vec();
        if &tag == b"head" {
            data[8..12].copy_from_slice(&[0; 4]);
        }
        let mut s = 0u32;
        for c in data.chunks(4) {
            let mut w = [0u8; 4];
            w[..c.len()].copy_from_slice(c);
            s = s.wrapping_add(u32::from_be_bytes(w));
        }
        eq(&format!("checksum of {}", String::from_utf8_lossy(&tag)), s, cs)?;
    }
    let f = face(&bytes)?;
    eq("units_per_em", f.units_per_em(), 1000)?;
    eq("number_of_glyphs", f.number_of_glyphs(), 8)?;
    eq("ascender", f.ascender(), 800)?;
    eq("descender", f.descender(), -200)?;
    eq("hor advance", f.glyph_hor_advance(ttf_parser::GlyphId(3)), Some(530))?;
    eq("glyph name", f.glyph_name(ttf_parser::GlyphId(3)), Some("g3"))?;
    eq("glyph name 0", f.glyph_name(ttf_parser::GlyphId(0)), Some(".notdef"))?;
    // deterministic
    eq("deterministic", build(&spec), bytes.clone())?;
    Ok(())
}

fn t_cmap() -> R {
    for fmt in [CmapFormat::Format12, CmapFormat::Format4, CmapFormat::Both] {
        let mut spec = FontSpec::basic(8);
        spec.cmap_format = fmt;
        // break the single run: non-consecutive code points and glyph ids
        spec.cmap = vec![(0x41, 7), (pua(0), 1), (pua(1), 2), (pua(2), 5), (pua(4), 6)];
        let mut r = Req::default();
        r.text = vec![(pua(0), 0), (pua(1), 1), (pua(2), 2), (pua(3), 3), (pua(4), 4), (0x41, 5)];
        let out = shape_with(&spec, &r)?;
        eq(
            &format!("{fmt:?}"),
            out.iter().map(|g| (g.gid, g.xa)).collect::<Vec<_>>(),
            vec![(1, adv(1)), (2, adv(2)), (5, adv(5)), (0, adv(0)), (6, adv(6)), (7, adv(7))],
        )?;
    }
    // supplementary plane needs format 12
    for fmt in [CmapFormat::Format12, CmapFormat::Both] {
        let mut spec = FontSpec::basic(8);
        spec.cmap_format = fmt;
        spec.cmap.push((0xF0000, 7));
        let mut r = Req::default();
        r.text = vec![(0xF0000, 0), (pua(0), 1)];
        eq("plane 15", ids(&shape_with(&spec, &r)?), vec![7, 1])?;
    }
    Ok(())
}

fn t_cmap14() -> R {
    let mut spec = FontSpec::basic(8);
    spec.cmap14 = vec![(pua(0), 0xFE00, 5), (pua(2), 0xFE00, 6), (pua(0), 0xFE01, 7)];
    let bytes = build(&spec);
    let f = face(&bytes)?;
    let c = |u: u32| char::from_u32(u).unwrap();
    eq("uvs 1", f.glyph_variation_index(c(pua(0)), c(0xFE00)), Some(ttf_parser::GlyphId(5)))?;
    eq("uvs 2", f.glyph_variation_index(c(pua(2)), c(0xFE00)), Some(ttf_parser::GlyphId(6)))?;
    eq("uvs 3", f.glyph_variation_index(c(pua(0)), c(0xFE01)), Some(ttf_parser::GlyphId(7)))?;
    eq("uvs none", f.glyph_variation_index(c(pua(1)), c(0xFE00)), None)?;
    let mut r = Req::default();
    r.text = vec![(pua(0), 0), (0xFE00, 1), (pua(1), 2), (pua(0), 3), (0xFE01, 4)];
    let out = shape_with(&spec, &r)?;
    // the selector is consumed: it is a default ignorable, the font has no space glyph, so it is deleted
    eq("cmap14 shaping", out.iter().map(|g| (g.gid, g.cluster)).collect::<Vec<_>>(), vec![(5, 0), (2, 2), (7, 3)])?;
    Ok(())
}

fn t_vmtx() -> R {
    let spec = FontSpec::basic(6).with_basic_vmetrics();
    let bytes = build(&spec);
    let f = face(&bytes)?;
    eq("ver advance", f.glyph_ver_advance(ttf_parser::GlyphId(2)), Some(1020))?;
    eq("vertical ascender", f.vertical_ascender(), Some(500))?;
    let mut r = req(&[1, 2]);
    r.dir = Some(Direction::TopToBottom);
    let out = shape_req(&f, &r);
    eq("ttb advances", out.iter().map(|g| (g.gid, g.xa, g.ya)).collect::<Vec<_>>(), vec![(1, 0, -1010), (2, 0, -1020)])?;
    // without vmtx the vertical advance falls back to ascender - descender
    let spec2 = FontSpec::basic(6);
    let out2 = shape_with(&spec2, &r)?;
    eq("ttb fallback", out2.iter().map(|g| (g.gid, g.xa, g.ya)).collect::<Vec<_>>(), vec![(1, 0, -1000), (2, 0, -1000)])?;
    Ok(())
}

// ---------------------------------------------------------------------------------------------
// GSUB

fn t_gsub_single() -> R {
    let s1 = gsub_font(1, vec![Lookup::one(SubstSubtable::Single1 { coverage: cov(&[1, 4]), delta: 2 })]);
    expect_ids(&s1, &[1, 2, 4], &[], &[3, 2, 6])?;
    let neg = gsub_font(1, vec![Lookup::one(SubstSubtable::Single1 { coverage: cov(&[5]), delta: -3 })]);
    expect_ids(&neg, &[5, 6], &[], &[2, 6])?;
    // format 2 with a range coverage: coverage indices 0,1 (glyphs 1,2) and 2 (glyph 5)
    let s2 = gsub_font(
        1,
        vec![Lookup::one(SubstSubtable::Single2 { coverage: Coverage::Ranges(vec![(1, 2), (5, 5)]), substitutes: vec![7, 8, 9] })],
    );
    expect_ids(&s2, &[1, 2, 3, 5], &[], &[7, 8, 3, 9])?;
    // feature off
    expect_ids(&s2, &[1, 2, 3, 5], &["-liga"], &[1, 2, 3, 5])?;
    // two subtables of different formats in one lookup: the first covering subtable wins
    let s3 = gsub_font(
        1,
        vec![Lookup::new(vec![
            SubstSubtable::Single1 { coverage: cov(&[1]), delta: 1 },
            SubstSubtable::Single2 { coverage: cov(&[1, 2]), substitutes: vec![8, 9] },
        ])],
    );
    expect_ids(&s3, &[1, 2], &[], &[2, 9])?;
    // two lookups applied in lookup-list order: 1 -> 2 then 2 -> 9
    let s4 = gsub_font(2, vec![sub(1, 2), sub(2, 9)]);
    expect_ids(&s4, &[1, 2], &[], &[9, 9])?;
    Ok(())
}

fn t_gsub_multiple() -> R {
    let s = gsub_font(1, vec![Lookup::one(SubstSubtable::Multiple { coverage: cov(&[1, 4]), sequences: vec![vec![2, 3], vec![]] })]);
    expect_ids(&s, &[1, 5, 4, 6], &[], &[2, 3, 5, 6])?;
    let out = shape(&s, &[1, 5], &[])?;
    eq("clusters", out.iter().map(|g| g.cluster).collect::<Vec<_>>(), vec![0, 0, 1])?;
    Ok(())
}

fn t_gsub_alternate() -> R {
    let mut s = FontSpec::basic(24);
    s.gsub = Some(Layout::single_feature(
        *b"aalt",
        vec![Lookup::one(SubstSubtable::Alternate { coverage: cov(&[1, 2]), alternates: vec![vec![5, 6, 7], vec![8]] })],
    ));
    expect_ids(&s, &[1, 2], &[], &[1, 2])?;
    expect_ids(&s, &[1, 2], &["aalt=1"], &[5, 8])?;
    expect_ids(&s, &[1, 2], &["aalt=2"], &[6, 2])?;
    expect_ids(&s, &[1, 2], &["aalt=3"], &[7, 2])?;
    Ok(())
}

fn lig(glyph: u16, components: &[u16]) -> Ligature {
    Ligature { glyph, components: components.to_vec() }
}

fn t_gsub_ligature() -> R {
    let s = gsub_font(
        1,
        vec![Lookup::one(SubstSubtable::Ligature {
            coverage: cov(&[1, 6]),
            ligature_sets: vec![vec![lig(5, &[2, 4]), lig(3, &[2])], vec![lig(7, &[6, 6])]],
        })],
    );
    expect_ids(&s, &[1, 2, 4], &[], &[5])?;
    expect_ids(&s, &[1, 2, 8], &[], &[3, 8])?;
    expect_ids(&s, &[6, 6, 6, 6], &[], &[7, 6])?;
    expect_ids(&s, &[2, 1], &[], &[2, 1])?;
    let out = shape(&s, &[9, 1, 2, 9], &[])?;
    eq("lig clusters", out.iter().map(|g| (g.gid, g.cluster)).collect::<Vec<_>>(), vec![(9, 0), (3, 1), (9, 3)])?;
    Ok(())
}

fn t_gsub_context() -> R {
    // format 1: 1 followed by 2 -> substitute the 2 by 9; second rule set empty (NULL)
    let f1 = gsub_font(
        1,
        vec![
            Lookup::one(SubstSubtable::Context1 {
                coverage: cov(&[1, 3]),
                rule_sets: vec![vec![SeqRule { input: vec![2], lookups: vec![sl(1, 1)] }], vec![]],
            }),
            sub(2, 9),
        ],
    );
    expect_ids(&f1, &[1, 2, 3, 2, 2], &[], &[1, 9, 3, 2, 2])?;
    // format 2: class 1 = {1}, class 2 = {2,3}; rule for class 1: [1][2][2] -> substitute position 0
    let f2 = gsub_font(
        1,
        vec![
            Lookup::one(SubstSubtable::Context2 {
                coverage: cov(&[1, 2]),
                class_def: ClassDef::Format1 { start: 1, classes: vec![1, 2, 2] },
                rule_sets: vec![None, Some(vec![SeqRule { input: vec![2, 2], lookups: vec![sl(0, 1), sl(2, 2)] }]), None],
            }),
            sub(1, 9),
            sub(3, 10),
        ],
    );
    expect_ids(&f2, &[1, 2, 3], &[], &[9, 2, 10])?;
    expect_ids(&f2, &[1, 2, 4], &[], &[1, 2, 4])?;
    expect_ids(&f2, &[2, 2, 3], &[], &[2, 2, 3])?;
    // format 3
    let f3 = gsub_font(
        1,
        vec![
            Lookup::one(SubstSubtable::Context3 {
                coverages: vec![cov(&[1]), Coverage::Ranges(vec![(2, 3)]), cov(&[4])],
                lookups: vec![sl(1, 1)],
            }),
            Lookup::one(SubstSubtable::Single1 { coverage: cov(&[2, 3]), delta: 10 }),
        ],
    );
    expect_ids(&f3, &[1, 3, 4], &[], &[1, 13, 4])?;
    expect_ids(&f3, &[1, 2, 4], &[], &[1, 12, 4])?;
    expect_ids(&f3, &[1, 3, 5], &[], &[1, 3, 5])?;
    Ok(())
}

fn t_gsub_chain() -> R {
    // backtrack is in font order: [3, 5] means "... 5 3 <input>"
    let rule = ChainRule { backtrack: vec![3, 5], input: vec![2], lookahead: vec![4, 6], lookups: vec![sl(0, 1), sl(1, 2)] };
    let f1 = gsub_font(
        1,
        vec![Lookup::one(SubstSubtable::ChainContext1 { coverage: cov(&[1]), rule_sets: vec![vec![rule.clone()]] }), sub(1, 9), sub(2, 10)],
    );
    expect_ids(&f1, &[5, 3, 1, 2, 4, 6], &[], &[5, 3, 9, 10, 4, 6])?;
    expect_ids(&f1, &[3, 5, 1, 2, 4, 6], &[], &[3, 5, 1, 2, 4, 6])?;
    expect_ids(&f1, &[5, 3, 1, 2, 6, 4], &[], &[5, 3, 1, 2, 6, 4])?;
    expect_ids(&f1, &[3, 1, 2, 4, 6], &[], &[3, 1, 2, 4, 6])?;
    // format 2: classes per sequence; backtrack class 1 = {3}, 2 = {5}; input 1 = {1}, 2 = {2}; lookahead 1 = {4}, 2 = {6}
    let crule = ChainRule { backtrack: vec![1, 2], input: vec![2], lookahead: vec![1, 2], lookups: vec![sl(0, 1), sl(1, 2)] };
    let f2 = gsub_font(
        1,
        vec![
            Lookup::one(SubstSubtable::ChainContext2 {
                coverage: cov(&[1]),
                backtrack_classes: ClassDef::Format2 { ranges: vec![(3, 3, 1), (5, 5, 2)] },
                input_classes: ClassDef::Format1 { start: 1, classes: vec![1, 2] },
                lookahead_classes: ClassDef::Format2 { ranges: vec![(4, 4, 1), (6, 6, 2)] },
                rule_sets: vec![None, Some(vec![crule])],
            }),
            sub(1, 9),
            sub(2, 10),
        ],
    );
    expect_ids(&f2, &[5, 3, 1, 2, 4, 6], &[], &[5, 3, 9, 10, 4, 6])?;
    expect_ids(&f2, &[3, 5, 1, 2, 4, 6], &[], &[3, 5, 1, 2, 4, 6])?;
    // format 3
    let f3 = gsub_font(
        1,
        vec![
            Lookup::one(SubstSubtable::ChainContext3 {
                backtrack: vec![cov(&[3]), cov(&[5])],
                input: vec![cov(&[1]), cov(&[2])],
                lookahead: vec![cov(&[4]), cov(&[6, 7])],
                lookups: vec![sl(0, 1), sl(1, 2)],
            }),
            sub(1, 9),
            sub(2, 10),
        ],
    );
    expect_ids(&f3, &[5, 3, 1, 2, 4, 7], &[], &[5, 3, 9, 10, 4, 7])?;
    expect_ids(&f3, &[3, 5, 1, 2, 4, 6], &[], &[3, 5, 1, 2, 4, 6])?;
    expect_ids(&f3, &[5, 3, 1, 2, 4, 8], &[], &[5, 3, 1, 2, 4, 8])?;
    Ok(())
}

fn t_gsub_reverse() -> R {
    let s = gsub_font(
        1,
        vec![Lookup::one(SubstSubtable::ReverseChain {
            coverage: cov(&[1, 2]),
            backtrack: vec![cov(&[3]), cov(&[5])],
            lookahead: vec![cov(&[4, 9])],
            substitutes: vec![9, 10],
        })],
    );
    expect_ids(&s, &[5, 3, 1, 4], &[], &[5, 3, 9, 4])?;
    expect_ids(&s, &[5, 3, 2, 4], &[], &[5, 3, 10, 4])?;
    expect_ids(&s, &[3, 5, 1, 4], &[], &[3, 5, 1, 4])?;
    // processed back to front: the second 1 becomes 9 first, which is then the lookahead of the first
    let s = gsub_font(
        1,
        vec![Lookup::one(SubstSubtable::ReverseChain { coverage: cov(&[1]), backtrack: vec![], lookahead: vec![cov(&[9])], substitutes: vec![9] })],
    );
    expect_ids(&s, &[1, 1, 9, 1], &[], &[9, 9, 9, 1])?;
    Ok(())
}

fn t_extension() -> R {
    let mut l = sub(1, 9);
    l.use_extension = true;
    let mut l2 = Lookup::one(SubstSubtable::Ligature { coverage: cov(&[2]), ligature_sets: vec![vec![lig(8, &[3])]] });
    l2.use_extension = true;
    l2.subtables.push(SubstSubtable::Ligature { coverage: cov(&[4]), ligature_sets: vec![vec![lig(7, &[5])]] });
    let s = gsub_font(2, vec![l, l2]);
    expect_ids(&s, &[1, 2, 3, 4, 5], &[], &[9, 8, 7])?;
    let mut p = Lookup::one(PosSubtable::Single1 { coverage: cov(&[1]), value: xadv(50), vf: ValueFormat::NonZero });
    p.use_extension = true;
    let s = gpos_font(1, vec![p]);
    expect_pos(&s, &[1, 2], &[], &[(1, adv(1) + 50, 0, 0, 0), (2, adv(2), 0, 0, 0)])?;
    Ok(())
}

fn t_lookup_flags() -> R {
    let ligs = SubstSubtable::Ligature { coverage: cov(&[1]), ligature_sets: vec![vec![lig(3, &[2])]] };
    let mk = |flags: u16, set: Option<u16>| {
        let mut s = gsub_font(1, vec![Lookup { flags, mark_filtering_set: set, subtables: vec![ligs.clone()], use_extension: false }]);
        s.gdef = Some(mark_gdef());
        s
    };
    // no flags: a mark between the components blocks the ligature
    expect_ids(&mk(0, None), &[1, 10, 2], &[], &[1, 10, 2])?;
    expect_ids(&mk(0, None), &[1, 2], &[], &[3])?;
    // IgnoreMarks
    expect_ids(&mk(lookup_flags::IGNORE_MARKS, None), &[1, 10, 2], &[], &[3, 10])?;
    // mark filtering set 0 = {10}: marks outside the set are skipped, 10 is not
    expect_ids(&mk(0, Some(0)), &[1, 11, 2], &[], &[3, 11])?;
    expect_ids(&mk(0, Some(0)), &[1, 10, 2], &[], &[1, 10, 2])?;
    // set 1 = {11, 12}
    expect_ids(&mk(0, Some(1)), &[1, 10, 2], &[], &[3, 10])?;
    expect_ids(&mk(0, Some(1)), &[1, 12, 2], &[], &[1, 12, 2])?;
    // MarkAttachmentType 1: marks of another attachment class are skipped
    expect_ids(&mk(0x0100, None), &[1, 11, 2], &[], &[3, 11])?;
    expect_ids(&mk(0x0100, None), &[1, 10, 2], &[], &[1, 10, 2])?;
    // IgnoreBaseGlyphs: base glyph 2 between 1 and ... (ligature 1 + 10 across base 2)
    let l2 = SubstSubtable::Ligature { coverage: cov(&[10]), ligature_sets: vec![vec![lig(12, &[11])]] };
    let mut s = gsub_font(
        1,
        vec![Lookup { flags: lookup_flags::IGNORE_BASE_GLYPHS, mark_filtering_set: None, subtables: vec![l2], use_extension: false }],
    );
    s.gdef = Some(mark_gdef());
    expect_ids(&s, &[10, 2, 11], &[], &[12, 2])?;
    // the written flags word carries bit 0x10 when a set is given
    let bytes = build(&mk(0, Some(1)));
    let f = face(&bytes)?;
    let lk = f.tables().gsub.unwrap().lookups.get(0).unwrap();
    eq("flags", lk.flags.0, 0x0010)?;
    eq("filtering set", lk.mark_filtering_set, Some(1))?;
    let gd = f.tables().gdef.unwrap();
    eq("gdef class", gd.glyph_class(ttf_parser::GlyphId(3)), Some(ttf_parser::gdef::GlyphClass::Ligature))?;
    eq("gdef class none", gd.glyph_class(ttf_parser::GlyphId(4)), None)?;
    eq("gdef attach class", gd.glyph_mark_attachment_class(ttf_parser::GlyphId(11)), 2)?;
    eq("gdef set", gd.is_mark_glyph(ttf_parser::GlyphId(12), Some(1)), true)?;
    eq("gdef set", gd.is_mark_glyph(ttf_parser::GlyphId(12), Some(0)), false)?;
    Ok(())
}

fn t_scripts() -> R {
    let mut s = FontSpec::basic(10);
    s.gsub = Some(Layout {
        scripts: vec![
            ScriptRecord {
                tag: *b"DFLT",
                default_langsys: Some(LangSys { required_feature: None, feature_indices: vec![0] }),
                langsys: vec![],
            },
            ScriptRecord {
                tag: *b"latn",
                default_langsys: Some(LangSys { required_feature: None, feature_indices: vec![1] }),
                langsys: vec![
                    (*b"DEU ", LangSys { required_feature: None, feature_indices: vec![0, 2] }),
                    (*b"TRK ", LangSys { required_feature: Some(3), feature_indices: vec![] }),
                ],
            },
        ],
        features: vec![
            FeatureRecord { tag: *b"liga", lookup_indices: vec![0] },
            FeatureRecord { tag: *b"liga", lookup_indices: vec![1] },
            FeatureRecord { tag: *b"smcp", lookup_indices: vec![3] },
            FeatureRecord { tag: *b"zzzz", lookup_indices: vec![2] },
        ],
        lookups: vec![sub(1, 2), sub(1, 3), sub(1, 4), sub(5, 6)],
    });
    let go = |script: Option<&str>, lang: Option<&str>, feats: &[&str]| -> Result<Vec<u32>, String> {
        let mut r = req(&[1, 5]);
        r.script = script.map(|x| x.to_string());
        r.lang = lang.map(|x| x.to_string());
        r.features = feats.iter().map(|x| x.to_string()).collect();
        Ok(ids(&shape_with(&s, &r)?))
    };
    eq("DFLT", go(None, None, &[])?, vec![2, 5])?;
    eq("latn default", go(Some("Latn"), None, &[])?, vec![3, 5])?;
    eq("latn TRK required feature", go(Some("Latn"), Some("tr"), &[])?, vec![4, 5])?;
    eq("latn DEU", go(Some("Latn"), Some("de"), &[])?, vec![2, 5])?;
    eq("latn DEU smcp", go(Some("Latn"), Some("de"), &["smcp"])?, vec![2, 6])?;
    eq("latn unknown language -> default", go(Some("Latn"), Some("fr"), &["smcp"])?, vec![3, 5])?;
    Ok(())
}

// ---------------------------------------------------------------------------------------------
// GPOS

fn t_gpos_single() -> R {
    for vf in [ValueFormat::NonZero, ValueFormat::All] {
        let s = gpos_font(1, vec![Lookup::one(PosSubtable::Single1 { coverage: cov(&[1, 3]), value: ValueRecord::new(10, -7, 50, 0), vf })]);
        expect_pos(&s, &[1, 2, 3], &[], &[(1, adv(1) + 50, 0, 10, -7), (2, adv(2), 0, 0, 0), (3, adv(3) + 50, 0, 10, -7)])?;
        let s = gpos_font(
            1,
            vec![Lookup::one(PosSubtable::Single2 {
                coverage: Coverage::Ranges(vec![(1, 1), (3, 4)]),
                values: vec![xadv(5), ValueRecord::new(0, 9, 0, 0), xadv(-7)],
                vf,
            })],
        );
        expect_pos(&s, &[1, 2, 3, 4], &[], &[(1, adv(1) + 5, 0, 0, 0), (2, adv(2), 0, 0, 0), (3, adv(3), 0, 0, 9), (4, adv(4) - 7, 0, 0, 0)])?;
        expect_pos(&s, &[1, 2], &["-kern"], &[(1, adv(1), 0, 0, 0), (2, adv(2), 0, 0, 0)])?;
    }
    eq("value format", value_format_of([&ValueRecord::new(0, 9, 0, 0), &xadv(5)], ValueFormat::NonZero), 0x6)?;
    Ok(())
}

fn t_gpos_pair() -> R {
    for vf in [ValueFormat::NonZero, ValueFormat::All] {
        let s = gpos_font(
            1,
            vec![Lookup::one(PosSubtable::Pair1 {
                coverage: cov(&[1, 4]),
                pair_sets: vec![
                    vec![(2, xadv(-30), ValueRecord::new(5, 0, 0, 0)), (3, xadv(-10), ValueRecord::ZERO)],
                    vec![(1, xadv(7), ValueRecord::ZERO)],
                ],
                vf,
            })],
        );
        expect_pos(&s, &[1, 2], &[], &[(1, adv(1) - 30, 0, 0, 0), (2, adv(2), 0, 5, 0)])?;
        expect_pos(&s, &[1, 3, 4, 1], &[], &[(1, adv(1) - 10, 0, 0, 0), (3, adv(3), 0, 0, 0), (4, adv(4) + 7, 0, 0, 0), (1, adv(1), 0, 0, 0)])?;
        expect_pos(&s, &[2, 1], &[], &[(2, adv(2), 0, 0, 0), (1, adv(1), 0, 0, 0)])?;
        // format 2: class1 {1 -> 1, 4 -> 2}, class2 {2 -> 1, 3 -> 1, 5 -> 2}
        let z = ValueRecord::ZERO;
        let s = gpos_font(
            1,
            vec![Lookup::one(PosSubtable::Pair2 {
                coverage: cov(&[1, 4]),
                class_def1: ClassDef::Format2 { ranges: vec![(1, 1, 1), (4, 4, 2)] },
                class_def2: ClassDef::Format1 { start: 2, classes: vec![1, 1, 0, 2] },
                records: vec![
                    vec![(z, z), (z, z), (z, z)],
                    vec![(z, z), (xadv(-40), z), (xadv(-50), ValueRecord::new(0, 3, 0, 0))],
                    vec![(z, z), (xadv(11), z), (z, z)],
                ],
                vf,
            })],
        );
        expect_pos(&s, &[1, 3], &[], &[(1, adv(1) - 40, 0, 0, 0), (3, adv(3), 0, 0, 0)])?;
        expect_pos(&s, &[1, 5], &[], &[(1, adv(1) - 50, 0, 0, 0), (5, adv(5), 0, 0, 3)])?;
        expect_pos(&s, &[4, 2], &[], &[(4, adv(4) + 11, 0, 0, 0), (2, adv(2), 0, 0, 0)])?;
        expect_pos(&s, &[4, 5], &[], &[(4, adv(4), 0, 0, 0), (5, adv(5), 0, 0, 0)])?;
    }
    Ok(())
}

fn an(x: i16, y: i16) -> Option<Anchor> {
    Some(Anchor { x, y })
}

fn t_gpos_cursive() -> R {
    let mut s = FontSpec::basic(24);
    s.gpos = Some(Layout::single_feature(
        *b"curs",
        vec![Lookup::one(PosSubtable::Cursive {
            coverage: cov(&[1, 2, 3]),
            entry_exit: vec![(None, an(100, 50)), (an(10, 20), an(200, -5)), (an(0, 0), None)],
        })],
    ));
    // LTR: advance of 1 = exit.x; 2 is shifted left by entry.x and up by exit.y - entry.y = 30;
    // advance of 2 = exit.x - entry.x; 3 attaches to 2: y = 30 + (-5 - 0)
    expect_pos(&s, &[1, 2, 3], &[], &[(1, 100, 0, 0, 0), (2, 200 - 10, 0, -10, 30), (3, adv(3), 0, 0, 25)])?;
    expect_pos(&s, &[3, 1], &[], &[(3, adv(3), 0, 0, 0), (1, adv(1), 0, 0, 0)])?;
    Ok(())
}

fn t_gpos_marks() -> R {
    // mark to base
    let mut s = FontSpec::basic(24);
    s.gdef = Some(mark_gdef());
    s.gpos = Some(Layout::single_feature(
        *b"mark",
        vec![Lookup::one(PosSubtable::MarkBase {
            mark_coverage: cov(&[10, 11]),
            base_coverage: cov(&[1, 2]),
            class_count: 2,
            marks: vec![(0, Anchor { x: 50, y: 60 }), (1, Anchor { x: -5, y: 8 })],
            bases: vec![vec![an(300, 400), an(310, -100)], vec![None, an(1, 2)]],
        })],
    ));
    // mark offset = base anchor - mark anchor - advance of the base (mark advance is zeroed)
    expect_pos(&s, &[1, 10], &[], &[(1, adv(1), 0, 0, 0), (10, 0, 0, 300 - 50 - adv(1), 400 - 60)])?;
    expect_pos(&s, &[1, 11], &[], &[(1, adv(1), 0, 0, 0), (11, 0, 0, 310 + 5 - adv(1), -100 - 8)])?;
    expect_pos(&s, &[2, 10], &[], &[(2, adv(2), 0, 0, 0), (10, 0, 0, 0, 0)])?;
    expect_pos(&s, &[2, 11], &[], &[(2, adv(2), 0, 0, 0), (11, 0, 0, 1 + 5 - adv(2), 2 - 8)])?;

    // mark to ligature: ligature 3 = 1 + 2 formed by GSUB; components [0] and [1]
    let mut s = FontSpec::basic(24);
    s.gdef = Some(mark_gdef());
    s.gsub = Some(Layout::single_feature(
        *b"liga",
        vec![Lookup::with_flags(
            lookup_flags::IGNORE_MARKS,
            vec![SubstSubtable::Ligature { coverage: cov(&[1]), ligature_sets: vec![vec![lig(3, &[2])]] }],
        )],
    ));
    s.gpos = Some(Layout::single_feature(
        *b"mark",
        vec![Lookup::one(PosSubtable::MarkLig {
            mark_coverage: cov(&[10]),
            lig_coverage: cov(&[3]),
            class_count: 1,
            marks: vec![(0, Anchor { x: 50, y: 60 })],
            ligatures: vec![vec![vec![an(100, 500)], vec![an(400, 510)]]],
        })],
    ));
    // mark after the ligature attaches to the last component
    expect_pos(&s, &[1, 2, 10], &[], &[(3, adv(3), 0, 0, 0), (10, 0, 0, 400 - 50 - adv(3), 510 - 60)])?;
    // mark typed after the first component attaches to the first component
    expect_pos(&s, &[1, 10, 2], &[], &[(3, adv(3), 0, 0, 0), (10, 0, 0, 100 - 50 - adv(3), 500 - 60)])?;

    // mark to mark: 11 on 10
    let mut s = FontSpec::basic(24);
    s.gdef = Some(mark_gdef());
    s.gpos = Some(Layout::single_feature(
        *b"mkmk",
        vec![Lookup::one(PosSubtable::MarkMark {
            mark1_coverage: cov(&[11]),
            mark2_coverage: cov(&[10]),
            class_count: 1,
            marks: vec![(0, Anchor { x: 20, y: 30 })],
            mark2s: vec![vec![an(40, 700)]],
        })],
    ));
    expect_pos(&s, &[1, 10, 11], &[], &[(1, adv(1), 0, 0, 0), (10, 0, 0, 0, 0), (11, 0, 0, 40 - 20, 700 - 30)])?;
    Ok(())
}

fn t_gpos_context() -> R {
    let bump = |g: u16, v: i16| Lookup::one(PosSubtable::Single1 { coverage: cov(&[g]), value: xadv(v), vf: ValueFormat::NonZero });
    let base = |g: u16| (g as u32, adv(g), 0, 0, 0);
    let up = |g: u16, v: i32| (g as u32, adv(g) + v, 0, 0, 0);
    let f1 = gpos_font(
        1,
        vec![
            Lookup::one(PosSubtable::Context1 { coverage: cov(&[1]), rule_sets: vec![vec![SeqRule { input: vec![2], lookups: vec![sl(1, 1)] }]] }),
            bump(2, 100),
        ],
    );
    expect_pos(&f1, &[1, 2, 2], &[], &[base(1), up(2, 100), base(2)])?;
    let f2 = gpos_font(
        1,
        vec![
            Lookup::one(PosSubtable::Context2 {
                coverage: cov(&[1]),
                class_def: ClassDef::from_pairs(&[(1, 1), (2, 2)]),
                rule_sets: vec![None, Some(vec![SeqRule { input: vec![2], lookups: vec![sl(0, 1)] }])],
            }),
            bump(1, 100),
        ],
    );
    expect_pos(&f2, &[1, 2, 1, 3], &[], &[up(1, 100), base(2), base(1), base(3)])?;
    let f3 = gpos_font(
        1,
        vec![Lookup::one(PosSubtable::Context3 { coverages: vec![cov(&[1]), cov(&[2])], lookups: vec![sl(1, 1)] }), bump(2, -100)],
    );
    expect_pos(&f3, &[1, 2], &[], &[base(1), up(2, -100)])?;
    let rule = ChainRule { backtrack: vec![3], input: vec![], lookahead: vec![4], lookups: vec![sl(0, 1)] };
    let c1 = gpos_font(
        1,
        vec![Lookup::one(PosSubtable::ChainContext1 { coverage: cov(&[1]), rule_sets: vec![vec![rule.clone()]] }), bump(1, 100)],
    );
    expect_pos(&c1, &[3, 1, 4, 1], &[], &[base(3), up(1, 100), base(4), base(1)])?;
    let crule = ChainRule { backtrack: vec![1], input: vec![], lookahead: vec![1], lookups: vec![sl(0, 1)] };
    let c2 = gpos_font(
        1,
        vec![
            Lookup::one(PosSubtable::ChainContext2 {
                coverage: cov(&[1]),
                backtrack_classes: ClassDef::from_pairs(&[(3, 1)]),
                input_classes: ClassDef::from_pairs(&[(1, 1)]),
                lookahead_classes: ClassDef::from_pairs(&[(4, 1)]),
                rule_sets: vec![None, Some(vec![crule])],
            }),
            bump(1, 100),
        ],
    );
    expect_pos(&c2, &[3, 1, 4, 1], &[], &[base(3), up(1, 100), base(4), base(1)])?;
    let c3 = gpos_font(
        1,
        vec![
            Lookup::one(PosSubtable::ChainContext3 {
                backtrack: vec![cov(&[3])],
                input: vec![cov(&[1])],
                lookahead: vec![cov(&[4])],
                lookups: vec![sl(0, 1)],
            }),
            bump(1, 100),
        ],
    );
    expect_pos(&c3, &[3, 1, 4, 1], &[], &[base(3), up(1, 100), base(4), base(1)])?;
    Ok(())
}

// ---------------------------------------------------------------------------------------------
// kern

fn t_kern() -> R {
    let mut s = FontSpec::basic(10);
    s.kern = Some(vec![KernSubtable {
        horizontal: true,
        pairs: vec![(1, 2, -40), (1, 3, 25), (2, 1, 6)],
        ..KernSubtable::default()
    }]);
    // rustybuzz splits a kern value between the two glyphs: k1 = k >> 1 on the left advance,
    // k2 = k - k1 on the right advance and x offset
    expect_pos(&s, &[1, 2], &[], &[(1, adv(1) - 20, 0, 0, 0), (2, adv(2) - 20, 0, -20, 0)])?;
    expect_pos(&s, &[1, 3], &[], &[(1, adv(1) + 12, 0, 0, 0), (3, adv(3) + 13, 0, 13, 0)])?;
    expect_pos(&s, &[3, 1], &[], &[(3, adv(3), 0, 0, 0), (1, adv(1), 0, 0, 0)])?;
    expect_pos(&s, &[1, 2], &["-kern"], &[(1, adv(1), 0, 0, 0), (2, adv(2), 0, 0, 0)])?;
    // two subtables, the second one cross-stream (vertical shift of the right glyph that persists)
    s.kern = Some(vec![
        KernSubtable { horizontal: true, pairs: vec![(1, 2, -40)], ..KernSubtable::default() },
        KernSubtable { horizontal: true, cross_stream: true, pairs: vec![(2, 3, 30)], ..KernSubtable::default() },
        KernSubtable { horizontal: false, pairs: vec![(1, 2, 500)], ..KernSubtable::default() },
    ]);
    expect_pos(
        &s,
        &[1, 2, 3, 4],
        &[],
        &[(1, adv(1) - 20, 0, 0, 0), (2, adv(2) - 20, 0, -20, 0), (3, adv(3), 0, 0, 30), (4, adv(4), 0, 0, 30)],
    )?;
    // flags as parsed
    let bytes = build(&s);
    let f = face(&bytes)?;
    let sts: Vec<_> = f.tables().kern.unwrap().subtables.into_iter().collect();
    eq("kern subtable count", sts.len(), 3)?;
    eq("kern flags", sts.iter().map(|t| (t.horizontal, t.has_cross_stream)).collect::<Vec<_>>(), vec![(true, false), (true, true), (false, false)])?;
    eq("kern pair", sts[2].glyphs_kerning(ttf_parser::GlyphId(1), ttf_parser::GlyphId(2)), Some(500))?;
    // raw coverage bytes: minimum / override are written even though the parser ignores them
    let k = kern_bytes(&[KernSubtable { horizontal: true, minimum: true, cross_stream: false, override_: true, pairs: vec![] }]);
    eq("kern coverage word", (k[8], k[9]), (0, 0b1011))?;
    Ok(())
}

fn kern_bytes(k: &[KernSubtable]) -> Vec<u8> {
    super::aat::kern(k)
}

// ---------------------------------------------------------------------------------------------
// morx

fn morx_font(chains: Vec<MorxChain>) -> FontSpec {
    let mut s = FontSpec::basic(24);
    s.morx = Some(Morx { version: 2, chains });
    s
}

fn chain1(subtables: Vec<MorxSubtable>) -> Vec<MorxChain> {
    vec![MorxChain { default_flags: 1, features: vec![], subtables }]
}

fn st(kind: MorxKind) -> MorxSubtable {
    MorxSubtable { coverage: 0, sub_feature_flags: 1, kind }
}

fn t_morx_noncontextual() -> R {
    for format in [0u8, 2, 6, 8] {
        let s = morx_font(chain1(vec![st(MorxKind::NonContextual(AatLookup::new(format, vec![(1, 5), (2, 6), (4, 9)])))]));
        expect_ids(&s, &[1, 2, 3, 4, 7], &[], &[5, 6, 3, 9, 7]).map_err(|e| format!("format {format}: {e}"))?;
    }
    // explicit fill: formats 0 and 8 map the gap glyph 3 to 11
    for format in [0u8, 8] {
        let s = morx_font(chain1(vec![st(MorxKind::NonContextual(AatLookup { format, map: vec![(1, 5), (2, 6), (4, 9)], fill: Some(11) }))]));
        let want: Vec<u32> = if format == 0 { vec![5, 6, 11, 9, 11] } else { vec![5, 6, 11, 9, 7] };
        expect_ids(&s, &[1, 2, 3, 4, 7], &[], &want).map_err(|e| format!("fill, format {format}: {e}"))?;
    }
    // a run of equal values (one format 2 segment)
    let s = morx_font(chain1(vec![st(MorxKind::NonContextual(AatLookup::new(2, vec![(1, 9), (2, 9), (3, 9), (5, 9)])))]));
    expect_ids(&s, &[1, 2, 3, 4, 5], &[], &[9, 9, 9, 4, 9])?;
    Ok(())
}

fn t_morx_flags() -> R {
    let map = |a: u16, b: u16| MorxKind::NonContextual(AatLookup::new(6, vec![(a, b)]));
    // sub-feature flags against the chain's default flags; two chains
    let feats = vec![
        MorxFeature { feature_type: 37, feature_setting: 1, enable_flags: 2, disable_flags: 0xFFFF_FFFF },
        MorxFeature { feature_type: 1, feature_setting: 2, enable_flags: 4, disable_flags: 0xFFFF_FFFB },
    ];
    let chains = vec![
        MorxChain {
            default_flags: 1,
            features: feats.clone(),
            subtables: vec![
                MorxSubtable { coverage: 0, sub_feature_flags: 1, kind: map(1, 5) },
                MorxSubtable { coverage: 0, sub_feature_flags: 2, kind: map(5, 6) },
            ],
        },
        MorxChain { default_flags: 8, features: vec![], subtables: vec![MorxSubtable { coverage: 0, sub_feature_flags: 8, kind: map(5, 7) }] },
    ];
    for version in [2u16, 3] {
        let mut s = morx_font(chains.clone());
        s.morx.as_mut().unwrap().version = version;
        expect_ids(&s, &[1, 2], &[], &[7, 2]).map_err(|e| format!("version {version}: {e}"))?;
        let bytes = build(&s);
        let f = face(&bytes)?;
        let parsed: Vec<_> = f.tables().morx.clone().unwrap().chains.into_iter().collect();
        eq("chain count", parsed.len(), 2)?;
        eq("default flags", parsed.iter().map(|c| c.default_flags).collect::<Vec<_>>(), vec![1, 8])?;
        let pf: Vec<MorxFeature> = parsed[0]
            .features
            .into_iter()
            .map(|f| MorxFeature { feature_type: f.kind, feature_setting: f.setting, enable_flags: f.enable_flags, disable_flags: f.disable_flags })
            .collect();
        eq("feature entries", pf, feats.clone())?;
        eq("subtable count", parsed[0].subtables.into_iter().count(), 2)?;
    }
    // coverage flags: vertical-only subtable is skipped in horizontal text, all-directions applies
    let s = morx_font(chain1(vec![
        MorxSubtable { coverage: morx_coverage::VERTICAL, sub_feature_flags: 1, kind: map(1, 5) },
        MorxSubtable { coverage: morx_coverage::ALL_DIRECTIONS | morx_coverage::VERTICAL, sub_feature_flags: 1, kind: map(2, 6) },
    ]));
    expect_ids(&s, &[1, 2], &[], &[1, 6])?;
    let mut r = req(&[1, 2]);
    r.dir = Some(Direction::TopToBottom);
    eq("vertical", ids(&shape_with(&s, &r)?), vec![5, 6])?;
    let bytes = build(&s);
    let f = face(&bytes)?;
    let c = f.tables().morx.clone().unwrap().chains.into_iter().next().unwrap();
    let cv: Vec<_> = c.subtables.into_iter().map(|t| (t.coverage.is_vertical(), t.coverage.is_all_directions(), t.coverage.is_backwards(), t.coverage.is_logical())).collect();
    eq("coverage bits", cv, vec![(true, false, false, false), (true, true, false, false)])?;
    Ok(())
}

/// states 0 and 1 share a row; classes: 4 = {1}, 5 = {2}
fn two_class_states(e_first: u16, e_second: u16) -> Vec<Vec<u16>> {
    vec![vec![0, 0, 0, 0, e_first, 0], vec![0, 0, 0, 0, e_first, 0], vec![0, 0, 0, 0, e_first, e_second]]
}

fn t_morx_rearrangement() -> R {
    for format in [0u8, 2, 6, 8] {
        // 1 marks first, 2 marks last and runs verb 1 (Ax => xA)
        let t = StateTable {
            n_classes: 6,
            class_lookup: AatLookup::new(format, vec![(1, 4), (2, 5)]),
            states: two_class_states(1, 2),
            entries: vec![
                RearrEntry { new_state: 0, flags: 0 },
                RearrEntry { new_state: 2, flags: 0x8000 },
                RearrEntry { new_state: 0, flags: 0x2000 | 1 },
            ],
        };
        let s = morx_font(chain1(vec![st(MorxKind::Rearrangement(t))]));
        expect_ids(&s, &[1, 2, 3], &[], &[2, 1, 3]).map_err(|e| format!("class format {format}: {e}"))?;
        expect_ids(&s, &[3, 1, 1, 2], &[], &[3, 1, 2, 1]).map_err(|e| format!("class format {format}: {e}"))?;
        expect_ids(&s, &[2, 1, 3, 2], &[], &[2, 1, 3, 2]).map_err(|e| format!("class format {format}: {e}"))?;
    }
    Ok(())
}

fn t_morx_contextual() -> R {
    for format in [0u8, 2, 6, 8] {
        // 1 sets the mark; a following 2 is replaced through table 1 and the marked 1 through table 0
        let table = StateTable {
            n_classes: 6,
            class_lookup: AatLookup::new(2, vec![(1, 4), (2, 5)]),
            states: two_class_states(1, 2),
            entries: vec![
                CtxEntry { new_state: 0, flags: 0, mark_index: 0xFFFF, current_index: 0xFFFF },
                CtxEntry { new_state: 2, flags: 0x8000, mark_index: 0xFFFF, current_index: 0xFFFF },
                CtxEntry { new_state: 0, flags: 0, mark_index: 0, current_index: 1 },
            ],
        };
        let substitutions = vec![AatLookup::new(format, vec![(1, 6)]), AatLookup::new(format, vec![(2, 7), (3, 8)])];
        let s = morx_font(chain1(vec![st(MorxKind::Contextual { table, substitutions })]));
        expect_ids(&s, &[1, 2, 3], &[], &[6, 7, 3]).map_err(|e| format!("subst format {format}: {e}"))?;
        expect_ids(&s, &[1, 3, 2], &[], &[1, 3, 2]).map_err(|e| format!("subst format {format}: {e}"))?;
        expect_ids(&s, &[1, 1, 2], &[], &[1, 6, 7]).map_err(|e| format!("subst format {format}: {e}"))?;
        // the same machine run backwards (descending order flag): matches "2 1" in text order
        let mut s = s.clone();
        s.morx.as_mut().unwrap().chains[0].subtables[0].coverage = morx_coverage::BACKWARDS;
        expect_ids(&s, &[2, 1, 3], &[], &[7, 6, 3]).map_err(|e| format!("backwards, subst format {format}: {e}"))?;
        expect_ids(&s, &[1, 2, 3], &[], &[1, 2, 3]).map_err(|e| format!("backwards, subst format {format}: {e}"))?;
        let bytes = build(&s);
        let f = face(&bytes)?;
        let c = f.tables().morx.clone().unwrap().chains.into_iter().next().unwrap();
        let t = c.subtables.into_iter().next().ok_or("no subtable")?;
        eq("backwards bit", (t.coverage.is_backwards(), t.coverage.is_logical(), t.coverage.is_vertical()), (true, false, false))?;
    }
    Ok(())
}

fn t_morx_ligature() -> R {
    // 1 2 -> 8 ; 1 2 2 stays 8 2.  Component indices: glyph + offset.
    let table = StateTable {
        n_classes: 6,
        class_lookup: AatLookup::new(6, vec![(1, 4), (2, 5)]),
        states: two_class_states(1, 2),
        entries: vec![
            LigEntry { new_state: 0, flags: 0, lig_action_index: 0 },
            LigEntry { new_state: 2, flags: 0x8000, lig_action_index: 0 },
            LigEntry { new_state: 0, flags: 0x8000 | 0x2000, lig_action_index: 1 },
        ],
    };
    let s = morx_font(chain1(vec![st(MorxKind::Ligature {
        table,
        // action 0 is unused padding; 1: last component (glyph 2 -> components[2]); 2: first (glyph 1 -> components[3]), store
        lig_actions: vec![0, lig_action(0, false, false), lig_action(2, true, true)],
        components: vec![9, 9, 1, 2],
        ligatures: vec![20, 21, 22, 8],
    })]));
    expect_ids(&s, &[1, 2, 3], &[], &[8, 3])?;
    expect_ids(&s, &[1, 2, 2], &[], &[8, 2])?;
    expect_ids(&s, &[2, 1, 3], &[], &[2, 1, 3])?;
    // negative offsets
    eq("lig_action encoding", lig_action(-2, false, true), 0x8000_0000 | 0x3FFF_FFFE)?;
    let table = StateTable {
        n_classes: 6,
        class_lookup: AatLookup::new(8, vec![(5, 4), (6, 5)]),
        states: two_class_states(1, 2),
        entries: vec![
            LigEntry { new_state: 0, flags: 0, lig_action_index: 0 },
            LigEntry { new_state: 2, flags: 0x8000, lig_action_index: 0 },
            LigEntry { new_state: 0, flags: 0x8000 | 0x2000, lig_action_index: 0 },
        ],
    };
    let s = morx_font(chain1(vec![st(MorxKind::Ligature {
        table,
        lig_actions: vec![lig_action(-6, false, false), lig_action(-4, true, true)],
        components: vec![0, 1],
        ligatures: vec![20, 9],
    })]));
    expect_ids(&s, &[5, 6, 7], &[], &[9, 7])?;
    Ok(())
}

fn t_morx_insertion() -> R {
    // after 1 insert [9, 10] (current insert count 2, after); before 2 insert [11] at the marked glyph 1
    let table = StateTable {
        n_classes: 6,
        class_lookup: AatLookup::new(0, vec![(1, 4), (2, 5)]),
        states: vec![vec![0, 0, 0, 0, 1, 0], vec![0, 0, 0, 0, 1, 0]],
        entries: vec![
            InsEntry { new_state: 0, flags: 0, current_insert_index: 0xFFFF, marked_insert_index: 0xFFFF },
            InsEntry { new_state: 0, flags: 2 << 5, current_insert_index: 1, marked_insert_index: 0xFFFF },
        ],
    };
    let s = morx_font(chain1(vec![st(MorxKind::Insertion { table, glyphs: vec![12, 9, 10, 11] })]));
    expect_ids(&s, &[1, 3], &[], &[1, 9, 10, 3])?;
    expect_ids(&s, &[3, 1], &[], &[3, 1, 9, 10])?;
    // insert before the current glyph
    let table = StateTable {
        n_classes: 6,
        class_lookup: AatLookup::new(0, vec![(1, 4), (2, 5)]),
        states: vec![vec![0, 0, 0, 0, 1, 0], vec![0, 0, 0, 0, 1, 0], vec![0, 0, 0, 0, 1, 2]],
        entries: vec![
            InsEntry { new_state: 0, flags: 0, current_insert_index: 0xFFFF, marked_insert_index: 0xFFFF },
            InsEntry { new_state: 2, flags: 0x8000, current_insert_index: 0xFFFF, marked_insert_index: 0xFFFF },
            // at 2 (after a marked 1): insert glyphs[3] before the marked glyph and glyphs[0] before the current one
            InsEntry { new_state: 0, flags: 0x0800 | 0x0400 | (1 << 5) | 1, current_insert_index: 0, marked_insert_index: 3 },
        ],
    };
    let s = morx_font(chain1(vec![st(MorxKind::Insertion { table, glyphs: vec![12, 9, 10, 11] })]));
    expect_ids(&s, &[1, 2, 3], &[], &[11, 1, 12, 2, 3])?;
    Ok(())
}

fn t_morx_feat() -> R {
    // chain default flags 1; subtable A (flags 1) maps 1 -> 5, subtable B (flags 2) maps 2 -> 6.
    // chain feature entries: ligatures/common-on enables 1, ligatures/common-off clears 1,
    // lower-case/small-caps enables 2, deprecated letter-case/small-caps enables 2.
    let map = |a: u16, b: u16| MorxKind::NonContextual(AatLookup::new(6, vec![(a, b)]));
    let chain = MorxChain {
        default_flags: 1,
        features: vec![
            MorxFeature { feature_type: 1, feature_setting: 2, enable_flags: 1, disable_flags: 0xFFFF_FFFF },
            MorxFeature { feature_type: 1, feature_setting: 3, enable_flags: 0, disable_flags: 0xFFFF_FFFE },
            MorxFeature { feature_type: 37, feature_setting: 1, enable_flags: 2, disable_flags: 0xFFFF_FFFF },
            MorxFeature { feature_type: 3, feature_setting: 3, enable_flags: 2, disable_flags: 0xFFFF_FFFF },
        ],
        subtables: vec![
            MorxSubtable { coverage: 0, sub_feature_flags: 1, kind: map(1, 5) },
            MorxSubtable { coverage: 0, sub_feature_flags: 2, kind: map(2, 6) },
        ],
    };
    let mut s = morx_font(vec![chain]);
    s.feat = Some(Feat {
        names: vec![
            FeatName { feature: 1, settings: vec![2, 3], exclusive: false, default_index: None },
            FeatName { feature: 37, settings: vec![0, 1], exclusive: true, default_index: Some(0) },
        ],
    });
    let bytes = build(&s);
    let f = face(&bytes)?;
    let feat = f.tables().feat.ok_or("feat table not parsed")?;
    let parsed: Vec<(u16, Vec<u16>, bool)> =
        feat.names.into_iter().map(|n| (n.feature, n.setting_names.into_iter().map(|x| x.setting).collect(), n.exclusive)).collect();
    eq("feat records", parsed, vec![(1, vec![2, 3], false), (37, vec![0, 1], true)])?;
    expect_ids(&s, &[1, 2], &[], &[5, 2])?;
    expect_ids(&s, &[1, 2], &["-liga"], &[1, 2])?;
    expect_ids(&s, &[1, 2], &["liga"], &[5, 2])?;
    expect_ids(&s, &[1, 2], &["smcp"], &[5, 6])?;
    expect_ids(&s, &[1, 2], &["smcp", "-liga"], &[1, 6])?;
    expect_ids(&s, &[1, 2], &["kern"], &[5, 2])?; // no AAT mapping: nothing changes
    // without a feat record for lower case but with one for letter case: the deprecated small-caps selector
    s.feat = Some(Feat { names: vec![FeatName { feature: 3, settings: vec![0, 3], exclusive: true, default_index: None }] });
    expect_ids(&s, &[1, 2], &["smcp"], &[5, 6])?;
    expect_ids(&s, &[1, 2], &["-liga"], &[5, 2])?; // ligatures are not exposed by feat: the request is dropped
    // no feat table at all: user features are ignored
    s.feat = None;
    expect_ids(&s, &[1, 2], &["smcp", "-liga"], &[5, 2])?;
    Ok(())
}

fn t_overflow_message() -> R {
    // a table over 64K must panic with a clear message rather than write a wrong offset
    let big: Vec<u16> = (0..40000u32).map(|i| (i % 20) as u16).collect();
    let mut s = FontSpec::basic(24);
    s.gsub = Some(Layout::single_feature(
        *b"liga",
        vec![
            Lookup::one(SubstSubtable::Multiple { coverage: cov(&[1]), sequences: vec![big.clone()] }),
            Lookup::one(SubstSubtable::Single1 { coverage: cov(&[2]), delta: 1 }),
        ],
    ));
    let prev = std::panic::take_hook();
    std::panic::set_hook(Box::new(|_| {}));
    let r = std::panic::catch_unwind(|| build(&s));
    std::panic::set_hook(prev);
    match r {
        Ok(_) => return Err("no panic on Offset16 overflow".into()),
        Err(e) => {
            let msg = e.downcast_ref::<String>().cloned().unwrap_or_default();
            if !msg.contains("Offset16 overflow") {
                return Err(format!("unexpected panic message {msg:?}"));
            }
        }
    }
    // the same font works with extension lookups (payloads go to the end, Offset32)
    for l in s.gsub.as_mut().unwrap().lookups.iter_mut() {
        l.use_extension = true;
    }
    let out = shape(&s, &[2, 3], &[])?;
    eq("extension rescue", ids(&out), vec![3, 3])?;
    Ok(())
}

// ---------------------------------------------------------------------------------------------

pub fn selftest() -> Result<(), String> {
    let cases: Vec<(&str, fn() -> R)> = vec![
        ("sfnt-directory-checksums-head-hhea-maxp-hmtx-post", t_sfnt),
        ("cmap-format4-format12-both", t_cmap),
        ("cmap-format14", t_cmap14),
        ("vhea-vmtx-ttb", t_vmtx),
        ("gsub-single-1-2", t_gsub_single),
        ("gsub-multiple", t_gsub_multiple),
        ("gsub-alternate", t_gsub_alternate),
        ("gsub-ligature", t_gsub_ligature),
        ("gsub-context-1-2-3", t_gsub_context),
        ("gsub-chain-context-1-2-3", t_gsub_chain),
        ("gsub-reverse-chain", t_gsub_reverse),
        ("extension-gsub-gpos", t_extension),
        ("gdef-lookup-flags-mark-filtering", t_lookup_flags),
        ("script-list-langsys-required-feature", t_scripts),
        ("gpos-single-1-2", t_gpos_single),
        ("gpos-pair-1-2", t_gpos_pair),
        ("gpos-cursive", t_gpos_cursive),
        ("gpos-mark-base-lig-mark", t_gpos_marks),
        ("gpos-context-chain-1-2-3", t_gpos_context),
        ("kern-format0", t_kern),
        ("morx-noncontextual-lookup-formats-0-2-6-8", t_morx_noncontextual),
        ("morx-chains-features-flags-coverage-v2-v3", t_morx_flags),
        ("morx-rearrangement", t_morx_rearrangement),
        ("morx-contextual", t_morx_contextual),
        ("morx-ligature", t_morx_ligature),
        ("morx-insertion", t_morx_insertion),
        ("morx-feat-chain-features", t_morx_feat),
        ("offset-overflow-panics-extension-rescues", t_overflow_message),
    ];
    let mut failed = Vec::new();
    for (name, f) in cases {
        let r = match std::panic::catch_unwind(f) {
            Ok(r) => r,
            Err(e) => {
                let msg = e.downcast_ref::<String>().cloned().or_else(|| e.downcast_ref::<&str>().map(|s| s.to_string())).unwrap_or_default();
                Err(format!("panic: {msg}"))
            }
        };
        match r {
            Ok(()) => println!("ok {name}"),
            Err(e) => {
                println!("FAIL {name}: {e}");
                failed.push(name);
            }
        }
    }
    if failed.is_empty() {
        println!("selftest-ok");
        Ok(())
    } else {
        Err(format!("{} case(s) failed: {}", failed.len(), failed.join(", ")))
    }
}
