//! sfnt wrapper and the basic tables: head, hhea, maxp, hmtx, vhea, vmtx, cmap, post.
use super::w::{bsearch_header, Obj};
use super::*;

fn checksum(data: &[u8]) -> u32 {
    let mut sum = 0u32;
    let mut i = 0;
    while i < data.len() {
        let mut w = [0u8; 4];
        let n = (data.len() - i).min(4);
        w[..n].copy_from_slice(&data[i..i + n]);
        sum = sum.wrapping_add(u32::from_be_bytes(w));
        i += 4;
    }
    sum
}

pub fn build(spec: &FontSpec) -> Vec<u8> {
    let n = spec.num_glyphs as usize;
    assert!(spec.hadv.len() == n, "fontgen: hadv.len() {} != num_glyphs {}", spec.hadv.len(), n);
    let mut tables: Vec<(Tag, Vec<u8>)> = Vec::new();
    tables.push((*b"head", head(spec)));
    tables.push((*b"hhea", xhea(0x0001_0000, spec.ascender, spec.descender, spec.line_gap, &spec.hadv)));
    tables.push((*b"maxp", maxp(spec)));
    tables.push((*b"hmtx", xmtx(&spec.hadv)));
    tables.push((*b"cmap", cmap(spec)));
    tables.push((*b"post", post(spec)));
    if let Some(o) = &spec.os2 {
        tables.push((*b"OS/2", os2(o)));
    }
    if let Some(vm) = &spec.vmetrics {
        assert!(vm.vadv.len() == n, "fontgen: vadv.len() {} != num_glyphs {}", vm.vadv.len(), n);
        tables.push((*b"vhea", xhea(0x0001_1000, vm.ascender, vm.descender, vm.line_gap, &vm.vadv)));
        tables.push((*b"vmtx", xmtx(&vm.vadv)));
    }
    if let Some(g) = &spec.gdef {
        tables.push((*b"GDEF", layout::gdef(g)));
    }
    if let Some(l) = &spec.gsub {
        tables.push((*b"GSUB", layout::gsub(l)));
    }
    if let Some(l) = &spec.gpos {
        tables.push((*b"GPOS", layout::gpos(l)));
    }
    if let Some(k) = &spec.kern {
        tables.push((*b"kern", aat::kern(k)));
    }
    if let Some(m) = &spec.morx {
        tables.push((*b"morx", aat::morx(m, spec.num_glyphs)));
    }
    if let Some(f) = &spec.feat {
        tables.push((*b"feat", aat::feat(f)));
    }
    if let Some(g) = &spec.glyf {
        assert!(g.len() == n, "fontgen: glyf.len() {} != num_glyphs {}", g.len(), n);
        let (glyf, loca) = glyf_loca(g);
        tables.push((*b"glyf", glyf));
        tables.push((*b"loca", loca));
    }
    for (t, d) in &spec.raw_tables {
        tables.push((*t, d.clone()));
    }
    tables.sort_by(|a, b| a.0.cmp(&b.0));

    let num = tables.len();
    let (sr, es, rs) = bsearch_header(num, 16);
    let mut out = Obj::new();
    out.u32(0x0001_0000).u16(num as u16).u16(sr).u16(es).u16(rs);
    let mut offset = 12 + 16 * num;
    let mut head_offset = 0usize;
    let mut body: Vec<u8> = Vec::new();
    for (tag, data) in &tables {
        if tag == b"head" {
            head_offset = offset;
        }
        out.tag(tag).u32(checksum(data)).u32(offset as u32).u32(data.len() as u32);
        body.extend_from_slice(data);
        while body.len() % 4 != 0 {
            body.push(0);
        }
        offset = 12 + 16 * num + body.len();
    }
    let mut font = out.data;
    font.extend_from_slice(&body);
    // head.checkSumAdjustment
    let adj = 0xB1B0_AFBAu32.wrapping_sub(checksum(&font));
    font[head_offset + 8..head_offset + 12].copy_from_slice(&adj.to_be_bytes());
    font
}

/// 'glyf' with one rectangular contour per non-empty glyph and the long-format 'loca'.
fn glyf_loca(boxes: &[Option<[i16; 4]>]) -> (Vec<u8>, Vec<u8>) {
    let mut glyf = Obj::new();
    let mut loca = Obj::new();
    for b in boxes {
        loca.u32(glyf.len() as u32);
        if let Some([x0, y0, x1, y1]) = b {
            glyf.i16(1).i16(*x0).i16(*y0).i16(*x1).i16(*y1);
            glyf.u16(3); // endPtsOfContours
            glyf.u16(0); // instructionLength
            for _ in 0..4 {
                glyf.u8(0x01); // on curve, 16-bit deltas
            }
            // points (x0,y0) (x1,y0) (x1,y1) (x0,y1) as deltas (wrapping: the box corners are i16)
            for d in [*x0, x1.wrapping_sub(*x0), 0, x0.wrapping_sub(*x1)] {
                glyf.i16(d);
            }
            for d in [*y0, 0, y1.wrapping_sub(*y0), 0] {
                glyf.i16(d);
            }
            while glyf.len() % 4 != 0 {
                glyf.u8(0);
            }
        }
    }
    loca.u32(glyf.len() as u32);
    (glyf.data, loca.data)
}

fn head(spec: &FontSpec) -> Vec<u8> {
    let mut o = Obj::new();
    o.u32(0x0001_0000) // version
        .u32(0x0001_0000) // fontRevision
        .u32(0) // checkSumAdjustment (patched)
        .u32(0x5F0F_3CF5) // magic
        .u16(0x0003) // flags: baseline at y=0, lsb at x=0
        .u16(spec.units_per_em)
        .u32(0)
        .u32(0) // created
        .u32(0)
        .u32(0) // modified
        .i16(0)
        .i16(0)
        .i16(0)
        .i16(0) // bbox
        .u16(0) // macStyle
        .u16(8) // lowestRecPPEM
        .i16(2) // fontDirectionHint
        .i16(if spec.glyf.is_some() { 1 } else { 0 }) // indexToLocFormat (long offsets with outlines)
        .i16(0); // glyphDataFormat
    debug_assert_eq!(o.len(), 54);
    o.data
}

/// hhea / vhea (identical layout).
fn xhea(version: u32, asc: i16, desc: i16, gap: i16, adv: &[u16]) -> Vec<u8> {
    let mut o = Obj::new();
    let max = adv.iter().copied().max().unwrap_or(0);
    o.u32(version)
        .i16(asc)
        .i16(desc)
        .i16(gap)
        .u16(max) // advanceWidthMax / advanceHeightMax
        .i16(0) // min lsb / tsb
        .i16(0) // min rsb / bsb
        .i16(0) // max extent
        .i16(1) // caretSlopeRise
        .i16(0) // caretSlopeRun
        .i16(0) // caretOffset
        .i16(0)
        .i16(0)
        .i16(0)
        .i16(0) // reserved
        .i16(0) // metricDataFormat
        .count(adv.len(), "number of metrics");
    debug_assert_eq!(o.len(), 36);
    o.data
}

fn maxp(spec: &FontSpec) -> Vec<u8> {
    let mut o = Obj::new();
    o.u32(0x0000_5000).u16(spec.num_glyphs);
    o.data
}

fn xmtx(adv: &[u16]) -> Vec<u8> {
    let mut o = Obj::new();
    for a in adv {
        o.u16(*a).i16(0);
    }
    o.data
}

fn os2(t: &Os2) -> Vec<u8> {
    let mut o = Obj::new();
    o.u16(t.version).i16(500).u16(400).u16(5).u16(0); // version xAvgCharWidth usWeightClass usWidthClass fsType
    for _ in 0..10 {
        o.i16(0); // ySubscript.. yStrikeoutPosition
    }
    o.i16(0); // sFamilyClass
    for _ in 0..5 {
        o.u16(0); // panose (10 bytes)
    }
    o.u32(0).u32(0).u32(0).u32(0); // ulUnicodeRange1..4
    o.u32(0x2020_2020); // achVendID
    o.u16(t.fs_selection).u16(0x20).u16(0xFFFF); // fsSelection usFirstCharIndex usLastCharIndex
    o.i16(t.typo_ascender).i16(t.typo_descender).i16(t.typo_line_gap).u16(t.win_ascent).u16(t.win_descent);
    o.u32(0).u32(0); // ulCodePageRange1..2
    o.i16(0).i16(0).u16(0).u16(0x20).u16(0); // sxHeight sCapHeight usDefaultChar usBreakChar usMaxContext
    if t.version >= 5 {
        o.u16(0).u16(0xFFFF); // usLowerOpticalPointSize usUpperOpticalPointSize
    }
    o.data
}

fn post(spec: &FontSpec) -> Vec<u8> {
    let mut o = Obj::new();
    o.u32(if spec.post_names { 0x0002_0000 } else { 0x0003_0000 })
        .u32(0) // italicAngle
        .i16(-100) // underlinePosition
        .i16(50) // underlineThickness
        .u32(0) // isFixedPitch
        .u32(0)
        .u32(0)
        .u32(0)
        .u32(0);
    if spec.post_names {
        o.u16(spec.num_glyphs);
        // glyph 0 -> standard name 0 (.notdef); glyph g -> custom name g-1
        for g in 0..spec.num_glyphs {
            if g == 0 {
                o.u16(0);
            } else {
                let idx = 258u32 + (g as u32 - 1);
                assert!(idx <= 0xFFFF, "fontgen: post: too many glyph names");
                o.u16(idx as u16);
            }
        }
        for g in 1..spec.num_glyphs {
            let name = format!("g{g}");
            o.u8(name.len() as u8).bytes(name.as_bytes());
        }
    }
    o.data
}

// ---------------------------------------------------------------------------------------------
// cmap

fn cmap(spec: &FontSpec) -> Vec<u8> {
    // encoding records sorted by (platform, encoding)
    let mut recs: Vec<(u16, u16, Vec<u8>)> = Vec::new();
    if !spec.cmap14.is_empty() {
        recs.push((0, 5, cmap14(&spec.cmap14)));
    }
    match spec.cmap_format {
        CmapFormat::Format12 => recs.push((3, 10, cmap12(&spec.cmap))),
        CmapFormat::Format4 => {
            for (c, _) in &spec.cmap {
                assert!(*c <= 0xFFFF, "fontgen: cmap format 4 cannot map U+{c:X}");
            }
            recs.push((3, 1, cmap4(&spec.cmap)));
        }
        CmapFormat::Both => {
            let bmp: Vec<(u32, u16)> = spec.cmap.iter().copied().filter(|(c, _)| *c <= 0xFFFF).collect();
            recs.push((3, 1, cmap4(&bmp)));
            recs.push((3, 10, cmap12(&spec.cmap)));
        }
        CmapFormat::Records(mask) => {
            assert!(mask != 0, "fontgen: CmapFormat::Records with no record");
            let best = (0..8).find(|k| mask & (1 << k) != 0).unwrap();
            let n = spec.num_glyphs.max(2);
            let decoy: Vec<(u32, u16)> = spec.cmap.iter().map(|(c, g)| (*c, (g % (n - 1)) + 1)).collect();
            for k in 0..8usize {
                if mask & (1 << k) == 0 {
                    continue;
                }
                let map = if k == best { &spec.cmap } else { &decoy };
                let (p, e) = CMAP_RANKED[k];
                if k < 3 {
                    recs.push((p, e, cmap12(map)));
                } else {
                    let bmp: Vec<(u32, u16)> = map.iter().copied().filter(|(c, _)| *c <= 0xFFFF).collect();
                    recs.push((p, e, cmap4(&bmp)));
                }
            }
        }
    }
    recs.sort_by_key(|r| (r.0, r.1));
    let mut o = Obj::new();
    o.u16(0).count(recs.len(), "cmap records");
    let mut off = 4 + 8 * recs.len();
    for (p, e, d) in &recs {
        o.u16(*p).u16(*e).u32(off as u32);
        off += d.len();
    }
    for (_, _, d) in &recs {
        o.bytes(d);
    }
    o.data
}

/// Maximal runs (start code, end code, start glyph) with consecutive code points AND glyph ids.
fn runs(map: &[(u32, u16)]) -> Vec<(u32, u32, u16)> {
    let mut out: Vec<(u32, u32, u16)> = Vec::new();
    for (c, g) in map {
        if let Some(last) = out.last_mut() {
            let len = last.1 - last.0 + 1;
            if *c == last.1 + 1 && *g as u32 == last.2 as u32 + len {
                last.1 = *c;
                continue;
            }
        }
        out.push((*c, *c, *g));
    }
    out
}

fn cmap12(map: &[(u32, u16)]) -> Vec<u8> {
    let groups = runs(map);
    let mut o = Obj::new();
    o.u16(12).u16(0).u32(16 + 12 * groups.len() as u32).u32(0).u32(groups.len() as u32);
    for (s, e, g) in &groups {
        o.u32(*s).u32(*e).u32(*g as u32);
    }
    o.data
}

/// Format 4 with idDelta segments only (idRangeOffset = 0 everywhere) plus the final 0xFFFF segment.
fn cmap4(map: &[(u32, u16)]) -> Vec<u8> {
    let mut segs: Vec<(u16, u16, u16)> = Vec::new(); // start, end, delta
    for (s, e, g) in runs(map) {
        if s == 0xFFFF {
            continue; // U+FFFF is the terminator segment
        }
        let e = e.min(0xFFFE);
        segs.push((s as u16, e as u16, g.wrapping_sub(s as u16)));
    }
    segs.push((0xFFFF, 0xFFFF, 1));
    let n = segs.len();
    let (sr, es, rs) = bsearch_header(n, 2);
    let mut o = Obj::new();
    let len = 16 + 8 * n;
    assert!(len <= 0xFFFF, "fontgen: cmap format 4 subtable too large");
    o.u16(4).u16(len as u16).u16(0).u16((n * 2) as u16).u16(sr).u16(es).u16(rs);
    for s in &segs {
        o.u16(s.1);
    }
    o.u16(0);
    for s in &segs {
        o.u16(s.0);
    }
    for s in &segs {
        o.u16(s.2);
    }
    for _ in &segs {
        o.u16(0);
    }
    o.data
}

/// Format 14 with non-default UVS tables only.
fn cmap14(seqs: &[(u32, u32, u16)]) -> Vec<u8> {
    // group by selector, keeping the given order
    let mut groups: Vec<(u32, Vec<(u32, u16)>)> = Vec::new();
    for (base, sel, gid) in seqs {
        match groups.last_mut() {
            Some(g) if g.0 == *sel => g.1.push((*base, *gid)),
            _ => groups.push((*sel, vec![(*base, *gid)])),
        }
    }
    let header = 10 + 11 * groups.len();
    let mut o = Obj::new();
    let total: usize = header + groups.iter().map(|g| 4 + 5 * g.1.len()).sum::<usize>();
    o.u16(14).u32(total as u32).u32(groups.len() as u32);
    let mut off = header;
    for (sel, maps) in &groups {
        o.u24(*sel).u32(0).u32(off as u32);
        off += 4 + 5 * maps.len();
    }
    for (_, maps) in &groups {
        o.u32(maps.len() as u32);
        for (base, gid) in maps {
            o.u24(*base).u16(*gid);
        }
    }
    debug_assert_eq!(o.len(), total);
    o.data
}
