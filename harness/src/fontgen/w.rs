//! Byte writer and offset-graph packer used by all table writers.
//!
//! `Obj` is a tree of sub-tables: own bytes plus links (offset fields) to child objects.
//! `pack` lays the tree out depth first, children after their parent in link order, and patches
//! the offset fields (offset = child position - parent position).  16-bit links are checked and
//! panic with a clear message when they overflow; 32-bit links ("wide", used by Extension lookups
//! and GDEF mark glyph sets) are deferred to the end of the table so they never push 16-bit
//! offsets out of range.  The layout is a pure function of the tree: deterministic.

#[derive(Clone, Debug, Default)]
pub struct Obj {
    pub data: Vec<u8>,
    pub links: Vec<Link>,
}

#[derive(Clone, Debug)]
pub struct Link {
    pub at: usize,
    pub wide: bool,
    pub target: Obj,
}

impl Obj {
    pub fn new() -> Self {
        Obj::default()
    }
    pub fn u8(&mut self, v: u8) -> &mut Self {
        self.data.push(v);
        self
    }
    pub fn u16(&mut self, v: u16) -> &mut Self {
        self.data.extend_from_slice(&v.to_be_bytes());
        self
    }
    pub fn i16(&mut self, v: i16) -> &mut Self {
        self.data.extend_from_slice(&v.to_be_bytes());
        self
    }
    pub fn u24(&mut self, v: u32) -> &mut Self {
        assert!(v <= 0xFF_FFFF, "fontgen: value {v:#x} does not fit in 24 bits");
        self.data.extend_from_slice(&v.to_be_bytes()[1..]);
        self
    }
    pub fn u32(&mut self, v: u32) -> &mut Self {
        self.data.extend_from_slice(&v.to_be_bytes());
        self
    }
    pub fn tag(&mut self, t: &[u8; 4]) -> &mut Self {
        self.data.extend_from_slice(t);
        self
    }
    pub fn u16s(&mut self, vs: &[u16]) -> &mut Self {
        for v in vs {
            self.u16(*v);
        }
        self
    }
    pub fn bytes(&mut self, b: &[u8]) -> &mut Self {
        self.data.extend_from_slice(b);
        self
    }
    /// Number of elements as a u16 count field; panics when it does not fit.
    pub fn count(&mut self, n: usize, what: &str) -> &mut Self {
        assert!(n <= 0xFFFF, "fontgen: {what}: count {n} does not fit in u16");
        self.u16(n as u16)
    }
    /// Offset16 field pointing at `target` (patched by `pack`).
    pub fn off16(&mut self, target: Obj) -> &mut Self {
        self.links.push(Link { at: self.data.len(), wide: false, target });
        self.u16(0)
    }
    /// Offset16 field that is NULL when `target` is `None`.
    pub fn off16_opt(&mut self, target: Option<Obj>) -> &mut Self {
        match target {
            Some(t) => self.off16(t),
            None => self.u16(0),
        }
    }
    /// Offset32 field pointing at `target`; the target is placed after everything else.
    pub fn off32(&mut self, target: Obj) -> &mut Self {
        self.links.push(Link { at: self.data.len(), wide: true, target });
        self.u32(0)
    }
    pub fn len(&self) -> usize {
        self.data.len()
    }
}

fn place(obj: Obj, out: &mut Vec<u8>, deferred: &mut std::collections::VecDeque<(usize, usize, Obj)>, what: &str) -> usize {
    let base = out.len();
    out.extend_from_slice(&obj.data);
    for link in obj.links {
        if link.wide {
            deferred.push_back((base + link.at, base, link.target));
        } else {
            let p = place(link.target, out, deferred, what);
            let off = p - base;
            assert!(
                off <= 0xFFFF,
                "fontgen: {what}: Offset16 overflow (offset {off} > 65535); keep the generated table smaller or set use_extension"
            );
            out[base + link.at..base + link.at + 2].copy_from_slice(&(off as u16).to_be_bytes());
        }
    }
    base
}

/// Serialize an object tree into table bytes.
pub fn pack(root: Obj, what: &str) -> Vec<u8> {
    let mut out = Vec::new();
    let mut deferred = std::collections::VecDeque::new();
    place(root, &mut out, &mut deferred, what);
    while let Some((at, base, obj)) = deferred.pop_front() {
        let p = place(obj, &mut out, &mut deferred, what);
        let off = (p - base) as u64;
        assert!(off <= 0xFFFF_FFFF, "fontgen: {what}: Offset32 overflow");
        out[at..at + 4].copy_from_slice(&(off as u32).to_be_bytes());
    }
    out
}

/// (searchRange, entrySelector, rangeShift) of the classic binary-search headers.
pub fn bsearch_header(n: usize, unit: usize) -> (u16, u16, u16) {
    let mut sel = 0u32;
    while n > 0 && (1usize << (sel + 1)) <= n {
        sel += 1;
    }
    let pow = if n == 0 { 0 } else { 1usize << sel };
    let sr = pow * unit;
    let rs = (n * unit).saturating_sub(sr);
    ((sr & 0xFFFF) as u16, sel as u16, (rs & 0xFFFF) as u16)
}
