//! rbv — harness that runs the real rustybuzz implementation for the correspondence checks.
//! One binary, one sub-command per check component; all output is line oriented on stdout.
mod util;
mod shp;
mod cmd_shape;
#[cfg(rustybuzz_verif)]
mod c10;

fn main() {
    let args: Vec<String> = std::env::args().skip(1).collect();
    if args.is_empty() {
        eprintln!("usage: rbv <cmd> [args]");
        std::process::exit(2);
    }
    let rest = &args[1..];
    match args[0].as_str() {
        "shape" => cmd_shape::run(rest),
        #[cfg(rustybuzz_verif)]
        "c10" => c10::run(rest),
        other => {
            eprintln!("unknown command {other}");
            std::process::exit(2);
        }
    }
}
