//! rbv — harness that runs the real rustybuzz implementation for the correspondence checks.
//! One binary, one sub-command per property module (src/cNN.rs); all output is line oriented on stdout.
//! Modules cNN need the guarded hooks (`--cfg rustybuzz_verif`); `shape` and `api_*` are public-API only.
#![allow(dead_code)]
mod util;
mod shp;
mod cmd_shape;
mod fontgen;
mod e2e;
mod flaggen;
#[cfg(rustybuzz_verif)]
mod bufops;
#[cfg(rustybuzz_verif)]
mod c01;
#[cfg(rustybuzz_verif)]
mod c02;
#[cfg(rustybuzz_verif)]
mod c03;
#[cfg(rustybuzz_verif)]
mod c04;
#[cfg(rustybuzz_verif)]
mod c05;
#[cfg(rustybuzz_verif)]
mod c06;
#[cfg(rustybuzz_verif)]
mod c07;
#[cfg(rustybuzz_verif)]
mod c08;
#[cfg(rustybuzz_verif)]
mod c09;
#[cfg(rustybuzz_verif)]
mod c10;
#[cfg(rustybuzz_verif)]
mod c11;
#[cfg(rustybuzz_verif)]
mod c12;
#[cfg(rustybuzz_verif)]
mod c13;
#[cfg(rustybuzz_verif)]
mod c14;
#[cfg(rustybuzz_verif)]
mod c15;
#[cfg(rustybuzz_verif)]
mod c16;
#[cfg(rustybuzz_verif)]
mod c17;
#[cfg(rustybuzz_verif)]
mod c18;

fn main() {
    let args: Vec<String> = std::env::args().skip(1).collect();
    if args.is_empty() {
        eprintln!("usage: rbv <cmd> [args]");
        std::process::exit(2);
    }
    let rest = &args[1..];
    match args[0].as_str() {
        "shape" => cmd_shape::run(rest),
        "e2e" => e2e::run(rest),
        "fontgen-coq" => {
            // smoke test of the Coq printer: a small font with one of several table kinds
            use fontgen::coq::ToCoq;
            use fontgen::*;
            let mut f = FontSpec::basic(6).with_basic_vmetrics();
            f.gdef = Some(Gdef { glyph_classes: vec![(1, 1), (2, 3)], mark_attach_classes: vec![(2, 1)], mark_glyph_sets: vec![vec![2]] });
            f.gsub = Some(Layout::single_feature(*b"liga", vec![
                Lookup::one(SubstSubtable::Ligature { coverage: Coverage::Glyphs(vec![1]), ligature_sets: vec![vec![Ligature { glyph: 5, components: vec![2] }]] }),
                Lookup::one(SubstSubtable::Single1 { coverage: Coverage::Ranges(vec![(3, 4)]), delta: -1 }),
            ]));
            f.gpos = Some(Layout::single_feature(*b"kern", vec![Lookup::one(PosSubtable::Single1 { coverage: Coverage::Glyphs(vec![1]), value: ValueRecord::xadv(-30), vf: ValueFormat::NonZero })]));
            f.kern = Some(vec![KernSubtable { horizontal: true, minimum: false, cross_stream: false, override_: false, pairs: vec![(1, 2, -50)] }]);
            println!("From Coq Require Import List NArith ZArith.\nFrom RB Require Import Model.Font.\nImport ListNotations.\nDefinition f : font := {}.\nEval vm_compute in (f_num_glyphs f).", f.coq());
        }
        "fontgen-selftest" => {
            if let Err(e) = fontgen::selftest() {
                eprintln!("fontgen-selftest: {e}");
                std::process::exit(1);
            }
        }
        #[cfg(rustybuzz_verif)]
        "bufops" => bufops::run(rest),
        #[cfg(rustybuzz_verif)]
        "c01" => c01::run(rest),
        #[cfg(rustybuzz_verif)]
        "c02" => c02::run(rest),
        #[cfg(rustybuzz_verif)]
        "c03" => c03::run(rest),
        #[cfg(rustybuzz_verif)]
        "c04" => c04::run(rest),
        #[cfg(rustybuzz_verif)]
        "c05" => c05::run(rest),
        #[cfg(rustybuzz_verif)]
        "c06" => c06::run(rest),
        #[cfg(rustybuzz_verif)]
        "c07" => c07::run(rest),
        #[cfg(rustybuzz_verif)]
        "c08" => c08::run(rest),
        #[cfg(rustybuzz_verif)]
        "c09" => c09::run(rest),
        #[cfg(rustybuzz_verif)]
        "c10" => c10::run(rest),
        #[cfg(rustybuzz_verif)]
        "c11" => c11::run(rest),
        #[cfg(rustybuzz_verif)]
        "c12" => c12::run(rest),
        #[cfg(rustybuzz_verif)]
        "c13" => c13::run(rest),
        #[cfg(rustybuzz_verif)]
        "c14" => c14::run(rest),
        #[cfg(rustybuzz_verif)]
        "c15" => c15::run(rest),
        #[cfg(rustybuzz_verif)]
        "c16" => c16::run(rest),
        #[cfg(rustybuzz_verif)]
        "c17" => c17::run(rest),
        #[cfg(rustybuzz_verif)]
        "c18" => c18::run(rest),
        other => {
            eprintln!("unknown command {other}");
            std::process::exit(2);
        }
    }
}
