//! Public-API shaping helper: request/response structs, corpus font listing, cmap enumeration.
#![allow(dead_code)]
use rustybuzz::ttf_parser;
use rustybuzz::{
    BufferClusterLevel, BufferFlags, Direction, Face, Feature, GlyphBuffer, Language, Script,
    SerializeFlags, UnicodeBuffer,
};
use std::str::FromStr;

#[derive(Clone, Debug, Default)]
pub struct Req {
    pub text: Vec<(u32, u32)>, // (code point, cluster)
    pub dir: Option<Direction>,
    pub script: Option<String>, // ISO 15924 4-letter
    pub lang: Option<String>,
    pub features: Vec<String>, // harfbuzz feature syntax
    pub flags: u32,
    pub level: u8,
    pub pre: Vec<u32>,
    pub post: Vec<u32>,
    pub nf_vs: Option<u32>,
    /// Face::set_points_per_em (the AAT 'trak' table is applied only with a point size)
    pub ptem: Option<u32>,
}

#[derive(Clone, Debug, PartialEq, Eq)]
pub struct G {
    pub gid: u32,
    pub cluster: u32,
    pub flags: u32,
    pub xa: i32,
    pub ya: i32,
    pub xo: i32,
    pub yo: i32,
}

pub fn level_of(l: u8) -> BufferClusterLevel {
    match l {
        0 => BufferClusterLevel::MonotoneGraphemes,
        1 => BufferClusterLevel::MonotoneCharacters,
        _ => BufferClusterLevel::Characters,
    }
}

pub fn dir_name(d: Option<Direction>) -> &'static str {
    match d {
        None => "none",
        Some(Direction::LeftToRight) => "ltr",
        Some(Direction::RightToLeft) => "rtl",
        Some(Direction::TopToBottom) => "ttb",
        Some(Direction::BottomToTop) => "btt",
        Some(Direction::Invalid) => "invalid",
    }
}

pub fn dir_parse(s: &str) -> Option<Direction> {
    match s {
        "ltr" => Some(Direction::LeftToRight),
        "rtl" => Some(Direction::RightToLeft),
        "ttb" => Some(Direction::TopToBottom),
        "btt" => Some(Direction::BottomToTop),
        _ => None,
    }
}

pub fn fill(req: &Req, mut b: UnicodeBuffer) -> UnicodeBuffer {
    for (cp, cl) in &req.text {
        if let Some(c) = char::from_u32(*cp) {
            b.add(c, *cl);
        }
    }
    if !req.pre.is_empty() {
        let s: String = req.pre.iter().filter_map(|c| char::from_u32(*c)).collect();
        b.set_pre_context(&s);
    }
    if !req.post.is_empty() {
        let s: String = req.post.iter().filter_map(|c| char::from_u32(*c)).collect();
        b.set_post_context(&s);
    }
    if let Some(d) = req.dir {
        b.set_direction(d);
    }
    if let Some(s) = &req.script {
        if s.len() == 4 {
            if let Some(sc) = Script::from_iso15924_tag(ttf_parser::Tag::from_bytes_lossy(s.as_bytes())) {
                b.set_script(sc);
            }
        }
    }
    if let Some(l) = &req.lang {
        if let Ok(l) = Language::from_str(l) {
            b.set_language(l);
        }
    }
    b.set_flags(BufferFlags::from_bits_truncate(req.flags));
    b.set_cluster_level(level_of(req.level));
    if let Some(g) = req.nf_vs {
        b.set_not_found_variation_selector_glyph(g);
    }
    b
}

/// As `fill`, but the text goes in through `push_str` (clusters become UTF-8 byte offsets; the request's own
/// cluster numbers are not used).  `UnicodeBuffer::add` resets the post-context itself, `push_str` does not, so
/// only this way of filling shows what a recycled buffer still carries.
pub fn fill_push_str(req: &Req, mut b: UnicodeBuffer) -> UnicodeBuffer {
    let s: String = req.text.iter().filter_map(|(c, _)| char::from_u32(*c)).collect();
    b.push_str(&s);
    let mut rest = req.clone();
    rest.text.clear();
    fill(&rest, b)
}

pub fn features_of(req: &Req) -> Vec<Feature> {
    req.features.iter().filter_map(|f| Feature::from_str(f).ok()).collect()
}

pub fn collect(face: &Face, gb: &GlyphBuffer) -> Vec<G> {
    // flags come from the public serializer (mask & DEFINED is all the API exposes)
    let ser = gb.serialize(
        face,
        SerializeFlags::NO_GLYPH_NAMES | SerializeFlags::GLYPH_FLAGS | SerializeFlags::NO_POSITIONS,
    );
    let mut flags: Vec<u32> = Vec::new();
    if !ser.is_empty() {
        for item in ser.split('|') {
            let f = match item.find('#') {
                Some(i) => u32::from_str_radix(&item[i + 1..], 16).unwrap_or(0xFFFF_FFFF),
                None => 0,
            };
            flags.push(f);
        }
    }
    let infos = gb.glyph_infos();
    let pos = gb.glyph_positions();
    let mut out = Vec::with_capacity(infos.len());
    for i in 0..infos.len() {
        out.push(G {
            gid: infos[i].glyph_id,
            cluster: infos[i].cluster,
            flags: *flags.get(i).unwrap_or(&0xFFFF_FFFF),
            xa: pos[i].x_advance,
            ya: pos[i].y_advance,
            xo: pos[i].x_offset,
            yo: pos[i].y_offset,
        });
    }
    out
}

pub fn shape_req(face: &Face, req: &Req) -> Vec<G> {
    let b = fill(req, UnicodeBuffer::new());
    let feats = features_of(req);
    let gb = rustybuzz::shape(face, &feats, b);
    collect(face, &gb)
}

pub fn fmt_g(gs: &[G]) -> String {
    let v: Vec<String> = gs
        .iter()
        .map(|g| format!("{}={}#{}+{},{}@{},{}", g.gid, g.cluster, g.flags, g.xa, g.ya, g.xo, g.yo))
        .collect();
    v.join("|")
}

pub fn fmt_req(req: &Req) -> String {
    let t: Vec<String> = req.text.iter().map(|(c, k)| format!("{:X}:{}", c, k)).collect();
    let pre: Vec<String> = req.pre.iter().map(|c| format!("{:X}", c)).collect();
    let post: Vec<String> = req.post.iter().map(|c| format!("{:X}", c)).collect();
    let mut nfvs = match req.nf_vs { Some(g) => format!(" nfvs={}", g), None => String::new() };
    if let Some(p) = req.ptem {
        nfvs.push_str(&format!(" ptem={}", p));
    }
    format!(
        "text={} dir={} script={} lang={} feats={} flags={} level={} pre={} post={}{}",
        t.join(","),
        dir_name(req.dir),
        req.script.clone().unwrap_or("-".into()),
        req.lang.clone().unwrap_or("-".into()),
        if req.features.is_empty() { "-".to_string() } else { req.features.join(";") },
        req.flags,
        req.level,
        if pre.is_empty() { "-".to_string() } else { pre.join(",") },
        if post.is_empty() { "-".to_string() } else { post.join(",") },
        nfvs,
    )
}

/// Parse the `key=value` request syntax produced by `fmt_req` (used by replays).
pub fn parse_req(s: &str) -> Req {
    let mut r = Req::default();
    for tok in s.split_whitespace() {
        let Some((k, v)) = tok.split_once('=') else { continue };
        match k {
            "text" => {
                for (i, it) in v.split(',').enumerate() {
                    if it.is_empty() {
                        continue;
                    }
                    let (c, k) = match it.split_once(':') {
                        Some((c, k)) => (c, k.parse().unwrap_or(i as u32)),
                        None => (it, i as u32),
                    };
                    if let Ok(cp) = u32::from_str_radix(c, 16) {
                        r.text.push((cp, k));
                    }
                }
            }
            "dir" => r.dir = dir_parse(v),
            "script" => r.script = if v == "-" { None } else { Some(v.to_string()) },
            "lang" => r.lang = if v == "-" { None } else { Some(v.to_string()) },
            "feats" => {
                if v != "-" {
                    r.features = v.split(';').map(|x| x.to_string()).collect()
                }
            }
            "flags" => r.flags = v.parse().unwrap_or(0),
            "level" => r.level = v.parse().unwrap_or(0),
            "nfvs" => r.nf_vs = v.parse().ok(),
            "ptem" => r.ptem = v.parse().ok(),
            "pre" => {
                if v != "-" {
                    r.pre = v.split(',').filter_map(|x| u32::from_str_radix(x, 16).ok()).collect()
                }
            }
            "post" => {
                if v != "-" {
                    r.post = v.split(',').filter_map(|x| u32::from_str_radix(x, 16).ok()).collect()
                }
            }
            _ => {}
        }
    }
    r
}

/// All font files of the repository's test corpus, sorted.
pub fn corpus_fonts(repo: &str) -> Vec<String> {
    let mut out = Vec::new();
    let mut stack = vec![format!("{}/tests/fonts", repo)];
    while let Some(d) = stack.pop() {
        let Ok(rd) = std::fs::read_dir(&d) else { continue };
        for e in rd.flatten() {
            let p = e.path();
            if p.is_dir() {
                stack.push(p.to_string_lossy().to_string());
            } else if let Some(ext) = p.extension().and_then(|x| x.to_str()) {
                let ext = ext.to_ascii_lowercase();
                if ext == "ttf" || ext == "otf" || ext == "ttc" || ext == "dfont" {
                    out.push(p.to_string_lossy().to_string());
                }
            }
        }
    }
    out.sort();
    out
}

/// Code points mapped by the face's Unicode cmap subtables (bounded).
pub fn cmap_chars(face: &Face, limit: usize) -> Vec<u32> {
    let mut out: Vec<u32> = Vec::new();
    if let Some(cmap) = face.tables().cmap {
        for st in cmap.subtables {
            if !st.is_unicode() {
                continue;
            }
            st.codepoints(|c| {
                if out.len() < limit * 4 {
                    out.push(c);
                }
            });
        }
    }
    out.sort();
    out.dedup();
    if out.len() > limit {
        // keep an even spread
        let step = out.len() as f64 / limit as f64;
        let mut o2 = Vec::with_capacity(limit);
        let mut x = 0.0f64;
        while (x as usize) < out.len() && o2.len() < limit {
            o2.push(out[x as usize]);
            x += step;
        }
        out = o2;
    }
    out.retain(|c| char::from_u32(*c).is_some());
    out
}

pub fn repo_root() -> String {
    std::env::var("RB_REPO").unwrap_or_else(|_| "/repo".to_string())
}
