//! Shared helpers: deterministic PRNG (splitmix64/xorshift), panic capture.
#![allow(dead_code)]

#[derive(Clone)]
pub struct Rng(pub u64);

impl Rng {
    pub fn new(seed: u64) -> Self {
        let mut r = Rng(seed ^ 0x9E3779B97F4A7C15);
        r.next();
        r
    }
    pub fn next(&mut self) -> u64 {
        // splitmix64
        self.0 = self.0.wrapping_add(0x9E3779B97F4A7C15);
        let mut z = self.0;
        z = (z ^ (z >> 30)).wrapping_mul(0xBF58476D1CE4E5B9);
        z = (z ^ (z >> 27)).wrapping_mul(0x94D049BB133111EB);
        z ^ (z >> 31)
    }
    pub fn below(&mut self, n: u64) -> u64 {
        if n == 0 { 0 } else { self.next() % n }
    }
    pub fn range(&mut self, lo: u64, hi: u64) -> u64 {
        lo + self.below(hi - lo + 1)
    }
    pub fn chance(&mut self, num: u64, den: u64) -> bool {
        self.below(den) < num
    }
    pub fn pick<'a, T>(&mut self, xs: &'a [T]) -> &'a T {
        &xs[self.below(xs.len() as u64) as usize]
    }
}

/// Run `f`, mapping a panic to a short class name.
pub fn catch<T>(f: impl FnOnce() -> T + std::panic::UnwindSafe) -> Result<T, String> {
    LAST_PANIC_FILE.with(|l| l.borrow_mut().clear());
    match std::panic::catch_unwind(f) {
        Ok(v) => Ok(v),
        Err(e) => {
            let msg = if let Some(s) = e.downcast_ref::<&str>() {
                s.to_string()
            } else if let Some(s) = e.downcast_ref::<String>() {
                s.clone()
            } else {
                "panic".to_string()
            };
            Err(classify_panic(&msg))
        }
    }
}

/// Like `catch`, with the source file of the panic appended (`Class@file.rs`); a panic raised inside the
/// ttf-parser dependency is prefixed `Dep-ttf-parser-`.
pub fn catch_loc<T>(f: impl FnOnce() -> T + std::panic::UnwindSafe) -> Result<T, String> {
    match catch(f) {
        Ok(v) => Ok(v),
        Err(class) => {
            let loc = LAST_PANIC_FILE.with(|l| l.borrow().clone());
            let base = loc.rsplit('/').next().unwrap_or("").to_string();
            if loc.contains("/ttf-parser-") {
                Err(format!("Dep-ttf-parser-{}@{}", class, base))
            } else {
                Err(format!("{}@{}", class, base))
            }
        }
    }
}

thread_local! {
    pub static LAST_PANIC_FILE: std::cell::RefCell<String> = std::cell::RefCell::new(String::new());
}

pub fn classify_panic(msg: &str) -> String {
    let m = msg;
    let k = if m.contains("overflow") {
        "Overflow"
    } else if m.contains("out of range") || m.contains("out of bounds") {
        "Oob"
    } else if m.contains("char boundary") {
        "CharBoundary"
    } else if m.contains("unwrap") || m.contains("None") {
        "Unwrap"
    } else if m.contains("assert") {
        "Assert"
    } else {
        "Panic"
    };
    k.to_string()
}

pub fn quiet_panics() {
    let loud = std::env::var("RBV_PANIC").is_ok();
    let prev = std::panic::take_hook();
    std::panic::set_hook(Box::new(move |info| {
        let f = info.location().map(|l| l.file().to_string()).unwrap_or_default();
        LAST_PANIC_FILE.with(|l| *l.borrow_mut() = f);
        if loud {
            prev(info);
        }
    }));
}

pub fn arg_u64(args: &[String], name: &str, default: u64) -> u64 {
    for (i, a) in args.iter().enumerate() {
        if a == name {
            if let Some(v) = args.get(i + 1) {
                return v.parse().unwrap_or(default);
            }
        }
    }
    default
}

pub fn arg_str<'a>(args: &'a [String], name: &str) -> Option<&'a str> {
    for (i, a) in args.iter().enumerate() {
        if a == name {
            return args.get(i + 1).map(|s| s.as_str());
        }
    }
    None
}
