"""Buffer op-sequence correspondence: real hb_buffer_t (hook, `rbv bufops`) vs coq/Model/Buffer.v."""
import re

import common as C

HDR = ("From Coq Require Import List NArith Bool.\nFrom RB Require Import Base.Result Model.Buffer Model.BufferOps Corr.Common Corr.BufferC.\n"
       "Import ListNotations.\nLocal Open Scope N_scope.\n")


def info_term(s):
    g, m, c, v1, v2 = s.split(":")
    return "(mkInfo %s %s %s %s %s)" % (g, m, c, v1, v2)


def infos_term(s):
    s = s.strip()
    if not s:
        return "[]"
    return "[" + "; ".join(info_term(x) for x in s.split()) + "]"


def optnat(s):
    return "None" if s == "-" else "(Some %s%%nat)" % s


def b(x):
    return "true" if x in ("1", 1, True) else "false"


def op_term(name, args):
    n = lambda i: "%s%%nat" % args[i]
    if name == "next_glyph":
        return "ONextGlyph"
    if name == "next_glyphs":
        return "(ONextGlyphs %s)" % n(0)
    if name == "skip_glyph":
        return "OSkip"
    if name == "replace_glyph":
        return "(OReplaceGlyph %s)" % args[0]
    if name == "replace_glyphs":
        gs = args[1].split(",") if len(args) > 1 and args[1] else []
        return "(OReplaceGlyphs %s %s)" % (n(0), C.nlist(gs))
    if name == "output_glyph":
        return "(OOutputGlyph %s)" % args[0]
    if name == "output_info":
        return "(OOutputInfo %s)" % info_term(args[0])
    if name == "copy_glyph":
        return "OCopyGlyph"
    if name == "delete_glyph":
        return "ODeleteGlyph"
    if name == "move_to":
        return "(OMoveTo %s)" % n(0)
    if name == "merge_clusters":
        return "(OMergeClusters %s %s)" % (n(0), n(1))
    if name == "merge_out_clusters":
        return "(OMergeOut %s %s)" % (n(0), n(1))
    if name == "unsafe_to_break":
        return "(OUnsafeToBreak %s %s)" % (optnat(args[0]), optnat(args[1]))
    if name == "unsafe_to_concat":
        return "(OUnsafeToConcat %s %s)" % (optnat(args[0]), optnat(args[1]))
    if name == "unsafe_to_break_out":
        return "(OUnsafeToBreakOut %s %s)" % (optnat(args[0]), optnat(args[1]))
    if name == "unsafe_to_concat_out":
        return "(OUnsafeToConcatOut %s %s)" % (optnat(args[0]), optnat(args[1]))
    if name == "clear_output":
        return "OClearOutput"
    if name == "sync":
        return "OSync"
    if name == "reverse":
        return "OReverse"
    if name == "reverse_range":
        return "(OReverseRange %s %s)" % (n(0), n(1))
    if name == "reverse_groups":
        return "(OReverseGroups %s)" % b(args[0])
    if name == "reset_masks":
        return "(OResetMasks %s)" % args[0]
    if name == "set_masks":
        return "(OSetMasks %s %s %s %s)" % tuple(args[:4])
    if name == "sort":
        return "(OSort %s %s)" % (n(0), n(1))
    if name == "delete_inplace":
        return "ODeleteInplace"
    raise ValueError("unknown op " + name)


OBS = re.compile(r"ok ret=(\d) mode=(\d) idx=(\d+) ok=(\d) scratch=(\d+) pre=\[(.*?)\] rest=\[(.*?)\]$")


def parse(out):
    """Returns list of cases: dict(lines, term, nsteps, ops)."""
    cases = []
    cur = None
    for line in out.splitlines():
        if line.startswith("case "):
            m = re.match(r"case (\d+) level=(\d+) flags=(\d+) maxlen=(\d+)", line)
            cur = {"lines": [line], "level": m.group(2), "flags": m.group(3), "maxlen": m.group(4), "init": "[]", "steps": [], "ops": []}
            cases.append(cur)
        elif line.startswith("init"):
            cur["lines"].append(line)
            cur["init"] = infos_term(line[4:])
        elif line.startswith("op "):
            cur["lines"].append(line)
            lhs, rhs = line[3:].split(" => ", 1)
            parts = lhs.split()
            name, args = parts[0], parts[1:]
            cur["ops"].append(name)
            if rhs.startswith("panic"):
                obs = "(mkObs true false false 0%nat false 0 [] [])"
            else:
                m = OBS.match(rhs)
                obs = "(mkObs false %s %s %s%%nat %s %s %s %s)" % (
                    b(m.group(1)), b(m.group(2)), m.group(3), b(m.group(4)), m.group(5), infos_term(m.group(6)), infos_term(m.group(7)))
            cur["steps"].append("(%s, %s)" % (op_term(name, args), obs))
    for c in cases:
        c["term"] = "(mkCase %s %s %s %s [%s])" % (c["level"], c["flags"], c["maxlen"], c["init"], "; ".join(c["steps"]))
    return cases


def run(chk, binp, n, wild=10, tag="buf", shard=150, seed_offset=0):
    """Runs the correspondence. Returns (disagreements, stats)."""
    rc, out, err = C.run_rbv(binp, ["bufops", "--seed", chk.seed + seed_offset, "--n", n, "--wild", wild])
    if rc != 0:
        raise RuntimeError("rbv bufops failed: " + err[-500:])
    cases = parse(out)
    jobs = []
    for i in range(0, len(cases), shard):
        body = HDR + "Definition cases : list bcase := [\n%s].\n" % ";\n".join(c["term"] for c in cases[i:i + shard])
        body += "Eval vm_compute in (check_cases cases).\nEval vm_compute in ([followed_total cases]).\n"
        jobs.append(("%s_%d" % (tag, i // shard), body))
    res = C.coq_eval_many(jobs)
    dis = []
    followed = 0
    for name, o in sorted(res.items()):
        base = int(name.rsplit("_", 1)[1]) * shard
        if isinstance(o, Exception):
            dis.append({"what": "cases-file-failed", "file": name, "error": str(o)[-800:]})
            continue
        lists = C.parse_eval_lists(o)
        if len(lists) < 2:
            dis.append({"what": "no-answer", "file": name})
            continue
        for code in lists[0]:
            ci, step = code // 1000, code % 1000
            c = cases[base + ci]
            dis.append({"what": "buffer-op-differs", "case": c["lines"][:2 + step], "failing_op": c["lines"][1 + step] if 1 + step < len(c["lines"]) else "?"})
        followed += lists[1][0] if lists[1] else 0
    opcount = {}
    for c in cases:
        for o in c["ops"]:
            opcount[o] = opcount.get(o, 0) + 1
    stats = {"cases": len(cases), "steps": sum(len(c["steps"]) for c in cases), "steps_followed_by_model": followed,
             "op_histogram": opcount, "panics_observed": sum(1 for c in cases for l in c["lines"] if "=> panic" in l)}
    sample = cases[len(cases) // 3]["lines"][:6] if cases else []
    return dis, stats, sample
