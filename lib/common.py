"""Shared driver machinery for ./check: paths, subprocess helpers, Coq and cargo builds,
cases.v evaluation, verdicts, evidence, known findings.  Python 3 standard library only."""
import fcntl
import hashlib
import json
import os
import re
import resource
import subprocess
import sys
import time

VERIF = os.path.dirname(os.path.dirname(os.path.abspath(__file__)))
REPO = os.environ.get("RB_REPO", "/repo")
COQ = os.path.join(VERIF, "coq")
BUILD = os.path.join(VERIF, ".build")
HARNESS = os.path.join(VERIF, "harness")
# evidence of a run against another checkout (RB_REPO: seeded-change evaluation) never lands in /verif/evidence
EVIDENCE = os.path.join(VERIF, "evidence") if REPO == "/repo" else os.path.join(BUILD, "alt-evidence")
REPLAYS = os.path.join(VERIF, "replays")
CORPUS = os.path.join(VERIF, "corpus")
KNOWN = os.path.join(VERIF, "KNOWN_FINDINGS.txt")
NPROC = os.cpu_count() or 4

ENV = dict(os.environ)
ENV.update({"CARGO_NET_OFFLINE": "true", "LC_ALL": "C", "RB_REPO": REPO})

ALLOWED_AXIOMS = set()  # none: every Props theorem must be closed under the global context

FORBIDDEN = re.compile(
    r"\b(Admitted|admit|Axiom|Axioms|Parameter|Parameters|Conjecture|Conjectures|Admit Obligations|"
    r"bypass_check|Unset Guard Checking|Unset Positivity Checking|Unset Universe Checking)\b|type-in-type|impredicative-set")


def log(msg):
    sys.stderr.write(msg + "\n")
    sys.stderr.flush()


def _unlimit_stack():
    try:
        resource.setrlimit(resource.RLIMIT_STACK, (resource.RLIM_INFINITY, resource.RLIM_INFINITY))
    except Exception:
        pass


def sh(cmd, cwd=None, timeout=600, env=None, stdin=None, big_stack=False):
    """Run a command; returns (rc, stdout, stderr). rc=124 on timeout."""
    e = dict(ENV)
    if env:
        e.update(env)
    try:
        p = subprocess.run(cmd, cwd=cwd, env=e, input=stdin, capture_output=True, text=True,
                           timeout=timeout, shell=isinstance(cmd, str),
                           preexec_fn=_unlimit_stack if big_stack else None)
        return p.returncode, p.stdout, p.stderr
    except subprocess.TimeoutExpired as ex:
        out = ex.stdout.decode() if isinstance(ex.stdout, bytes) else (ex.stdout or "")
        err = ex.stderr.decode() if isinstance(ex.stderr, bytes) else (ex.stderr or "")
        return 124, out, err + "\nTIMEOUT"


class Lock:
    def __init__(self, name):
        os.makedirs(BUILD, exist_ok=True)
        self.path = os.path.join(BUILD, name + ".lock")

    def __enter__(self):
        self.f = open(self.path, "w")
        fcntl.flock(self.f, fcntl.LOCK_EX)
        return self

    def __exit__(self, *a):
        fcntl.flock(self.f, fcntl.LOCK_UN)
        self.f.close()


def write_if_changed(path, content):
    try:
        with open(path) as f:
            if f.read() == content:
                return False
    except FileNotFoundError:
        pass
    os.makedirs(os.path.dirname(path), exist_ok=True)
    tmp = path + ".tmp%d" % os.getpid()
    with open(tmp, "w") as f:
        f.write(content)
    os.replace(tmp, path)
    return True


# ------------------------------------------------------------------ translator + Coq build

class TieBroken(Exception):
    """A translator shape guard failed or a proof obligation no longer checks."""

    def __init__(self, what, detail=""):
        super().__init__(what)
        self.what = what
        self.detail = detail


GUARD_OWNERS = {}


def translate():
    """Regenerate coq/Gen/*.v from /repo's working tree. Returns list of (guard, message) failures."""
    sys.path.insert(0, os.path.join(VERIF, "translator"))
    import translate as T
    with Lock("coq"):
        fails = T.run(REPO, os.path.join(COQ, "Gen"))
    GUARD_OWNERS.clear()
    GUARD_OWNERS.update(T.OWNERS)
    return fails


def gen_deps(targets):
    """Names of the Gen files that the given .v files (paths relative to coq/) depend on, transitively."""
    seen, todo, gens = set(), list(targets), set()
    while todo:
        t = todo.pop()
        if t in seen:
            continue
        seen.add(t)
        try:
            src = open(os.path.join(COQ, t)).read()
        except OSError:
            continue
        src = re.sub(r"\(\*.*?\*\)", " ", src, flags=re.S)
        for m in re.finditer(r"Require\s+(?:Import|Export)\s", src):
            for tok in src[m.end():].split():
                last = tok.endswith(".")
                name = tok[:-1] if last else tok
                if name.startswith("RB."):
                    name = name[3:]
                parts = name.split(".")
                if len(parts) == 2 and parts[0] in ("Base", "Gen", "Model", "Proofs", "Corr", "Props"):
                    if parts[0] == "Gen":
                        gens.add(parts[1])
                    todo.append("%s/%s.v" % (parts[0], parts[1]))
                if last:
                    break
    return gens


def own_guards(prop, fails, extra_targets=()):
    """The guard failures that concern `prop`: raised by an extractor one of whose Gen files Props/<prop>.v (or an
    extra target) depends on.  The others are returned separately."""
    deps = gen_deps(["Props/%s.v" % prop] + [t[:-1] if t.endswith(".vo") else t for t in extra_targets])
    own, other = [], []
    for f in fails:
        owners = GUARD_OWNERS.get(f[0], {"*"})
        (own if ("*" in owners or owners & deps) else other).append(f)
    return own, other


def coq_project():
    """(Re)write _CoqProject from the directory listing and regenerate the Makefile when it changed."""
    files = []
    for d in ("Base", "Gen", "Model", "Proofs", "Corr", "Props"):
        dd = os.path.join(COQ, d)
        if os.path.isdir(dd):
            for f in sorted(os.listdir(dd)):
                if f.endswith(".v"):
                    files.append("%s/%s" % (d, f))
    content = "-Q . RB\n" + "\n".join(files) + "\n"
    changed = write_if_changed(os.path.join(COQ, "_CoqProject"), content)
    if changed or not os.path.exists(os.path.join(COQ, "Makefile")):
        rc, out, err = sh(["coq_makefile", "-f", "_CoqProject", "-o", "Makefile"], cwd=COQ)
        if rc != 0:
            raise RuntimeError("coq_makefile failed: " + err)


def coq_make(targets, timeout=1500):
    """make the given .vo targets (full .vo build, never -vos). Returns (ok, log)."""
    with Lock("coq"):
        coq_project()
        rc, out, err = sh(["make", "-j%d" % NPROC] + list(targets), cwd=COQ, timeout=timeout, big_stack=True)
        return rc == 0, out + err


def coq_lint():
    """Forbidden-token scan over the whole development (comments stripped). Returns list of hits."""
    hits = []
    for root, _, fs in os.walk(COQ):
        for f in fs:
            if not f.endswith(".v"):
                continue
            p = os.path.join(root, f)
            src = open(p).read()
            src = strip_coq_comments(src)
            for i, line in enumerate(src.split("\n"), 1):
                if FORBIDDEN.search(line):
                    hits.append("%s:%d: %s" % (os.path.relpath(p, VERIF), i, line.strip()))
                if re.match(r"\s*(Variable|Variables|Hypothesis|Hypotheses|Context)\b", line) and not _in_section(src, i):
                    hits.append("%s:%d: section-less %s" % (os.path.relpath(p, VERIF), i, line.strip()))
    return hits


def strip_coq_comments(src):
    out = []
    depth = 0
    i = 0
    n = len(src)
    in_str = False
    while i < n:
        c = src[i]
        if depth == 0 and c == '"':
            in_str = not in_str
            out.append(c)
            i += 1
        elif not in_str and src.startswith("(*", i):
            depth += 1
            i += 2
        elif not in_str and depth > 0 and src.startswith("*)", i):
            depth -= 1
            i += 2
        else:
            if depth == 0:
                out.append(c)
            elif c == "\n":
                out.append(c)
            i += 1
    return "".join(out)


def _in_section(src, lineno):
    depth = 0
    for i, line in enumerate(src.split("\n"), 1):
        if i >= lineno:
            break
        if re.match(r"\s*Section\b", line):
            depth += 1
        elif re.match(r"\s*End\b", line) and depth > 0:
            depth -= 1
    return depth > 0


def props_theorems(prop):
    """Names of the theorems stated in Props/<prop>.v, and the Print Assumptions order."""
    src = strip_coq_comments(open(os.path.join(COQ, "Props", prop + ".v")).read())
    thms = re.findall(r"^\s*(?:Theorem|Lemma)\s+([A-Za-z0-9_']+)", src, re.M)
    printed = re.findall(r"^\s*Print Assumptions\s+([A-Za-z0-9_']+)\s*\.", src, re.M)
    return thms, printed


def coq_props(prop, timeout=1500, extra_targets=()):
    """Build everything Props/<prop>.vo needs, re-check Props/<prop>.v itself, parse Print Assumptions.
    Returns dict(ok, obligations, discharged, theorems, failed, log, assumptions)."""
    target = "Props/%s.vo" % prop
    vo = os.path.join(COQ, target)
    with Lock("coq"):
        coq_project()
        for ext in (".vo", ".glob", ".vos", ".vok"):
            try:
                os.remove(vo[:-3] + ext)
            except FileNotFoundError:
                pass
        rc, out, err = sh(["make", "-j%d" % NPROC, target] + list(extra_targets), cwd=COQ, timeout=timeout, big_stack=True)
    logtxt = out + err
    thms, printed = props_theorems(prop)
    res = {"ok": rc == 0, "obligations": len(thms), "discharged": 0, "theorems": thms, "failed": [],
           "log": logtxt, "assumptions": {}, "lint": coq_lint()}
    missing_print = [t for t in thms if t not in printed]
    if rc == 0:
        # split output at each Print Assumptions answer, in order
        answers = re.findall(r"(Closed under the global context|Axioms:\n(?:.+\n?)+?(?=\n|\Z))", out)
        for name, ans in zip(printed, answers):
            if ans.startswith("Closed"):
                res["assumptions"][name] = []
            else:
                axs = re.findall(r"^([A-Za-z0-9_.']+)\s*:", ans, re.M)
                res["assumptions"][name] = axs
        for t in thms:
            if t in res["assumptions"] and all(a in ALLOWED_AXIOMS for a in res["assumptions"][t]):
                res["discharged"] += 1
            else:
                res["failed"].append(t)
        if len(answers) != len(printed):
            res["ok"] = False
            res["failed"].append("print-assumptions-count(%d/%d)" % (len(answers), len(printed)))
    else:
        m = re.search(r'File "\./([^"]+)", line (\d+)', logtxt)
        where = "%s:%s" % (m.group(1), m.group(2)) if m else "?"
        res["failed"] = ["build:" + where]
        res["error_at"] = where
    if missing_print:
        res["ok"] = False
        res["failed"] += ["no-print-assumptions:" + t for t in missing_print]
    if res["lint"]:
        res["ok"] = False
        res["failed"] += ["lint:" + h for h in res["lint"][:5]]
    if res["failed"]:
        res["ok"] = False
    return res


def coq_eval(name, body, timeout=900):
    """Compile a generated cases file (imports are the caller's business) with coqc and return its stdout.
    The file lives in .build/cases/. Raises RuntimeError on compile failure."""
    d = os.path.join(BUILD, "cases")
    os.makedirs(d, exist_ok=True)
    path = os.path.join(d, name + ".v")
    with open(path, "w") as f:
        f.write(body)
    rc, out, err = sh(["coqc", "-noglob", "-Q", COQ, "RB", path], cwd=d, timeout=timeout, big_stack=True)
    for ext in (".vo", ".vok", ".vos", ".glob"):
        try:
            os.remove(path[:-2] + ext)
        except FileNotFoundError:
            pass
    if rc != 0:
        raise RuntimeError("coqc %s failed (rc=%d): %s" % (name, rc, (err or out)[-2000:]))
    return out


def coq_eval_many(jobs, timeout=900):
    """jobs: list of (name, body). Runs up to NPROC coqc in parallel. Returns {name: stdout or Exception}."""
    from concurrent.futures import ThreadPoolExecutor
    res = {}

    def one(j):
        try:
            return j[0], coq_eval(j[0], j[1], timeout)
        except Exception as ex:  # noqa
            return j[0], ex
    with ThreadPoolExecutor(max_workers=NPROC) as ex:
        for name, r in ex.map(one, jobs):
            res[name] = r
    return res


def parse_eval_lists(out):
    """Parse the answers of successive `Eval vm_compute in (e : list N)`: returns a list of int lists."""
    res = []
    for m in re.finditer(r"=\s*(.*?)\n\s*:\s*list N", out, re.S):
        body = m.group(1)
        res.append([int(x) for x in re.findall(r"\d+", body.replace("%N", ""))])
    return res


def parse_eval_values(out):
    """Generic: returns the raw text of each `= value : type` answer."""
    return [m.group(1).strip() for m in re.finditer(r"=\s*(.*?)\n\s*:\s", out, re.S)]


def nlist(xs):
    return "[" + "; ".join(str(int(x)) for x in xs) + "]"


# ------------------------------------------------------------------ cargo

def cargo_build(profile="release", hooks=True, timeout=1500):
    """Build the harness against /repo's working tree. Returns (ok, binary path, log)."""
    tdir = os.path.join(BUILD, "cargo-hook" if hooks else "cargo-api")
    hdir = HARNESS
    if REPO != "/repo":
        # testing aid (seeded changes evaluated in a scratch worktree): same harness sources, path
        # dependency redirected to RB_REPO, separate target directory
        # one private harness copy and target directory per scratch tree: concurrent users of RB_REPO
        # (several evaluations at once) must never read each other's binaries
        import hashlib
        tag = hashlib.sha1(REPO.encode()).hexdigest()[:10]
        hdir = os.path.join(BUILD, "alt", tag, "harness")
        os.makedirs(hdir, exist_ok=True)
        toml = open(os.path.join(HARNESS, "Cargo.toml")).read().replace('path = "/repo"', 'path = "%s"' % REPO)
        write_if_changed(os.path.join(hdir, "Cargo.toml"), toml)
        for name in ("src", ".cargo", "Cargo.lock"):
            dst = os.path.join(hdir, name)
            if not os.path.lexists(dst):
                os.symlink(os.path.join(HARNESS, name), dst)
        tdir = os.path.join(BUILD, "alt", tag, "cargo-hook" if hooks else "cargo-api")
    env = {"CARGO_TARGET_DIR": tdir, "RB_REPO": REPO}
    if hooks:
        env["RUSTFLAGS"] = "--cfg rustybuzz_verif"
    lock = os.path.join(HARNESS, "Cargo.lock")
    src_lock = os.path.join(REPO, "Cargo.lock")
    if not os.path.exists(lock) and os.path.exists(src_lock):
        open(lock, "w").write(open(src_lock).read())
    cmd = ["cargo", "build", "--offline", "--quiet"]
    if profile == "release":
        cmd.append("--release")
    else:
        cmd += ["--profile", profile]
    with Lock("cargo-" + ("hook" if hooks else "api") + ("" if REPO == "/repo" else "-" + tag)):
        rc, out, err = sh(cmd, cwd=hdir, env=env, timeout=timeout)
    binp = os.path.join(tdir, profile, "rbv")
    return rc == 0, binp, out + err


def run_rbv(binp, args, timeout=900, stdin=None):
    rc, out, err = sh([binp] + [str(a) for a in args], timeout=timeout, stdin=stdin)
    return rc, out, err


# ------------------------------------------------------------------ known findings

def known_findings(prop):
    """Entries of KNOWN_FINDINGS.txt for a property: list of dict(kind, cls, text)."""
    res = []
    try:
        for line in open(KNOWN):
            line = line.strip()
            if not line or line.startswith("#"):
                continue
            m = re.match(r"(known|fixed):\s+property=(C\d+)\s+(.*)", line)
            if m and m.group(2) == prop:
                rest = m.group(3)
                cm = re.search(r"class=(\S+)", rest)
                res.append({"kind": m.group(1), "cls": cm.group(1) if cm else None, "text": rest})
    except FileNotFoundError:
        pass
    return res


# ------------------------------------------------------------------ check context / verdict

class Check:
    def __init__(self, prop, tier, seed):
        self.prop = prop
        self.tier = tier
        self.seed = seed
        self.t0 = time.time()
        self.violations = []      # list of (replay_path, no_input_found)
        self.known_hits = []      # list of text
        self.cov = {"evaluations": 0, "distinct_nontrivial": 0, "samples": [], "rule": "",
                    "obligations": 0, "discharged": 0, "checker_cmd": "", "trusted_base": []}
        self.assumptions = []
        self.notes = {}
        self.known = [k for k in known_findings(prop) if k["kind"] == "known"]
        os.makedirs(EVIDENCE, exist_ok=True)
        os.makedirs(REPLAYS, exist_ok=True)

    # -- coverage bookkeeping
    def add_eval(self, n, nontrivial=0):
        self.cov["evaluations"] += int(n)
        self.cov["distinct_nontrivial"] += int(nontrivial)

    def sample(self, s, limit=8):
        if len(self.cov["samples"]) < limit:
            self.cov["samples"].append(s)

    def note(self, key, val):
        self.notes[key] = val

    # -- verdicts
    def violation(self, kind, payload, no_input=False):
        """Record a violation; writes the replay file and prints the VIOLATION line."""
        body = {"property": self.prop, "kind": kind, "tier": self.tier, "seed": self.seed,
                "no_failing_input_found": bool(no_input)}
        body.update(payload)
        h = hashlib.sha1(json.dumps(body, sort_keys=True, default=str).encode()).hexdigest()[:12]
        path = os.path.join(REPLAYS, "%s-%s-%s.json" % (self.prop, kind, h))
        with open(path, "w") as f:
            json.dump(body, f, indent=1, default=str)
        self.violations.append((path, no_input))
        line = "VIOLATION property=%s replay=%s" % (self.prop, path)
        if no_input:
            line += " no-failing-input-found"
        print(line)
        sys.stdout.flush()
        return path

    def known_finding(self, cls, what):
        text = "KNOWN-FINDING: property=%s class=%s %s" % (self.prop, cls, what)
        if text not in self.known_hits:
            self.known_hits.append(text)
            print(text)
            sys.stdout.flush()

    def is_known(self, cls):
        return any(k["cls"] == cls for k in self.known)

    # -- proofs
    def prove(self, extra_targets=()):
        """Translate, rebuild proofs of Props/<prop>.v, record obligations. Returns result dict."""
        # one session lock around regenerate + build: a concurrent check (another property, or the same
        # checks pointed at a scratch tree through RB_REPO) must not swap coq/Gen between the two steps
        with Lock("coq-session"):
            all_guards = translate()
            guards, other = own_guards(self.prop, all_guards, extra_targets)
            self.note("translator_guards_failed", guards)
            if other:
                self.note("translator_guards_failed_of_other_properties", other)
            res = coq_props(self.prop, extra_targets=extra_targets)
        self.cov["obligations"] = res["obligations"]
        self.cov["discharged"] = res["discharged"]
        self.cov["checker_cmd"] = "make -C coq Props/%s.vo (coqc 8.16.1, full .vo build; Print Assumptions under every theorem)" % self.prop
        self.note("theorems", res["theorems"])
        self.note("assumptions", res["assumptions"])
        self.proof_result = res
        self.guards_failed = guards
        return res

    def finish(self, level="proof"):
        wall = time.time() - self.t0
        cov = dict(self.cov)
        cov.update(self.notes)
        cov["known_findings_reported"] = self.known_hits
        # keys the evidence schema types: a note of another type under such a name is kept under <name>_detail
        typed = {"evaluations": int, "distinct_nontrivial": int, "rule": str, "samples": list, "states": int, "transitions": int,
                 "traces_validated_against_impl": int, "obligations": int, "discharged": int, "checker_cmd": str, "trusted_base": list,
                 "programs": int, "disagreements_checked": int, "explanation": str, "exhaustive": bool}
        for k, t in typed.items():
            if k in cov and not isinstance(cov[k], t) or (k in cov and t is int and isinstance(cov[k], bool)):
                cov[k + "_detail"] = cov.pop(k)
        if not cov["trusted_base"]:
            cov["trusted_base"] = DEFAULT_TRUSTED_BASE
        ev = {"property_id": self.prop, "tier": self.tier, "seed": self.seed, "level": level,
              "coverage": cov, "assumptions": self.assumptions or DEFAULT_ASSUMPTIONS,
              "wall_s": round(wall, 2), "violations": len(self.violations)}
        with open(os.path.join(EVIDENCE, self.prop + ".json"), "w") as f:
            json.dump(ev, f, indent=1, default=str)
        if self.violations:
            log("%s: %d violation(s)" % (self.prop, len(self.violations)))
            return 1
        log("%s: OK (%d/%d obligations, %d evaluations, %.1fs)" % (
            self.prop, cov["discharged"], cov["obligations"], cov["evaluations"], wall))
        return 0


DEFAULT_TRUSTED_BASE = [
    "Coq 8.16.1 kernel (coqc); vm_compute used in proofs over finite/generated data and in cases files; no native_compute",
    "axioms: none (every Props theorem must print 'Closed under the global context')",
    "translator/translate.py (regex extraction of constants/tables from /repo/src)",
    "correspondence harness (harness/, lib/, props/): generators, canonicalisation, Coq cases files",
    "rustc/cargo and the guarded hooks (cfg rustybuzz_verif) in /repo",
]
DEFAULT_ASSUMPTIONS = [
    "theorems are about the Gallina model; model == code is checked by correspondence on the cases of this run, not proved",
]
