"""Driver side of the public-API searches of harness/src/e2e.rs (rbv e2e <prop> ...)."""
import re

import common as C

FAIL = re.compile(r"^fail (C\d+) (\S+) font=(\S+) req=\[(.*?)\] ?(.*)$")
SUMMARY = re.compile(r"^summary (\S+) (.*)$")


def run(chk, binp, prop, n, extra=(), timeout=900, seed_offset=0):
    """Runs `rbv e2e <prop>`; returns (fails, summary, crashed). fails: list of dict(kind, font, req, detail)."""
    trace = "%s/e2e-%s-%d.trace" % (C.BUILD, prop, chk.seed)
    import os
    os.makedirs(os.path.join(C.REPLAYS, "fonts"), exist_ok=True)
    os.environ["RBV_DUMP_DIR"] = os.path.join(C.REPLAYS, "fonts")
    C.ENV["RBV_DUMP_DIR"] = os.path.join(C.REPLAYS, "fonts")
    # every failing case is printed (up to the harness's cap): a sweep with listed known instances must see the failures
    # BEHIND the first dozen too
    os.environ["RBV_ALL_FAILS"] = "1"
    C.ENV["RBV_ALL_FAILS"] = "1"
    timeout = max(timeout, 300 + int(n) // 100)   # deep (thorough) runs on a loaded machine
    rc, out, err = C.run_rbv(binp, ["e2e", prop.lower(), "--seed", chk.seed + seed_offset, "--n", n, "--trace", trace] + list(extra), timeout=timeout)
    fails = []
    summary = {}
    for line in out.splitlines():
        m = FAIL.match(line)
        if m:
            fails.append({"kind": m.group(2), "font": m.group(3), "req": m.group(4), "detail": m.group(5)[:4000]})
            continue
        m = SUMMARY.match(line)
        if m:
            for kv in m.group(2).split():
                if "=" in kv:
                    k, v = kv.split("=", 1)
                    try:
                        summary[k] = int(v)
                    except ValueError:
                        summary[k] = v
    if isinstance(summary.get("fails"), int) and summary["fails"] > len(fails):
        fails.append({"kind": "failures-not-all-reported", "font": "-", "req": "-",
                      "detail": "the harness counted %d failing cases but printed %d" % (summary["fails"], len(fails))})
    crashed = None
    if rc != 0:
        last = ""
        try:
            lines = open(trace).read().splitlines()
            last = lines[-1] if lines else ""
        except OSError:
            pass
        crashed = {"rc": rc, "last_case": last, "stderr": err[-600:]}
    return fails, summary, crashed


def req_text(req):
    """code points of a request string"""
    m = re.search(r"text=(\S*)", req)
    if not m or not m.group(1):
        return []
    out = []
    for it in m.group(1).split(","):
        if it:
            out.append(int(it.split(":")[0], 16))
    return out


def req_field(req, key):
    m = re.search(r"\b%s=(\S+)" % key, req)
    return m.group(1) if m else None


def replay_one(binp, prop, font, req, timeout=120):
    rc, out, err = C.run_rbv(binp, ["e2e", "one", prop.lower(), "--font", font, "--req", req], timeout=timeout)
    fails = [l for l in out.splitlines() if l.startswith("fail ")]
    return rc, fails, out
