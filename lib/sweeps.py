"""Fixed-seed corpus sweeps whose known failing instances are listed individually (C03, C04 redistribution).
The sweep seed is a constant on purpose: the instances are identified by their exact (font, request)."""
import json
import os

import e2e

HERE = os.path.dirname(os.path.dirname(os.path.abspath(__file__)))

SWEEPS = {
    "C03": {"seed": 1001, "n_quick": 6000, "n_thorough": 60000, "extra": [], "kinds": ("pieces-differ", "pieces-differ-aat")},
    "C04": {"seed": 1002, "n_quick": 2500, "n_thorough": 25000, "extra": ["--redist", "1"], "kinds": ("redistribution-differs",)},
}

# The same two experiments on generated small-alphabet fonts (harness/src/flaggen.rs): font k of the fixed seed,
# 12 texts each; an instance is identified by the font's name flaggen-<seed>-<k>.ttf and the request.
GEN = {
    "C03": {"seed": 1001, "cmd": "c03gen", "n_quick": 60000, "n_thorough": 360000, "extra": []},
    "C04": {"seed": 1002, "cmd": "c04gen", "n_quick": 36000, "n_thorough": 240000, "extra": []},
}

PREPENDED = {0x0600, 0x0601, 0x0602, 0x0603, 0x0604, 0x0605, 0x06DD, 0x070F, 0x0890, 0x0891, 0x08E2, 0x110BD, 0x110CD}
BLOCKS = [
    ("arabic_joining_scripts", [(0x0600, 0x08FF), (0xFB50, 0xFDFF), (0xFE70, 0xFEFF), (0x1800, 0x18AF), (0x0840, 0x085F), (0x10AC0, 0x10AFF), (0x10B80, 0x10BAF), (0x1E900, 0x1E95F), (0xA840, 0xA87F)]),
    ("indic_shaper", [(0x0900, 0x0DFF)]),
    ("myanmar_shaper", [(0x1000, 0x109F), (0xAA60, 0xAA7F), (0xA9E0, 0xA9FF)]),
    ("khmer_shaper", [(0x1780, 0x17FF), (0x19E0, 0x19FF)]),
    ("hangul_shaper", [(0x1100, 0x11FF), (0xA960, 0xA97F), (0xD7B0, 0xD7FF), (0xAC00, 0xD7AF), (0x302E, 0x302F)]),
    ("thai_lao_shaper", [(0x0E00, 0x0EFF)]),
    ("hebrew_shaper", [(0x0590, 0x05FF), (0xFB1D, 0xFB4F)]),
    ("use_shaper", [(0x0F00, 0x0FFF), (0x1A00, 0x1AAF), (0x1B00, 0x1C4F), (0xA800, 0xA82F), (0xA880, 0xA8DF), (0xA900, 0xA95F), (0xA980, 0xA9DF), (0xAA00, 0xAA5F),
                    (0xAA80, 0xAADF), (0xABC0, 0xABFF), (0x11000, 0x11FFF), (0x1900, 0x194F), (0x1BC00, 0x1BCAF), (0x10A00, 0x10A5F), (0x1700, 0x177F), (0x1950, 0x19DF),
                    (0x16A0, 0x16FF), (0x0780, 0x07BF), (0x07C0, 0x07FF), (0x2D30, 0x2D7F)]),
]


def classify(f):
    """Root-cause class of a failing instance, decided on the input only."""
    if f["kind"].endswith("-aat"):
        return "aat_morx_path"
    cps = e2e.req_text(f["req"])
    if any(c in PREPENDED for c in cps):
        return "arabic_prepended_marks_stch"
    for name, ranges in BLOCKS:
        if any(lo <= c <= hi for c in cps for lo, hi in ranges):
            return name
    if any(0x0300 <= c <= 0x036F or 0x1AB0 <= c <= 0x1AFF or 0x20D0 <= c <= 0x20FF for c in cps):
        return "default_shaper_combining_marks"
    return "default_shaper_other"


def known_instances(prop):
    path = os.path.join(HERE, "corpus", "%s-known-instances.json" % prop)
    try:
        d = json.load(open(path))
    except OSError:
        return {}
    # instances are listed with /repo/... font paths; a run against another checkout (RB_REPO) sees the same
    # corpus under its own root
    import common as C

    def font(pth):
        return C.REPO + pth[len("/repo"):] if pth.startswith("/repo/") and C.REPO != "/repo" else pth
    return {(font(i["font"]), i["req"], i["kind"]): i["class"] for i in d["instances"]}


def gen_key(f):
    return (os.path.basename(f["font"]), f["req"], f["kind"])


def known_gen_instances(prop):
    path = os.path.join(HERE, "corpus", "%s-known-gen-instances.json" % prop)
    try:
        d = json.load(open(path))
    except OSError:
        return {}
    return {(i["font"], i["req"], i["kind"]): i["class"] for i in d["instances"]}


def gen_sweep(chk, binp, prop, fails, label):
    """Runs the generated-font sweep of `prop`; known listed instances become KNOWN-FINDING lines, the rest is appended to fails."""
    g = GEN[prop]
    known = known_gen_instances(prop)

    class Fixed:
        seed = g["seed"]
    fl, summary, crashed = e2e.run(Fixed, binp, g["cmd"], g["n_thorough"] if chk.tier == "thorough" else g["n_quick"], extra=g["extra"])
    chk.note(label, summary)
    chk.add_eval(summary.get("evaluations", 0), summary.get("nontrivial", 0))
    if crashed:
        fails.append({"kind": "generated-sweep-crashed", "detail": crashed})
    per_class = {}
    for f in fl:
        cls = known.get(gen_key(f))
        if cls and chk.is_known(cls):
            per_class.setdefault(cls, []).append(f)
        else:
            fails.append(f)
    for cls, fs in sorted(per_class.items()):
        chk.known_finding(cls, "%d listed instance(s) of the generated-font sweep, e.g. font=%s req=[%s]" % (len(fs), os.path.basename(fs[0]["font"]), fs[0]["req"]))
    return summary
