"""C01 — shaping is total: no panic, abort or hang; output length is bounded.
Proof: Props/C01.v — the length budget is an invariant of every operation of the buffer alphabet and
every finite operation sequence (max(64 n, 16384) for n characters); component totality theorems live
with their models (C06 C07 C10 C17 C18).  Tie: panics are part of every correspondence; buffer
operation sequences incl. a malformed stream and tight budgets (hook).  Search: crash / length-bound
search through the public API in release AND overflow-checked builds: corpus fonts x random, degenerate
and very long texts, arbitrary language strings / features / not-found glyphs, byte-mutated fonts, and
deterministic adversarial generated fonts (growth bomb, recursion ring, deep nesting, 200000-glyph
cursive chains, 70000 marks, morx insertion loop).  A process abort or time-out is attributed by the
trace file."""
import json
import re

import bufcorr
import common as C
import e2e

LEVEL = "proof"


def crash_search(chk, binp, flavour, n, fails):
    fl, summary, crashed = e2e.run(chk, binp, "C01", n, timeout=900 if n <= 50000 else 5400)
    chk.note("crash_search_" + flavour, summary)
    chk.add_eval(summary.get("evaluations", 0), summary.get("nontrivial", 0))
    if crashed:
        fails.append({"kind": "process-abort-or-timeout (%s build)" % flavour, "detail": crashed})
    for f in fl:
        f["build"] = flavour
        f["req"] = f["req"][:800]
        fails.append(f)
    # adversarial generated fonts
    trace = "%s/e2e-c01gen-%s.trace" % (C.BUILD, flavour)
    rc, out, err = C.run_rbv(binp, ["e2e", "c01gen", "--trace", trace], timeout=600)
    cases = [l for l in out.splitlines() if l.startswith("c01gen-case")]
    chk.note("adversarial_cases_" + flavour, cases)
    chk.add_eval(len(cases), len(cases))
    for line in out.splitlines():
        m = e2e.FAIL.match(line)
        if m:
            fails.append({"kind": m.group(2), "font": m.group(3), "req": m.group(4)[:300], "detail": m.group(5)[:500], "build": flavour})
    if rc != 0:
        last = ""
        try:
            last = open(trace).read().splitlines()[-1]
        except Exception:
            pass
        fails.append({"kind": "process-abort-or-timeout (%s build, adversarial fonts)" % flavour, "detail": {"rc": rc, "last_case": last, "stderr": err[-400:]}})


def run(chk):
    thorough = chk.tier == "thorough"
    chk.cov["rule"] = ("crash/length search: corpus fonts (30% byte-mutated) x random/degenerate/long texts x arbitrary language strings, features, flags, levels, "
                       "not-found glyphs; 18 adversarial generated cases; both release and overflow-checked builds; every shape checks len_out <= max(64 n, 16384); "
                       "buffer op sequences with malformed stream and tight budgets vs the model. non-trivial = output length differs from input length / adversarial case")
    pr = chk.prove(extra_targets=["Corr/BufferC.vo"])
    broken = []
    if chk.guards_failed:
        broken += ["translator-guard:%s (%s)" % tuple(g) for g in chk.guards_failed]
    if not pr["ok"]:
        broken += ["proof:" + f for f in pr["failed"]]
    dis, fails = [], []
    ok, binp, blog = C.cargo_build("release", hooks=True)
    if not ok:
        broken.append("hook-build-failed: " + blog[-600:])
        ok, binp, blog = C.cargo_build("release", hooks=False)
        if not ok:
            raise RuntimeError("harness does not build even without hooks: " + blog[-600:])
    else:
        dis, stats, sample = bufcorr.run(chk, binp, 3000 if thorough else 300, wild=35, tag="c01buf", seed_offset=1)
        # the budgets enter() derives from the length (C01_initial is a statement about them): real buffer against the model
        import C05 as _c05
        dis += _c05.enter_correspondence(chk, binp)
        chk.note("buffer_correspondence_malformed_stream", stats)
        chk.add_eval(stats["steps"], stats["steps_followed_by_model"])
        chk.sample({"buffer_op_sequence": sample})
    crash_search(chk, binp, "release", 200000 if thorough else 5000, fails)
    okc, binc, blogc = C.cargo_build("checked", hooks=True)
    if not okc:
        okc, binc, blogc = C.cargo_build("checked", hooks=False)
    if okc:
        crash_search(chk, binc, "overflow-checked", 200000 if thorough else 5000, fails)
    else:
        broken.append("checked-build-failed: " + blogc[-400:])
    # known findings, decided on the call site / the input (see KNOWN_FINDINGS.txt):
    #  - panics inside the ttf-parser dependency that exist only in checked builds, listed by (file, kind)
    #  - as_glyph's debug_assert when the caller set a not-found-variation-selector glyph above 0xFFFF
    sites = set()
    try:
        sites = set((x["file"], x["panic"]) for x in json.load(open(C.VERIF + "/corpus/C01-ttf-parser-checked-build.json"))["sites"])
    except Exception:
        pass
    rest = []
    for f in fails:
        kind = str(f.get("kind"))
        m = re.match(r"panic-Dep-ttf-parser-(\w+)@(\S+)$", kind)
        nf = re.search(r"nfvs=(\d+)", str(f.get("req", "")))
        if m and f.get("build") == "overflow-checked" and (m.group(2), m.group(1)) in sites and chk.is_known("ttf_parser_checked_build"):
            chk.known_finding("ttf_parser_checked_build", "%s inside ttf-parser %s (checked build only)" % (m.group(1), m.group(2)))
        elif (kind == "panic-Assert@buffer.rs" and f.get("build") == "overflow-checked" and nf and int(nf.group(1)) > 0xFFFF
              and chk.is_known("not_found_vs_glyph_unchecked")):
            chk.known_finding("not_found_vs_glyph_unchecked", "serialize after set_not_found_variation_selector_glyph(g > 0xFFFF): as_glyph debug_assert (checked build only)")
        else:
            rest.append(f)
    fails = rest
    chk.sample({"adversarial": chk.notes.get("adversarial_cases_release", [])[:4]})
    chk.note("correspondence_disagreements", len(dis))
    for f in fails[:3]:
        chk.violation(f["kind"], f)
    if not fails and (broken or dis):
        chk.violation("tie-or-proof-broken", {"broken": broken, "disagreements": dis[:8],
                      "note": "Props/C01.v or the buffer correspondence no longer checks; the crash/length search found no failing input"}, no_input=True)
    chk.cov["trusted_base"] = C.DEFAULT_TRUSTED_BASE + ["hook: src/hb/verif/buffer.rs"]
    chk.assumptions = C.DEFAULT_ASSUMPTIONS + [
        "ttf-parser over arbitrary bytes and the un-modelled shapers are covered by the crash search only",
        "real stack exhaustion and wall-clock are observed (process exit status, 20 s per adversarial case), not proved"]


def replay(chk, path):
    body = json.load(open(path))
    print(json.dumps(body, indent=1)[:3000])
    ok, binp, _ = C.cargo_build("release", hooks=False)
    if "font" in body and "req" in body and not str(body["font"]).startswith("generated:"):
        rc, fails, out = e2e.replay_one(binp, "C01", body["font"], body["req"])
        print(out[:2000])
        return 1 if fails or rc != 0 else 0
    return 0
