"""C02 — output clusters come from the input and are monotone in the text direction.
Proof: Props/C02.v over the zipper buffer model (value subset for EVERY buffer operation sequence;
monotone for the streaming alphabet — partial).  Tie: random operation sequences on the real
hb_buffer_t (hook) replayed on the model by vm_compute.  Search: subset / minimum / monotone predicate on
public-API shapes of corpus fonts (all shapers, four directions, levels 0-2, kern on/off)."""
import json

import bufcorr
import common as C
import e2e

LEVEL = "proof"
INDIC = [(0x0900, 0x0DFF)]


REORDERING = [(0x0900, 0x0DFF), (0x1000, 0x109F), (0xAA60, 0xAA7F), (0xA9E0, 0xA9FF), (0x1780, 0x17FF), (0x0F00, 0x0FFF),
              (0x1A00, 0x1AAF), (0x1B00, 0x1C4F), (0xA800, 0xA8FF), (0xA900, 0xA95F), (0xA980, 0xA9DF), (0xAA00, 0xAA5F), (0xAA80, 0xAADF),
              (0xABC0, 0xABFF), (0x11000, 0x11FFF), (0x1900, 0x19FF), (0x1800, 0x18AF), (0x0700, 0x07FF)]
OPPOSITE = {"rtl": "ltr", "ltr": "rtl", "btt": "ttb", "ttb": "btt"}


def indic_dependent(c):
    """dependent sign of one of the nine Indic blocks (signs, nukta, matras, virama, length marks)"""
    if not (0x0900 <= c <= 0x0DFF):
        return False
    o = c & 0x7F
    return o <= 0x03 or 0x3A <= o <= 0x4F or 0x55 <= o <= 0x57 or 0x62 <= o <= 0x63


def indic_orphan_sign(cps):
    """the text has an Indic dependent sign with no Indic character before it (text start or after a
    character outside the Indic blocks): a broken cluster for the Indic syllable machine"""
    for i, c in enumerate(cps):
        if indic_dependent(c) and (i == 0 or not (0x0900 <= cps[i - 1] <= 0x0DFF)):
            return True
    return False


def known_class(f, binp=None):
    """class name of a failure that is a listed known finding, else None.  Classes are decided on the input."""
    cps = e2e.req_text(f["req"])
    if f["kind"] != "not-monotone":
        return None
    if 0x200C in cps and any(lo <= c <= hi for c in cps for lo, hi in INDIC):
        return "indic_zwnj_cluster_split"
    if indic_orphan_sign(cps):
        return "indic_orphan_matra_reordering"
    if any(lo <= c <= hi for c in cps for lo, hi in INDIC) and binp and e2e.req_field(f["req"], "level") != "0":
        # the same root cause with other ill-formed sequences (a sign behind a virama, a fourth vowel sign, repeated length
        # marks ...): what makes the cluster BROKEN is the syllable machine's business, so it is asked - the shaper inserts
        # a dotted circle exactly for broken clusters (probe font: every character of the text plus U+25CC, no layout tables)
        rc, out, err = C.run_rbv(binp, ["e2e", "broken-probe", "--req", f["req"]])
        import re
        m = re.search(r"broken-probe inserted=(-?\d+)", out)
        if m and int(m.group(1)) > 0:
            return "indic_orphan_matra_reordering"
    d = e2e.req_field(f["req"], "dir")
    if d in OPPOSITE and any(lo <= c <= hi for c in cps for lo, hi in REORDERING) and binp:
        # forced against the native direction: the same request in the opposite direction must pass
        import re
        req2 = re.sub(r"\bdir=\S+", "dir=" + OPPOSITE[d], f["req"])
        rc, fails, _ = e2e.replay_one(binp, "C02", f["font"], req2)
        if rc == 0 and not fails:
            return "forced_direction_regrouping"
    return None


def run(chk):
    thorough = chk.tier == "thorough"
    chk.cov["rule"] = ("buffer correspondence: random operation sequences (mostly-valid stream + malformed stream) on the real hb_buffer_t, logical state compared "
                       "with the zipper model after every operation; search: subset/min/monotone predicate on shapes of the 467 corpus fonts x random texts from "
                       "each font's cmap x directions x levels x features (kern on/off pass over all fonts with kern tables). non-trivial = glyph count differs from "
                       "character count or clusters were merged (search), operation steps followed by the model (correspondence)")
    pr = chk.prove(extra_targets=["Corr/BufferC.vo"])
    broken = []
    if chk.guards_failed:
        broken += ["translator-guard:%s (%s)" % tuple(g) for g in chk.guards_failed]
    if not pr["ok"]:
        broken += ["proof:" + f for f in pr["failed"]]
    ok, binp, blog = C.cargo_build("release", hooks=True)
    dis, fails = [], []
    if not ok:
        broken.append("hook-build-failed: " + blog[-600:])
        ok2, binp, blog2 = C.cargo_build("release", hooks=False)
        if not ok2:
            raise RuntimeError("harness does not build even without hooks: " + blog2[-600:])
    else:
        dis, stats, sample = bufcorr.run(chk, binp, 4000 if thorough else 400, tag="c02buf")
        chk.note("buffer_correspondence", stats)
        chk.add_eval(stats["steps"], stats["steps_followed_by_model"])
        chk.sample({"buffer_op_sequence": sample})
    fl, summary, crashed = e2e.run(chk, binp, "C02", 600000 if thorough else 6000)
    chk.note("search", summary)
    chk.add_eval(summary.get("evaluations", 0), summary.get("nontrivial", 0))
    if crashed:
        fails.append({"kind": "search-crashed", "detail": crashed})
    for f in fl:
        cls = known_class(f, binp)
        if cls and chk.is_known(cls):
            chk.known_finding(cls, "%s font=%s req=[%s]" % (f["kind"], f["font"], f["req"]))
        else:
            fails.append(f)
    if fl:
        chk.sample({"search_failure": fl[0]})
    else:
        chk.sample({"search_summary": summary})
    chk.note("correspondence_disagreements", len(dis))
    for f in fails[:3]:
        chk.violation(f["kind"], f)
    if not fails and (broken or dis):
        chk.violation("tie-or-proof-broken", {"broken": broken, "disagreements": dis[:8],
                      "note": "Props/C02.v or the buffer model/implementation correspondence no longer checks; the public-API search found no input violating C02"},
                      no_input=True)
    chk.cov["trusted_base"] = C.DEFAULT_TRUSTED_BASE + ["hook: src/hb/verif/buffer.rs (re-export of hb_buffer_t and field accessors)"]
    chk.assumptions = C.DEFAULT_ASSUMPTIONS + [
        "shaper-specific reordering (Indic, USE, Khmer, Myanmar) is not modelled: covered by the search only",
        "monotone theorem covers the streaming alphabet in output mode (Props/C02.v says what is missing)"]


def replay(chk, path):
    body = json.load(open(path))
    print(json.dumps(body, indent=1)[:3000])
    ok, binp, _ = C.cargo_build("release", hooks=False)
    if "font" in body and "req" in body:
        rc, fails, out = e2e.replay_one(binp, "C02", body["font"], body["req"])
        print(out)
        return 1 if fails or rc != 0 else 0
    return 0
