"""C03 — a cluster start without UNSAFE_TO_BREAK is a safe place to break the text.
Proof (partial by design, see Props/C03.v): the flag primitives of the buffer — minimum cluster,
interior flagging, frame, survival.  Tie: flags are compared in the buffer operation correspondence
(hook) and in the API-level correspondences of the lookup properties.  Search: HarfBuzz-verifier style
piece reshaping (cut at ALL unflagged cluster starts at once, reshape, concatenate, compare) as a
fixed-seed sweep over the corpus fonts, known failing instances listed one by one
(corpus/C03-known-instances.json, classes decided on the input; the AAT path is its own class), and the same
experiment on generated small-alphabet fonts (flaggen.rs; corpus/C03-known-gen-instances.json)."""
import json

import bufcorr
import common as C
import e2e
import sweeps

LEVEL = "proof"


def run(chk):
    thorough = chk.tier == "thorough"
    sw = sweeps.SWEEPS["C03"]
    chk.cov["rule"] = ("piece reshaping on the corpus fonts: shape whole (levels 0/1, no context), cut the input at every cluster start whose first glyph is free of "
                       "UNSAFE_TO_BREAK, reshape the pieces with BOT/EOT cleared on inner sides, concatenate in visual order, compare ids/clusters/advances/offsets; "
                       "fixed-seed sweep (seed %d) so that known failing instances are identified by their exact font+request; buffer op correspondence incl. flag "
                       "masks seeded by VERIF_SEED; the same experiment on generated small-alphabet fonts (harness/src/flaggen.rs: PairPos with records that are empty / one-axis / device-only, "
                       "(chain) context formats 1-3 with nested single/multiple/ligature lookups, all four directions, fixed seed). non-trivial = at least one safe cut existed" % sw["seed"])
    pr = chk.prove(extra_targets=["Corr/BufferC.vo"])
    broken = []
    if chk.guards_failed:
        broken += ["translator-guard:%s (%s)" % tuple(g) for g in chk.guards_failed]
    if not pr["ok"]:
        broken += ["proof:" + f for f in pr["failed"]]
    ok, binp, blog = C.cargo_build("release", hooks=True)
    dis, fails = [], []
    if not ok:
        broken.append("hook-build-failed: " + blog[-600:])
        ok2, binp, blog2 = C.cargo_build("release", hooks=False)
        if not ok2:
            raise RuntimeError("harness does not build even without hooks: " + blog2[-600:])
    else:
        dis, stats, sample = bufcorr.run(chk, binp, 3000 if thorough else 300, tag="c03buf", seed_offset=3)
        chk.note("buffer_correspondence", stats)
        chk.add_eval(stats["steps"], stats["steps_followed_by_model"])
        chk.sample({"buffer_op_sequence": sample})
    known = sweeps.known_instances("C03")

    class Fixed:
        seed = sw["seed"]
    fl, summary, crashed = e2e.run(Fixed, binp, "C03", sw["n_thorough"] if thorough else sw["n_quick"])
    chk.note("piece_reshaping_sweep", summary)
    chk.add_eval(summary.get("evaluations", 0), summary.get("nontrivial", 0))
    if crashed:
        fails.append({"kind": "sweep-crashed", "detail": crashed})
    per_class = {}
    for f in fl:
        cls = known.get((f["font"], f["req"], f["kind"]))
        if cls and chk.is_known(cls):
            per_class.setdefault(cls, []).append(f)
        else:
            fails.append(f)
    for cls, fs in sorted(per_class.items()):
        chk.known_finding(cls, "%d listed instance(s) of the piece-reshaping sweep, e.g. font=%s req=[%s]" % (len(fs), fs[0]["font"], fs[0]["req"]))
    gsum = sweeps.gen_sweep(chk, binp, "C03", fails, "piece_reshaping_generated_fonts")
    chk.sample({"sweep_summary": summary, "generated_font_sweep_summary": gsum})
    chk.note("correspondence_disagreements", len(dis))
    for f in fails[:3]:
        chk.violation(f["kind"], f)
    if not fails and (broken or dis):
        chk.violation("tie-or-proof-broken", {"broken": broken, "disagreements": dis[:8],
                      "note": "Props/C03.v or the buffer correspondence (flags included) no longer checks; the piece-reshaping sweep found no new failing input"},
                      no_input=True)
    chk.cov["trusted_base"] = C.DEFAULT_TRUSTED_BASE + ["hook: src/hb/verif/buffer.rs", "corpus/C03-known-instances.json and C03-known-gen-instances.json (collected on the committed tree by tools/collect_known.py)", "harness/src/flaggen.rs (font generator) and fontgen (sfnt writer)"]
    chk.assumptions = C.DEFAULT_ASSUMPTIONS + ["engine-wide locality is not proved: theorems cover the flag primitives; lookups/shapers are covered by flag correspondence and the sweep"]


def replay(chk, path):
    body = json.load(open(path))
    print(json.dumps(body, indent=1)[:3000])
    ok, binp, _ = C.cargo_build("release", hooks=False)
    if "font" in body and "req" in body:
        rc, fails, out = e2e.replay_one(binp, "C03", body["font"], body["req"])
        print(out[:3000])
        return 1 if fails or rc != 0 else 0
    return 0
