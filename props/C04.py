"""C04 — glyph flags: UNSAFE_TO_CONCAT sound; flags clean and uniform per cluster.
Proof: Props/C04.v (propagate_flags model: uniform per cluster, only defined bits, concat/tatweel gated,
break => concat; BufferFlags constants pairwise distinct) with constants and the write-back shape
re-extracted from lib.rs / buffer.rs / ot_shape.rs.  Tie: flags are part of the buffer operation
correspondence (hook) and of every API-level correspondence of the lookup properties.  Search:
per-glyph predicates on corpus shapes for all four subsets of the PRODUCE flags (seeded), and the
even/odd redistribution experiment as a fixed-seed corpus sweep whose known failing instances are
listed individually (corpus/C04-known-instances.json)."""
import json

import bufcorr
import common as C
import e2e
import sweeps

LEVEL = "proof"
CLASS_TEXT = "redistribution of concat-free segments changes the result on this listed corpus instance (shaper-specific flag gaps inherited from HarfBuzz's flag placement)"


def run(chk):
    thorough = chk.tier == "thorough"
    chk.cov["rule"] = ("flag predicates (defined bits only, gating of CONCAT/TATWEEL by their own buffer flag, break=>concat, uniform per cluster) on shapes of the corpus "
                       "fonts x random texts x 4 subsets of the PRODUCE flags (seeded by VERIF_SEED); redistribution experiment as a fixed-seed sweep (seed %d) with known "
                       "failing instances listed one by one; both on generated small-alphabet fonts too (harness/src/flaggen.rs, fixed seed %d, all four directions); buffer op correspondence incl. masks. non-trivial = some glyph carries a flag" % (sweeps.SWEEPS["C04"]["seed"], sweeps.GEN["C04"]["seed"]))
    pr = chk.prove(extra_targets=["Corr/BufferC.vo"])
    broken = []
    if chk.guards_failed:
        broken += ["translator-guard:%s (%s)" % tuple(g) for g in chk.guards_failed]
    if not pr["ok"]:
        broken += ["proof:" + f for f in pr["failed"]]
    ok, binp, blog = C.cargo_build("release", hooks=True)
    dis, fails = [], []
    if not ok:
        broken.append("hook-build-failed: " + blog[-600:])
        ok2, binp, blog2 = C.cargo_build("release", hooks=False)
        if not ok2:
            raise RuntimeError("harness does not build even without hooks: " + blog2[-600:])
    else:
        dis, stats, sample = bufcorr.run(chk, binp, 3000 if thorough else 200, tag="c04buf", seed_offset=4)
        chk.note("buffer_correspondence", stats)
        chk.add_eval(stats["steps"], stats["steps_followed_by_model"])
    # (1) per-glyph predicates, seeded
    fl, summary, crashed = e2e.run(chk, binp, "C04", 400000 if thorough else 5000, extra=["--redist", "0"])
    chk.note("flag_predicates", summary)
    chk.add_eval(summary.get("evaluations", 0), summary.get("nontrivial", 0))
    if crashed:
        fails.append({"kind": "search-crashed", "detail": crashed})
    # a cluster value that occurs in two separate runs of the output (non-monotone clusters: C02's known
    # classes) cannot carry uniform flags: propagate_flags works per run.  Decided on the input by C02's classifier.
    import importlib
    c02 = importlib.import_module("C02")
    for f in fl:
        cls = None
        if f.get("kind") == "flags-not-uniform-in-cluster":
            rc2, fl2c, _ = e2e.replay_one(binp, "C02", f["font"], f["req"])
            if any(" not-monotone " in l for l in fl2c):
                cls = c02.known_class({"kind": "not-monotone", "req": f["req"], "font": f["font"]}, binp)
        if cls and chk.is_known("nonmonotone_clusters_split_flag_groups"):
            chk.known_finding("nonmonotone_clusters_split_flag_groups", "cluster value in two separate runs (C02 class %s): font=%s req=[%s]" % (cls, f["font"], f["req"][:300]))
        else:
            fails.append(f)
    # (2) redistribution, fixed-seed sweep with listed instances
    sw = sweeps.SWEEPS["C04"]
    known = sweeps.known_instances("C04")

    class Fixed:
        seed = sw["seed"]
    fl2, summary2, crashed2 = e2e.run(Fixed, binp, "C04", sw["n_thorough"] if thorough else sw["n_quick"], extra=sw["extra"])
    chk.note("redistribution_sweep", summary2)
    chk.add_eval(summary2.get("redistributions", 0), summary2.get("redistributions", 0))
    if crashed2:
        fails.append({"kind": "sweep-crashed", "detail": crashed2})
    per_class = {}
    for f in fl2:
        cls = known.get((f["font"], f["req"], f["kind"]))
        if cls and chk.is_known(cls):
            per_class.setdefault(cls, []).append(f)
        else:
            fails.append(f)
    for cls, fs in sorted(per_class.items()):
        chk.known_finding(cls, "%d listed instance(s) of the redistribution sweep, e.g. font=%s req=[%s]" % (len(fs), fs[0]["font"], fs[0]["req"]))
    gsum = sweeps.gen_sweep(chk, binp, "C04", fails, "generated_font_sweep")
    chk.sample({"flag_summary": summary, "redistribution_summary": summary2, "generated_font_sweep_summary": gsum})
    chk.note("correspondence_disagreements", len(dis))
    for f in fails[:3]:
        chk.violation(f["kind"], f)
    if not fails and (broken or dis):
        chk.violation("tie-or-proof-broken", {"broken": broken, "disagreements": dis[:8],
                      "note": "Props/C04.v (constants, propagate_flags shape) or the buffer correspondence no longer checks; the flag predicates and the redistribution sweep found no new failing input"},
                      no_input=True)
    chk.cov["trusted_base"] = C.DEFAULT_TRUSTED_BASE + ["hook: src/hb/verif/buffer.rs", "corpus/C04-known-instances.json and C04-known-gen-instances.json (instances collected on the committed tree by tools/collect_known.py)", "harness/src/flaggen.rs (font generator) and fontgen (sfnt writer)"]
    chk.assumptions = C.DEFAULT_ASSUMPTIONS + ["redistribution soundness for the whole engine is search-level (fixed corpus sweep); the theorems cover propagate_flags and the constants"]


def replay(chk, path):
    body = json.load(open(path))
    print(json.dumps(body, indent=1)[:3000])
    ok, binp, _ = C.cargo_build("release", hooks=False)
    if "font" in body and "req" in body:
        rc, fails, out = e2e.replay_one(binp, "C04", body["font"], body["req"])
        print(out[:3000])
        return 1 if fails or rc != 0 else 0
    return 0
