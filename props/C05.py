"""C05 — shaping is a pure function: repeatable; buffer / plan reuse and threads are safe.
Proof: Props/C05.v over Model/Api.v (public buffer API as a state machine, shaping core arbitrary):
Idle invariant over all fill/shape/clear histories, history independence, clear = fresh, schedule
independence for thread-owned buffers; premises re-extracted from source (enter/leave pairing shape,
budget constants, audit of global mutable state / unsafe).  Tie: API histories with the budget/progress
fields observed through the hook after every step, replayed on the model by vm_compute.  Search: public
API histories on one recycled buffer (incl. empty and > 16384-character texts) vs fresh buffers,
repeat, shape vs shape_with_plan, N threads sharing Face and ShapePlan vs sequential."""
import json
import re

import common as C
import e2e

LEVEL = "proof"
HDR = ("From Coq Require Import List NArith Bool.\nFrom RB Require Import Model.Api Corr.Common Corr.ApiC.\n"
       "Import ListNotations.\nLocal Open Scope N_scope.\n")


def api_correspondence(chk, binp, n):
    rc, out, err = C.run_rbv(binp, ["c05", "api", "--seed", chk.seed, "--n", n], timeout=600)
    if rc != 0:
        raise RuntimeError("rbv c05 api failed: " + err[-400:])
    hists = []
    for line in out.splitlines():
        if line.startswith("hist "):
            hists.append([])
            continue
        m = re.match(r"(push (\d+)|shape|clear) => (.*)", line)
        if not m:
            continue
        obs = C.nlist(m.group(3).split())
        if m.group(1).startswith("push"):
            op = "APush %s" % m.group(2)
        elif m.group(1) == "shape":
            op = "AShape"
        else:
            op = "AClear"
        hists[-1].append(("(%s, %s)" % (op, obs), line))
    jobs = []
    shard = 3
    for i in range(0, len(hists), shard):
        body = HDR + "Definition hs : list (list (aop * aobs)) := [\n%s].\nEval vm_compute in (check_hists hs).\n" % ";\n".join(
            "[" + "; ".join(s[0] for s in h) + "]" for h in hists[i:i + shard])
        jobs.append(("c05_api_%d" % (i // shard), body))
    res = C.coq_eval_many(jobs)
    dis = []
    for name, o in sorted(res.items()):
        base = int(name.rsplit("_", 1)[1]) * shard
        if isinstance(o, Exception):
            dis.append({"what": "cases-file-failed", "file": name, "error": str(o)[-600:]})
            continue
        lists = C.parse_eval_lists(o)
        if not lists:
            dis.append({"what": "no-answer", "file": name})
            continue
        for code in lists[0]:
            hi, step = code // 1000, code % 1000
            h = hists[base + hi]
            dis.append({"what": "api-history-differs", "history": [s[1] for s in h[:step]]})
    steps = sum(len(h) for h in hists)
    big = sum(1 for h in hists for s in h if re.match(r"push (\d+)", s[1]) and int(re.match(r"push (\d+)", s[1]).group(1)) > 16384)
    return dis, {"histories": len(hists), "steps": steps, "pushes_beyond_16384": big}, (hists[0][:4] if hists else [])


def enter_correspondence(chk, binp):
    """enter() on the real buffer (hook) against the model's budget formulas, for lengths around every threshold."""
    rc, out, err = C.run_rbv(binp, ["c05", "enter"], timeout=300)
    rows = [tuple(int(x) for x in l.split()[1:4]) for l in out.splitlines() if l.startswith("enter ")]
    if rc != 0 or len(rows) < 20:
        return [{"what": "enter-hook-failed", "stderr": err[-300:]}]
    ns = [r[0] for r in rows]
    body = HDR + ("Eval vm_compute in (map (fun n => enter_max_len n MAX_LEN_DEFAULT) %s).\n"
                  "Eval vm_compute in (map (fun n => enter_max_ops n MAX_OPS_DEFAULT) %s).\n" % (C.nlist(ns), C.nlist(ns)))
    res = C.coq_eval_many([("c05_enter", body)])
    o = res.get("c05_enter")
    if isinstance(o, Exception) or o is None:
        return [{"what": "cases-file-failed", "file": "c05_enter", "error": str(o)[-400:]}]
    lists = C.parse_eval_lists(o)
    if len(lists) != 2 or len(lists[0]) != len(rows) or len(lists[1]) != len(rows):
        return [{"what": "no-answer", "file": "c05_enter"}]
    dis = []
    for (n, ml, mo), eml, emo in zip(rows, lists[0], lists[1]):
        if (ml, mo) != (eml, emo):
            dis.append({"what": "enter-budgets-differ", "len": n, "implementation(max_len,max_ops)": [ml, mo], "model": [eml, emo]})
    chk.note("enter_budget_correspondence", {"lengths": len(rows), "disagreements": len(dis)})
    chk.add_eval(len(rows), len(rows))
    return dis[:5]


def run(chk):
    thorough = chk.tier == "thorough"
    chk.cov["rule"] = ("API histories (push k characters incl. 0 and > 16384, shape, clear) with len/max_len/max_ops/successful/progress fields observed by hook after every "
                       "step and replayed on Model/Api.v; public-API search: recycled buffer vs fresh buffer for every step of random histories on corpus fonts, repeat, "
                       "shape vs shape_with_plan, 8 threads sharing Face+ShapePlan vs sequential. non-trivial = step after an earlier use of the same buffer / threaded shapes")
    pr = chk.prove(extra_targets=["Corr/ApiC.vo"])
    broken = []
    if chk.guards_failed:
        broken += ["translator-guard:%s (%s)" % tuple(g) for g in chk.guards_failed]
    if not pr["ok"]:
        broken += ["proof:" + f for f in pr["failed"]]
    ok, binp, blog = C.cargo_build("release", hooks=True)
    dis, fails = [], []
    if not ok:
        broken.append("hook-build-failed: " + blog[-600:])
        ok2, binp, blog2 = C.cargo_build("release", hooks=False)
        if not ok2:
            raise RuntimeError("harness does not build even without hooks: " + blog2[-600:])
    else:
        dis, stats, sample = api_correspondence(chk, binp, 150 if thorough else 40)
        dis += enter_correspondence(chk, binp)
        chk.note("api_history_correspondence", stats)
        chk.add_eval(stats["steps"], stats["steps"])
        chk.sample({"api_history": [s[1] for s in sample]})
    fl, summary, crashed = e2e.run(chk, binp, "C05", 400 if thorough else 60, timeout=1500)
    chk.note("history_search", summary)
    chk.add_eval(summary.get("evaluations", 0), summary.get("nontrivial", 0))
    if crashed:
        fails.append({"kind": "search-crashed", "detail": crashed})
    for f in fl:
        f["req"] = f["req"][:600]
        fails.append(f)
    chk.sample({"history_search_summary": summary})
    chk.note("correspondence_disagreements", len(dis))
    for f in fails[:3]:
        chk.violation(f["kind"], f)
    if not fails and (broken or dis):
        chk.violation("tie-or-proof-broken", {"broken": broken, "disagreements": dis[:8],
                      "note": "Props/C05.v (incl. the enter/leave shape and the audit of global state) or the API-history correspondence no longer checks; the history/thread search found no differing result"},
                      no_input=True)
    chk.cov["trusted_base"] = C.DEFAULT_TRUSTED_BASE + ["hook: verif::buffer::{unicode_state, glyph_state}", "rustc's Send/Sync checking (data-race freedom of safe Rust)"]
    chk.assumptions = C.DEFAULT_ASSUMPTIONS + ["the shaping core reads only the observable request and the per-call budgets (frame checked by the history search, not proved)",
                                                "real interleavings are sampled (8 threads), not enumerated"]


def replay(chk, path):
    body = json.load(open(path))
    print(json.dumps(body, indent=1)[:3000])
    return 0
