"""C06 — GSUB lookups are applied as the OpenType substitution model prescribes.
Proof: Props/C06.v over Model/{Skip,OtMap,Gsub,GsubPipe}.v (declarative characterisations of single / multiple /
alternate / ligature lookups, ligature cluster = min, stage order of the compiled plan, totality without
nesting, contextual lookups without nested records are the identity on glyph ids and clusters).
Tie: rustybuzz::shape on generated fonts (harness/src/c06.rs, fontgen) against the Gallina interpreter
(Corr/GsubC.v) on the same FontSpec (printed as a Coq term) and request: glyph ids, clusters, glyph flags.
Search: the same comparison, plus independent Rust oracles for restricted fonts (single = map, ligature =
greedy first rule with min cluster, multiple = flat_map, alternate = value k, stage ordering)."""
import base64
import json
import os
import re

import common as C

LEVEL = "proof"

HDR = ("From Coq Require Import List NArith ZArith Bool.\n"
       "From RB Require Import Model.Font Model.OtMap Model.GsubPipe Corr.Common Corr.GsubC.\n"
       "Import ListNotations.\nLocal Open Scope N_scope.\n")

CODE_NAMES = {0: "agree", 1: "glyphs-or-clusters-differ", 2: "flags-differ", 3: "model-unspecified(buffer limit)",
              4: "model-error-impl-ok", 5: "unmapped", 6: "impl-panic", 7: "both-panic"}

CORPUS_FILE = os.path.join(C.CORPUS, "C06-move-to-rewind.json")


# ------------------------------------------------------------------ parsing harness output

class Font:
    def __init__(self, k):
        self.k = k
        self.coq = ""
        self.kinds = []
        self.dbg = None
        self.b64 = None
        self.reqs = []      # dict(j, req, ufs, out, fired)
        self.variant = None


def parse_gen(out):
    fonts = []
    cur = None
    pending_variant = None
    for line in out.splitlines():
        if line.startswith("variant "):
            pending_variant = line[8:].strip()
            continue
        if line.startswith("font "):
            cur = Font(int(line.split()[1]))
            cur.variant = pending_variant
            pending_variant = None
            fonts.append(cur)
        elif cur is None:
            continue
        elif line.startswith("coq "):
            cur.coq = line[4:]
        elif line.startswith("kinds "):
            cur.kinds = [x for x in line[6:].strip().split(",") if x]
        elif line.startswith("dbg "):
            cur.dbg = line[4:]
        elif line.startswith("b64 "):
            cur.b64 = line[4:].strip()
        elif line.startswith("req "):
            p = line.split(" ", 2)
            cur.reqs.append({"j": int(p[1]), "req": p[2], "ufs": [], "out": None, "fired": []})
        elif line.startswith("uf "):
            p = line.split()
            cur.reqs[-1]["ufs"].append([int(x) for x in p[2:6]])
        elif line.startswith("out "):
            p = line.split(" ", 2)
            cur.reqs[-1]["out"] = p[2] if len(p) > 2 else ""
        elif line.startswith("fired "):
            p = line.split(" ", 2)
            cur.reqs[-1]["fired"] = [int(x) for x in (p[2] if len(p) > 2 else "").split(",") if x]
    return fonts


def req_fields(req):
    d = {}
    for tok in req.split():
        if "=" in tok:
            k, v = tok.split("=", 1)
            d[k] = v
    return d


def coq_request(r):
    d = req_fields(r["req"])
    text = []
    for it in d.get("text", "").split(","):
        if it:
            c, k = it.split(":")
            text.append("(%d, %d)" % (int(c, 16), int(k)))
    rtl = "true" if d.get("dir") == "rtl" else "false"
    ufs = "; ".join("mkUF %d %d %d %d" % tuple(u) for u in r["ufs"])
    return "(mkReq [%s] %s %d %d [%s])" % ("; ".join(text), rtl, int(d.get("level", 0)), int(d.get("flags", 0)), ufs)


def coq_obs(out):
    if out is None or out.startswith("panic"):
        return "None"
    gs = []
    for it in out.split("|"):
        if not it:
            continue
        m = re.match(r"(\d+)=(\d+)#(\d+)", it)
        gs.append("(%s, %s, %s)" % m.groups())
    return "(Some [%s])" % "; ".join(gs)


def cases_file(fonts):
    """One Definition per font + its cases; Eval prints one list of codes per font."""
    body = HDR
    for i, f in enumerate(fonts):
        body += "Definition f%d : font := %s.\n" % (i, f.coq.replace("%N", "").replace("%Z", "%Z"))
        items = ["(%s, %s)" % (coq_request(r), coq_obs(r["out"])) for r in f.reqs]
        body += "Definition c%d : list gcase := [%s].\n" % (i, ";\n ".join(items))
        body += "Eval vm_compute in (check_font f%d c%d).\n" % (i, i)
    return body


def evaluate(fonts, tag, per_file=18):
    """Returns {(font position, req position): code}; machinery failures as a list."""
    jobs = []
    groups = []
    for i in range(0, len(fonts), per_file):
        grp = fonts[i:i + per_file]
        groups.append(grp)
        jobs.append(("c06_%s_%d" % (tag, i // per_file), cases_file(grp)))
    res = C.coq_eval_many(jobs)
    codes = {}
    broken = []
    for gi, (name, _) in enumerate(jobs):
        out = res[name]
        if isinstance(out, Exception):
            broken.append({"file": name, "error": str(out)[-1500:]})
            continue
        lists = C.parse_eval_lists(out)
        if len(lists) != len(groups[gi]):
            broken.append({"file": name, "error": "expected %d answers, got %d" % (len(groups[gi]), len(lists))})
            continue
        for fi, lst in enumerate(lists):
            f = groups[gi][fi]
            if len(lst) != len(f.reqs):
                broken.append({"file": name, "error": "font %d: %d codes for %d requests" % (f.k, len(lst), len(f.reqs))})
                continue
            for ri, code in enumerate(lst):
                codes[(gi * per_file + fi, ri)] = code
    return codes, broken


def model_output(font_coq, r):
    body = HDR + "Definition f0 : font := %s.\n" % font_coq.replace("%N", "")
    body += "Eval vm_compute in (model_glyphs f0 %s).\n" % coq_request(r)
    try:
        out = C.coq_eval("c06_model_%d" % os.getpid(), body)
        l = C.parse_eval_lists(out)
        return l[0] if l else None
    except Exception as ex:  # noqa
        return "coq failed: " + str(ex)[-300:]


# ------------------------------------------------------------------ shrinking

def _fails(binp, seed, texts, k, j, ops):
    """Does the (font k, request j) case with shrink ops still disagree?  Returns the Font or None."""
    f = dump_case(binp, seed, texts, k, j, ops)
    if f is None or not f.reqs:
        return None
    codes, _ = evaluate([f], "shrinkchk")
    return f if codes.get((0, 0)) in (1, 2, 4, 6, 7) else None


def shrink(chk, binp, seed, texts, k, j, rounds=10, budget_s=75):
    """Greedy deletion while model and implementation still disagree: every round evaluates all one-step
    candidates (one coqc batch), then tries to apply all individually failing deletions of one kind at once
    (lookups first, then subtables/rules, then characters), falling back to the first one."""
    import time
    t0 = time.time()
    ops = ""
    for _ in range(rounds):
        if time.time() - t0 > budget_s:
            break
        args = ["c06", "variants", "--seed", seed, "--texts", texts, "--only", k, "--text", j]
        if ops:
            args += ["--ops", ops]
        rc, out, err = C.run_rbv(binp, args)
        cands = [c for c in parse_gen(out) if c.reqs]
        if not cands:
            break
        codes, broken = evaluate(cands, "shrink", per_file=max(1, (len(cands) + C.NPROC - 1) // C.NPROC))
        good = [c.variant.split(",")[-1] for ci, c in enumerate(cands) if codes.get((ci, 0)) in (1, 2, 4, 6, 7)]
        if not good:
            break
        accepted = None
        for prefix in ("dl", "ds", "dr", "dc", "df"):
            grp = [o for o in good if o.startswith(prefix + ":")]
            if len(grp) > 1:
                # descending indices so that earlier deletions do not shift later ones
                grp.sort(key=lambda o: [-int(x) for x in o.split(":")[1:]])
                trial = ",".join(([ops] if ops else []) + grp)
                if _fails(binp, seed, texts, k, j, trial):
                    accepted = trial
                    break
            if grp:
                accepted = ",".join(([ops] if ops else []) + [grp[0]])
                break
        if accepted is None:
            accepted = ",".join(([ops] if ops else []) + [good[0]])
        ops = accepted
    return ops, None


def dump_case(binp, seed, texts, k, j, ops):
    args = ["c06", "gen", "--seed", seed, "--texts", texts, "--only", k, "--text", j, "--dump", "--nofired"]
    if ops:
        args += ["--ops", ops]
    rc, out, err = C.run_rbv(binp, args)
    fs = parse_gen(out)
    return fs[0] if fs else None


def replay_payload(f, r, code, extra=None):
    p = {"font_debug": f.dbg, "font_b64": f.b64, "font_coq": f.coq, "lookup_kinds": f.kinds,
         "request": r["req"], "user_features": r["ufs"], "observed": r["out"],
         "model": model_output(f.coq, r), "model_format": "flat [gid; cluster; flags; ...]",
         "disagreement": CODE_NAMES.get(code, str(code))}
    if extra:
        p.update(extra)
    return p


# ------------------------------------------------------------------ the run

def corpus_cases(binp):
    rc, out, err = C.run_rbv(binp, ["c06", "corpus"])
    fails = [l for l in out.splitlines() if l.startswith("oracle-fail")]
    return parse_gen(out), fails


def run(chk):
    thorough = chk.tier == "thorough"
    chk.cov["rule"] = ("public-API correspondence: rustybuzz::shape vs the Gallina GSUB interpreter on generated fonts (all GSUB "
                       "lookup types and formats, random GDEF/flags/features/scripts) and requests (clusters, levels, directions, user "
                       "features with values and ranges); compared: glyph ids, clusters, glyph flags. non-trivial = a request in which "
                       "at least one lookup changed the glyph string (removing that lookup changes the implementation's output); "
                       "independent Rust oracles: non-trivial = the substitution changed the string")
    pr = chk.prove(extra_targets=["Corr/GsubC.vo"])
    broken = []
    if chk.guards_failed:
        broken += ["translator-guard:%s (%s)" % g for g in chk.guards_failed if "gsub" in g[0].lower() or "c06" in g[0].lower()]
    if not pr["ok"]:
        broken += ["proof:" + f for f in pr["failed"]]
    ok, binp, blog = C.cargo_build("release", hooks=True)
    if not ok:
        chk.violation("tie-or-proof-broken", {"broken": broken + ["harness-build-failed: " + blog[-800:]]}, no_input=True)
        return
    seed = chk.seed
    texts = 8
    nfonts = 15000 if thorough else 1200
    violations = 0
    # ---- corpus first
    cfonts, cfails = corpus_cases(binp)
    for l in cfails:
        chk.violation("corpus-regression", {"what": l[:2000], "replay_corpus": CORPUS_FILE})
        violations += 1
    ccodes, cbroken = evaluate(cfonts, "corpus")
    for (fi, ri), code in sorted(ccodes.items()):
        if code != 0:
            chk.violation("corpus-disagreement", replay_payload(cfonts[fi], cfonts[fi].reqs[ri], code))
            violations += 1
    broken += ["corpus-cases:" + json.dumps(b) for b in cbroken]
    # ---- generated fonts
    rc, out, err = C.run_rbv(binp, ["c06", "gen", "--seed", seed, "--fonts", nfonts, "--texts", texts], timeout=1200)
    if rc != 0:
        broken.append("rbv c06 gen failed: " + err[-500:])
    fonts = parse_gen(out)
    codes, gbroken = evaluate(fonts, "gen")
    broken += ["cases:" + json.dumps(b) for b in gbroken[:3]]
    hist = {}
    fired_kind = {}
    kinds_present = {}
    nshapes = 0
    nontrivial = 0
    dis = []
    levels = {}
    dirs = {}
    for fi, f in enumerate(fonts):
        for k in f.kinds:
            kinds_present[k] = kinds_present.get(k, 0) + 1
        for ri, r in enumerate(f.reqs):
            nshapes += 1
            code = codes.get((fi, ri), -1)
            hist[code] = hist.get(code, 0) + 1
            if r["fired"]:
                nontrivial += 1
            for li in r["fired"]:
                kd = f.kinds[li] if li < len(f.kinds) else "?"
                fired_kind[kd] = fired_kind.get(kd, 0) + 1
            d = req_fields(r["req"])
            levels[d.get("level")] = levels.get(d.get("level"), 0) + 1
            dirs[d.get("dir")] = dirs.get(d.get("dir"), 0) + 1
            if code in (1, 2, 4, 6, 7):
                dis.append((fi, ri, code))
    chk.add_eval(nshapes, nontrivial)
    chk.note("shapes", nshapes)
    chk.note("fonts", len(fonts))
    chk.note("result_codes", {CODE_NAMES.get(k, str(k)): v for k, v in sorted(hist.items())})
    chk.note("lookup_kind_fired(shapes in which removing a lookup of that kind changes the output)", fired_kind)
    chk.note("lookup_kinds_generated", kinds_present)
    chk.note("cluster_levels", levels)
    chk.note("directions", dirs)
    if fonts and fonts[0].reqs:
        chk.sample({"request": fonts[0].reqs[0]["req"], "observed": fonts[0].reqs[0]["out"], "kinds": fonts[0].kinds})
    # the model must be defined on (almost) the whole generated domain
    undefined = hist.get(3, 0) + hist.get(5, 0) + hist.get(-1, 0)
    if nshapes and undefined * 20 > nshapes:
        broken.append("model undefined (buffer limit / unmapped / no answer) on %d of %d shapes" % (undefined, nshapes))
    # ---- disagreements: shrink the first few, report each as a violation with a replay
    for n_dis, (fi, ri, code) in enumerate(dis[:3]):
        f = fonts[fi]
        ops = shrink(chk, binp, seed, texts, f.k, ri)[0] if n_dis < 2 else ""
        df = dump_case(binp, seed, texts, f.k, ri, ops)
        if df is None or not df.reqs:
            df = dump_case(binp, seed, texts, f.k, ri, "")
        r = df.reqs[0]
        payload = replay_payload(df, r, code, {"generator": {"seed": seed, "texts": texts, "font": f.k, "request": ri, "shrink_ops": ops},
                                                "note": "model (OpenType substitution model, Model/Gsub.v) and rustybuzz::shape disagree on this font and request"})
        chk.violation("implementation-panic" if code in (6, 7) else "model-vs-implementation", payload)
        violations += 1
    chk.note("correspondence_disagreements", len(dis))
    # ---- independent oracles
    rc, out, err = C.run_rbv(binp, ["c06", "oracle", "--seed", seed, "--n", 6000 if thorough else 1500])
    ofails = [l for l in out.splitlines() if l.startswith("oracle-fail")]
    m = re.search(r"oracle-summary evaluations=(\d+) nontrivial=(\d+) bad=(\d+)", out)
    if m:
        chk.add_eval(int(m.group(1)), int(m.group(2)))
        chk.note("oracle", {"evaluations": int(m.group(1)), "nontrivial": int(m.group(2)), "bad": int(m.group(3))})
    else:
        broken.append("oracle run produced no summary: " + err[-300:])
    for l in ofails[:3]:
        mm = re.match(r"oracle-fail (\S+) want=(.*?) got=(.*?) req=\[(.*?)\] b64=(\S+) dbg=(.*)", l)
        if mm:
            chk.violation("oracle-" + mm.group(1), {"oracle": mm.group(1), "expected": mm.group(2), "observed": mm.group(3),
                                                   "request": mm.group(4), "font_b64": mm.group(5), "font_debug": mm.group(6)})
        else:
            chk.violation("oracle", {"line": l[:3000]})
        violations += 1
    # ---- verdict for a broken proof / tie without failing input
    if broken and not violations:
        chk.violation("tie-or-proof-broken", {"broken": broken,
                      "note": "theorems of Props/C06.v or the correspondence machinery no longer check; no failing font/text was found"},
                      no_input=True)
    chk.note("theorem_scope", {
        "proved_for_all_inputs": ["C06_single", "C06_alternate (not the rand feature)", "C06_ligature_cluster_min (ligate_input, levels 0/1)",
                                  "C06_stage_order / _is_sort_dedup / _indices / _masks_ored", "C06_no_nested_is_identity", "C06_nesting_bound"],
        "partial": {"C06_multiple_partial": "sequences of length >= 1 (deletion by an empty sequence only by correspondence + oracle)",
                    "C06_total_partial": "contextual/chained lookups without nested records (single/alternate/multiple(no deletion) return Ok by their "
                                         "theorems); ligature, deletion and nested lookups only by correspondence (an OutOfFuel outcome counts as model error)"},
        "not_proved": ["C06_ligature (greedy first match as a declarative statement): only the cluster-min part; covered by oracle (ii) and correspondence",
                       "C06_reverse_chain declarative statement: correspondence only"]})
    chk.cov["trusted_base"] = C.DEFAULT_TRUSTED_BASE + [
        "harness fontgen (sfnt writer) and its Coq printer: the same FontSpec reaches ttf-parser as bytes and the model as a term",
        "ttf-parser (font parsing) is exercised, not modelled"]
    chk.assumptions = C.DEFAULT_ASSUMPTIONS + [
        "domain: default shaper (no script), private-use characters mapped 1:1, direction LTR/RTL, no GPOS/kern/morx tables, "
        "no feature variations, no 'rand' feature; set-digest prefilters are not modelled (C10)"]


def replay(chk, path):
    body = json.load(open(path))
    ok, binp, _ = C.cargo_build("release", hooks=True)
    if not ok:
        print("harness build failed")
        return 1
    if "font_b64" not in body:
        print(json.dumps(body, indent=1)[:4000])
        print("replay has no font: nothing to re-run")
        return 1
    rc, out, err = C.run_rbv(binp, ["c06", "shape-b64", "--req", body["request"]], stdin=body["font_b64"])
    ufs = [[int(x) for x in l.split()[2:6]] for l in out.splitlines() if l.startswith("uf ")]
    obs = None
    for l in out.splitlines():
        if l.startswith("out 0"):
            obs = l.split(" ", 2)[2] if len(l.split(" ", 2)) > 2 else ""
    print("request :", body["request"])
    print("observed:", obs)
    if body.get("expected"):
        print("expected:", body["expected"])
        exp = re.findall(r"\((\d+), (\d+)\)", body["expected"])
        got = re.findall(r"(\d+)=(\d+)#", obs or "")
        bad = exp != got if body.get("oracle") not in ("multiple-flat-map",) else [e[0] for e in exp] != [g[0] for g in got]
        print("STILL FAILING" if bad else "now agrees")
        return 1 if bad else 0
    if body.get("font_coq"):
        f = Font(0)
        f.coq = body["font_coq"]
        f.reqs = [{"j": 0, "req": body["request"], "ufs": ufs, "out": obs, "fired": []}]
        codes, broken = evaluate([f], "replay")
        code = codes.get((0, 0), -1)
        print("model   :", model_output(f.coq, f.reqs[0]))
        print("verdict :", CODE_NAMES.get(code, "no answer %r" % (broken,)))
        return 0 if code == 0 else 1
    return 1
