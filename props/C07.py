"""C07 — GPOS/kern geometry: attached anchors coincide; adjustments equal the font's values.
Proof: Props/C07.v over Model/{Gpos,Attach,Kern,PosPipe}.v (value records, pair selection, kern split and
on/off, mark attachment and cursive attachment in pen coordinates, attachment depth <= 64).
Tie: the whole model pipeline (cmap -> restricted GSUB ligatures -> position_default -> GPOS -> kern ->
mark zeroing -> attachment propagation -> final reverse) is evaluated by coqc/vm_compute on the same
generated fonts (fontgen, printed as Coq terms) and requests that rustybuzz::shape gets through the
public API: glyph ids, clusters and the four position fields must agree.
Search: an implementation-level geometric predicate written against the font's own anchors / value
records / kern pairs (Rust, harness/src/c07.rs `geo`), independent of the Gallina model; kern on/off on
the repository's kern fonts; a deep cursive chain in a child process (stack overflow = violation)."""
import base64
import json
import os
import re
import subprocess

import common as C

LEVEL = "proof"

HDR = ("From Coq Require Import List NArith ZArith Bool.\n"
       "From RB Require Import Base.Result Model.Buffer Model.Font Model.Gpos Model.Attach Model.Kern Model.PosPipe Corr.Common Corr.GposC.\n"
       "Import ListNotations.\n")

XSTREAM_SHARD = 999999   # shard key of the known-finding probe (its font indices are >= 1000000)
XSTREAM_BASE = 1000000
LIGLIG_SHARD = 1999999
LIGLIG_BASE = 2000000
KNOWN_XSTREAM = "kern_cross_stream_resets_attachments"
KNOWN_VF2 = "pairpos_second_glyph_by_value_not_format"

DIRS = {"ltr": "LTR", "rtl": "RTL", "ttb": "TTB", "btt": "BTT"}
HOR = {"-": "None", "Phnx": "(Some RTL)", "Latn": "(Some LTR)"}


def tagn(t):
    b = t.encode()
    return (b[0] << 24) | (b[1] << 16) | (b[2] << 8) | b[3]


def feat_coq(f):
    """harfbuzz feature syntax (global on/off only) -> (tag, bool)"""
    m = re.match(r"^([+-]?)([A-Za-z0-9 ]{4})(?:=(\d+))?$", f)
    if not m:
        raise ValueError("feature outside the modelled syntax: " + f)
    on = m.group(1) != "-"
    if m.group(3) is not None:
        on = int(m.group(3)) != 0
    return "(%d%%N, %s)" % (tagn(m.group(2)), "true" if on else "false")


def parse_kv(s):
    return dict(tok.split("=", 1) for tok in s.split() if "=" in tok)


def req_coq(reqs):
    kv = parse_kv(reqs)
    text = []
    for it in kv["text"].split(","):
        if not it:
            continue
        c, k = it.split(":")
        text.append("(%d%%N, %d%%N)" % (int(c, 16), int(k)))
    feats = [] if kv["feats"] == "-" else [feat_coq(f) for f in kv["feats"].split(";")]
    return "(mkReq [%s] %s %s [%s])" % ("; ".join(text), DIRS[kv["dir"]], HOR[kv["script"]], "; ".join(feats))


def glyphs_coq(gs):
    if gs.startswith("panic"):
        return "None"
    out = []
    if gs.strip():
        for g in gs.split("|"):
            m = re.match(r"(\d+)=(\d+)#(\d+)\+(-?\d+),(-?\d+)@(-?\d+),(-?\d+)$", g)
            gid, cl, _fl, xa, ya, xo, yo = m.groups()
            out.append("mkOut %s%%N %s%%N (%s)%%Z (%s)%%Z (%s)%%Z (%s)%%Z" % (gid, cl, xa, ya, xo, yo))
    return "(Some [%s])" % "; ".join(out)


def run_cases(binp, seed, first, n, cmd="cases"):
    rc, out, err = C.run_rbv(binp, ["c07", cmd, "--seed", seed, "--first", first, "--n", n], timeout=600)
    if rc != 0:
        raise RuntimeError("rbv c07 cases failed rc=%d: %s" % (rc, err[-800:]))
    fonts = {}
    cases = []
    geos = []
    stats = {}
    anomalies = []
    for line in out.splitlines():
        if line.startswith("font "):
            m = re.match(r"font (\d+) profile=(\w+) coq=(.*)$", line)
            fonts[int(m.group(1))] = (m.group(2), m.group(3))
        elif line.startswith("case "):
            m = re.match(r"case (\d+) (\d+) (.*) -> (.*)$", line)
            cases.append((int(m.group(1)), int(m.group(2)), m.group(3), m.group(4)))
        elif line.startswith("geo "):
            geos.append(line)
        elif line.startswith("stat "):
            _, k, v = line.split()
            stats[k] = stats.get(k, 0) + int(v)
        elif line.strip():
            anomalies.append(line)
    return fonts, cases, geos, stats, anomalies


def correspondence(chk, binp, nfonts, shard_fonts=12):
    """Model vs implementation on generated fonts. Returns (disagreements, geo failures, stats)."""
    seed = chk.seed
    jobs = []
    index = {}
    all_geo = []
    stats = {}
    anomalies = []
    total_cases = 0
    # the harness is fast; run it in a few chunks so that fonts/cases stay associated with a shard
    shards = [("cases", first, min(shard_fonts, nfonts - first)) for first in range(0, nfonts, shard_fonts)]
    shards.append(("xstream", XSTREAM_SHARD, 6))   # known-finding probe: Marks fonts + cross-stream kern subtable
    # ligatures built from ligatures with marks on every component (the model's ligate_input keeps HarfBuzz's full
    # component bookkeeping): model correspondence AND geometric predicate
    shards.append(("liglig", LIGLIG_SHARD, max(6, nfonts // 4)))
    for cmd, first, n in shards:
        fonts, cases, geos, st, an = run_cases(binp, seed, first, n, cmd)
        if cmd == "xstream":
            st = {"xstream." + k: v for k, v in st.items()}
        if cmd == "liglig":
            st = {"liglig." + k: v for k, v in st.items()}
        all_geo += geos
        anomalies += an
        for k, v in st.items():
            stats[k] = stats.get(k, 0) + v
        body = HDR
        for k, (_, term) in sorted(fonts.items()):
            body += "Definition f%d : font := %s.\n" % (k, term)
        items = []
        for (fk, ci, reqs, gs) in cases:
            try:
                items.append("(f%d, %s, %s)" % (fk, req_coq(reqs), glyphs_coq(gs)))
            except Exception as ex:  # a request the translation cannot express: reported, never dropped silently
                anomalies.append("untranslatable case %d %d: %s" % (fk, ci, ex))
                continue
            index.setdefault(first, []).append((fk, ci, reqs, gs))
        chunks = [items[i:i + 150] for i in range(0, len(items), 150)]
        for ci, ch in enumerate(chunks):
            body += "Definition cases%d : list gpos_case := [\n%s].\n" % (ci, ";\n".join(ch))
        body += "Definition cases := %s.\n" % (" ++ ".join("cases%d" % i for i in range(len(chunks))) or "@nil gpos_case")
        body += "Eval vm_compute in (failing check_case cases).\n"
        jobs.append(("c07_corr_%d" % first, body))
        total_cases += len(items)
    res = C.coq_eval_many(jobs)
    dis = []
    for name, out in sorted(res.items()):
        first = int(name.rsplit("_", 1)[1])
        if isinstance(out, Exception):
            dis.append({"what": "cases-file-failed", "file": name, "error": str(out)[-1500:]})
            continue
        lists = C.parse_eval_lists(out)
        if not lists:
            dis.append({"what": "no-answer", "file": name})
            continue
        for idx in lists[0]:
            fk, ci, reqs, gs = index[first][idx]
            dis.append({"what": "model-differs", "font_index": fk, "case": ci, "request": reqs, "implementation": gs})
    chk.add_eval(total_cases, total_cases)
    return dis, all_geo, stats, anomalies


def font_payload(binp, seed, index):
    rc, out, err = C.run_rbv(binp, ["c07", "font", "--seed", seed, "--index", index])
    d = {}
    for line in out.splitlines():
        k, _, v = line.partition(" ")
        d[k] = v
    return {"font_seed": seed, "font_index": index, "font_profile": d.get("profile"),
            "font_spec_debug": d.get("debug"), "font_coq": d.get("coq"),
            "font_base64": base64.b64encode(bytes.fromhex(d.get("hex", ""))).decode()}


def model_answer(payload, reqs, gs):
    body = HDR + "Definition f : font := %s.\n" % payload["font_coq"]
    body += "Eval vm_compute in (model_answer (f, %s, %s)).\n" % (req_coq(reqs), glyphs_coq(gs))
    try:
        out = C.coq_eval("c07_answer_%d" % os.getpid(), body, timeout=120)
        return " ".join(C.parse_eval_values(out)[:1])[:3000]
    except Exception as ex:  # noqa
        return "model evaluation failed: " + str(ex)[-300:]


def deep_chain(chk, binp, n):
    """Cursive chain with the RightToLeft lookup flag (child precedes parent) in a child process."""
    res = {}
    for flag in (0, 1):
        try:
            p = subprocess.run([binp, "c07", "deep-chain", "--n", str(n), "--rtl-flag", str(flag)], capture_output=True, text=True, timeout=300)
            rc, out = p.returncode, p.stdout
        except subprocess.TimeoutExpired:
            rc, out = 124, ""
        res[flag] = (rc, out.strip())
    return res


def run(chk):
    thorough = chk.tier == "thorough"
    chk.cov["rule"] = ("public-API correspondence on generated fonts (5 profiles: single/pair adjustments, legacy kern, cursive, "
                       "mark-base/lig/mark with GSUB ligatures, mixed) x random PUA texts x 4 directions x kerning on/off x "
                       "feature switches x script {none, Phnx (native RTL), Latn}: every case is evaluated by the Coq model under "
                       "vm_compute and compared on glyph ids, clusters, advances and offsets; non-trivial = every case (all have "
                       "positions to compare). Geometric predicate counts are reported separately (geo.*)")
    pr = chk.prove(extra_targets=["Corr/GposC.vo"])
    broken = []
    # only the guards of this property's extractor (translator/tr_gpos.py) concern C07
    broken += ["translator-guard:%s (%s)" % g for g in chk.guards_failed if str(g[0]).startswith("gpos:") or g[0] == "tr_gpos"]
    if not pr["ok"]:
        broken += ["proof:" + f for f in pr["failed"]]
    ok, binp, blog = C.cargo_build("release", hooks=True)
    dis, fails = [], []
    if not ok:
        broken.append("hook-build-failed: " + blog[-600:])
    else:
        cfails, stale = corpus_first(chk, binp)
        fails += cfails
        nfonts = 4000 if thorough else 240
        dis, geos, stats, anomalies = correspondence(chk, binp, nfonts)
        dis += stale
        chk.note("generator_stats", stats)
        chk.note("lookup_kinds_fired", {k[6:]: v for k, v in stats.items() if k.startswith("fired.")})
        chk.note("geometric_predicate", {k[4:]: v for k, v in stats.items() if k.startswith("geo.")})
        for a in anomalies[:5]:
            dis.append({"what": "harness-anomaly", "line": a[:500]})
        # ---- implementation-level geometric predicate failures
        xstream_hits = []
        for g in geos:
            m = re.match(r"geo (\d+) (\d+) (\S+) FAIL (.*?) req=\[(.*)\]$", g)
            if m:
                f = {"what": "geometry-" + m.group(3), "font_index": int(m.group(1)), "case": int(m.group(2)),
                     "detail": m.group(4), "request": m.group(5)}
                mc = re.match(r"chk=(\S+) ", m.group(4))
                if mc:
                    f["anchor_check"] = mc.group(1)
                if XSTREAM_BASE <= f["font_index"] < LIGLIG_BASE and m.group(3) in ("markbase", "marklig", "markmark"):
                    f["class"] = KNOWN_XSTREAM
                    f["what"] = "geometry-" + m.group(3) + "-under-cross-stream-kern"
                    xstream_hits.append(f)
                else:
                    fails.append(f)
        # ---- the known-finding class: cross-stream kern subtable + GPOS attachments
        chk.note("xstream_probe", {"mark_attachment_failures": len(xstream_hits),
                                   "attachments_checked": sum(v for k, v in stats.items() if k.startswith("xstream.geo.") and k.endswith(".attachments"))})
        if xstream_hits:
            if chk.is_known(KNOWN_XSTREAM):
                chk.known_finding(KNOWN_XSTREAM, "%d mark attachments displaced on Marks fonts with a cross-stream kern subtable (e.g. font %d: %s)" % (
                    len(xstream_hits), xstream_hits[0]["font_index"], xstream_hits[0]["detail"][:160]))
            else:
                fails += xstream_hits[:1]
        elif chk.is_known(KNOWN_XSTREAM):
            dis.append({"what": "stale-known-finding", "class": KNOWN_XSTREAM, "note": "the probe no longer fails; the KNOWN_FINDINGS entry is stale"})
        # ---- the known finding: second glyph of a pair consumed by the record's values instead of ValueFormat2
        rc, out, err = C.run_rbv(binp, ["c07", "vf2-probe"], timeout=60)
        m = re.search(r"^vf2 (\S+) (.*)$", out, re.M)
        chk.note("valueformat2_probe", m.group(0) if m else "no answer")
        if m and m.group(1) == "by-value":
            if chk.is_known(KNOWN_VF2):
                chk.known_finding(KNOWN_VF2, "PairPos format 1, ValueFormat2 = 0x000F with all-zero second records, text A B C: advances %s; "
                                  "OpenType/HarfBuzz consume B (550, 600, 600)" % m.group(2))
            else:
                fails.append({"what": "pair-second-glyph-not-consumed", "probe": m.group(0), "font": "c07 vf2-probe (PairPos1, valueFormat2=0x000F, zero second records)",
                              "request": "glyphs 1 2 3 ltr"})
        elif m and m.group(1) == "opentype":
            if chk.is_known(KNOWN_VF2):
                dis.append({"what": "stale-known-finding", "class": KNOWN_VF2, "note": "the probe now follows the value format; the KNOWN_FINDINGS entry is stale"})
        else:
            fails.append({"what": "pair-probe-unexpected", "probe": m.group(0) if m else (out + err)[-300:], "request": "glyphs 1 2 3 ltr"})
        # ---- marks behind the outputs of a MultipleSubst sequence, MarkToLigature and MarkToBase lookups in one feature
        rc, out, err = C.run_rbv(binp, ["c07", "multmark"], timeout=300)
        m = re.search(r"multmark-summary cases=(\d+) attached_marks=(\d+) bad=(\d+)", out)
        if m:
            chk.add_eval(int(m.group(1)), int(m.group(2)))
            chk.note("marks_behind_multiple_subst", {"cases": int(m.group(1)), "attached_marks": int(m.group(2)), "bad": int(m.group(3))})
        else:
            dis.append({"what": "multmark produced no summary", "stderr": err[-300:]})
        for line in out.splitlines():
            if line.startswith("multmark-fail"):
                fails.append({"what": "geometry-mark-behind-multiple-subst", "detail": line[:1500],
                              "request": line.split("req=[")[1].split("]")[0] if "req=[" in line else "",
                              "font": "c07 multmark (ccmp: x -> P Q; mark: MarkToLigature {M; L} and MarkToBase {M; P[, Q], b}, order and coverage in the line)"})
        # ---- kerx and GPOS in one font: which of the two positions the text
        rc, out, err = C.run_rbv(binp, ["c07", "kerx-probe"], timeout=120)
        m = re.search(r"kerx-probe-summary cases=(\d+) bad=(\d+)", out)
        if m:
            chk.add_eval(int(m.group(1)), int(m.group(1)))
            chk.note("kerx_and_gpos_probe", {"cases": int(m.group(1)), "bad": int(m.group(2))})
        else:
            dis.append({"what": "kerx-probe produced no summary", "stderr": err[-300:]})
        for line in out.splitlines():
            if line.startswith("kerx-probe-fail"):
                fails.append({"what": "positioning-source-differs", "detail": line[:800], "request": "glyphs 1 2 1 ltr",
                              "font": "c07 kerx-probe (kerx format 0 pair (1,2) = -101, GPOS kern pair (1,2) = -300 on the first glyph, GDEF classifying .notdef only; with / without a GSUB)"})
        # ---- kern on/off on corpus fonts
        rc, out, err = C.run_rbv(binp, ["c07", "kernoff-corpus"], timeout=600)
        for line in out.splitlines():
            if line.startswith("kernoff-order-differs"):
                fails.append({"what": "kern-off-changes-glyph-order", "input": line})
            m = re.match(r"kernoff-corpus-summary shapes=(\d+) nontrivial=(\d+)", line)
            if m:
                chk.add_eval(int(m.group(1)), int(m.group(2)))
                chk.note("kern_on_off_corpus", {"shapes": int(m.group(1)), "kerning_changed_positions": int(m.group(2))})
        if rc != 0:
            fails.append({"what": "kernoff-corpus-crashed", "stderr": err[-400:]})
        # ---- attachment chain depth (child process)
        n = 200000
        dc = deep_chain(chk, binp, n)
        chk.note("deep_chain", {str(k): v for k, v in dc.items()})
        for flag, (rc, out) in dc.items():
            chk.add_eval(1, 1)
            if rc != 0 or not out.startswith("deep-chain ok"):
                fails.append({"what": "attachment-chain-aborts", "rtl_flag": flag, "glyphs": n, "exit_code": rc,
                              "font": "FontSpec::basic(4) + GPOS curs: Cursive{coverage [1], entry (0,0), exit (100,10)}, lookup flag RightToLeft=%d" % flag,
                              "text": "U+E000 x %d, LTR" % n,
                              "replay_cmd": "rbv c07 deep-chain --n %d --rtl-flag %d" % (n, flag),
                              "note": "propagate_attachment_offsets recursed once per glyph of the chain (no nesting bound): stack overflow"})
    chk.note("correspondence_disagreements", len(dis))
    chk.note("failures_by_kind", {})
    # ---- verdict
    per_kind = {}
    for f in fails:
        k = f["what"]
        per_kind[k] = per_kind.get(k, 0) + 1
        if per_kind[k] > 2:        # two replays per kind of failure are enough
            continue
        if "font_index" in f:
            f.update(font_payload(binp, chk.seed, f["font_index"]))
        chk.violation(f["what"], f)
    chk.note("failures_by_kind", per_kind)
    if not fails and dis:
        # model and implementation disagree: the disagreeing case is the concrete input
        shown = 0
        for d in dis:
            if d["what"] != "model-differs" or shown >= 3:
                continue
            shown += 1
            p = font_payload(binp, chk.seed, d["font_index"])
            d = dict(d)
            d.update(p)
            d["model"] = model_answer(p, d["request"], d["implementation"])
            d["note"] = ("the executable model of the positioning pipeline (the object of the C07 theorems) and rustybuzz::shape "
                         "disagree on this font and request")
            chk.violation("model-differs", d)
        if shown == 0:
            chk.violation("tie-broken", {"broken": broken, "disagreements": dis[:10]}, no_input=True)
    elif not fails and broken:
        chk.violation("tie-or-proof-broken", {"broken": broken,
                      "note": "theorems of Props/C07.v no longer check; correspondence and the geometric search found no failing input"}, no_input=True)
    chk.note("model_domain", [
        "default shaper (script unset, Phnx or Latn), PUA text (gc=Co: no marks by Unicode, no ignorables, no mirroring), cluster level 0",
        "global on/off user features; lookups found through the DFLT script's default LangSys",
        "GSUB restricted to ligature lookups applied to fresh glyphs (produces the lig ids/components mark-to-ligature reads)",
        "GPOS lookup types 1-6 (single 1/2, pair 1/2, cursive, mark-base, mark-ligature, mark-mark) with all lookup flags and mark filtering sets; "
        "legacy kern format 0 (horizontal/vertical, cross-stream) incl. its interplay with GPOS",
        "not modelled: context / chained-context positioning (types 7, 8), device/variation deltas, kerx, state-machine kern, trak, fallback mark positioning",
        "fonts with a cross-stream kern subtable AND GPOS attachment lookups are generated only by the known-finding probe (class kern_cross_stream_resets_attachments)"])
    chk.note("partial", [
        "C07_cursive_{ltr,rtl,ttb}_partial: both axes proved for ONE connection on a buffer without earlier attachments (any positions i<j, any anchors, both "
        "RightToLeft settings); whole-lookup / re-rooted chains on the main axis are covered by correspondence + geometric predicate only (cross axis: "
        "C07_cursive_cross is general)",
        "C07_kern: horizontal, non cross-stream pair (vertical kern tables are never applied by the default shaper: no vkrn in the plan)",
        "model == code is checked on the generated cases of each run (correspondence), not proved"])
    chk.cov["trusted_base"] = C.DEFAULT_TRUSTED_BASE + [
        "harness/src/fontgen (sfnt writer + Coq printer): the same FontSpec reaches ttf-parser as bytes and the model as a term",
        "harness/src/c07.rs geo: spec-level reading of lookup flags / anchors used by the implementation-level predicate"]


def stored_check(chk, binp, body):
    """Re-run a replay body on its stored data only. Returns (still_failing, printed lines)."""
    lines = []
    if body.get("kind") == "attachment-chain-aborts":
        dc = deep_chain(chk, binp, int(body.get("glyphs", 200000)))
        lines.append("deep-chain: %s" % dc)
        return any(rc != 0 for rc, _ in dc.values()), lines
    if body.get("kind") == "kern-off-changes-glyph-order":
        rc, out, err = C.run_rbv(binp, ["c07", "kernoff-corpus"], timeout=600)
        bad = [l for l in out.splitlines() if l.startswith("kernoff-order-differs")]
        lines += ["STILL FAILING: " + l[:600] for l in bad[:5]]
        return bool(bad), lines
    if not body.get("font_base64"):
        return False, ["no stored font"]
    os.makedirs(os.path.join(C.BUILD, "scratch"), exist_ok=True)
    fp = os.path.join(C.BUILD, "scratch", "c07-replay-%d.ttf" % os.getpid())
    open(fp, "wb").write(base64.b64decode(body["font_base64"]))
    rc, out, err = C.run_rbv(binp, ["shape", "--font", fp, "--req", body["request"]])
    lines.append("from stored bytes: " + out.strip()[:1500])
    bad = out.startswith("panic")
    if body.get("anchor_check"):
        rc, out, err = C.run_rbv(binp, ["c07", "anchors", "--font", fp, "--req", body["request"], "--check", body["anchor_check"]])
        lines.append(out.strip()[:1500])
        bad = bad or " FAIL " in out or "panic" in out
    if "kern-off" in body.get("kind", ""):
        rc, out, err = C.run_rbv(binp, ["c07", "kernoff-bytes", "--font", fp, "--req", body["request"]])
        lines.append(out.strip()[:1500])
        bad = bad or " FAIL " in out or "panic" in out
    return bad, lines


def corpus_first(chk, binp):
    """corpus/C07-*.json: fixed defects must stay fixed, listed known findings must still reproduce."""
    fails, stale = [], []
    n = 0
    for fn in sorted(os.listdir(C.CORPUS)):
        if not (fn.startswith("C07-") and fn.endswith(".json")):
            continue
        body = json.load(open(os.path.join(C.CORPUS, fn)))
        bad, lines = stored_check(chk, binp, body)
        n += 1
        if body.get("class"):
            if bad and chk.is_known(body["class"]):
                chk.known_finding(body["class"], "corpus/%s still reproduces" % fn)
            elif bad:
                fails.append(dict(body, what="corpus-" + body["kind"], corpus_file=fn))
            else:
                stale.append({"what": "stale-known-finding", "corpus_file": fn})
        elif bad:
            fails.append(dict(body, what="regression-" + body["kind"], corpus_file=fn, output=lines))
    chk.add_eval(n, n)
    chk.note("corpus_replays", n)
    return fails, stale


def replay(chk, path):
    body = json.load(open(path))
    print(json.dumps({k: v for k, v in body.items() if k not in ("font_base64", "font_coq", "font_spec_debug")}, indent=1))
    ok, binp, _ = C.cargo_build("release", hooks=True)
    if not ok:
        print("harness does not build")
        return 1
    bad, lines = stored_check(chk, binp, body)
    for l in lines:
        print(l)
    if bad:
        print("STILL FAILING on the stored data")
        return 1
    if body.get("stored_bytes_only") or "font_index" not in body:
        return 0
    # regenerate the font from (seed, index) and compare with the model / re-evaluate the predicate
    seed = body.get("font_seed", body.get("seed", 1))
    p = font_payload(binp, seed, body["font_index"])
    if p["font_base64"] != body.get("font_base64"):
        print("note: the generator no longer produces the stored font; model comparison skipped")
        return 0
    rc, out, err = C.run_rbv(binp, ["c07", "one", "--seed", seed, "--index", body["font_index"], "--req", body["request"]])
    still = False
    for line in out.splitlines():
        if line.startswith("case "):
            print(line[:1500])
            impl = line.split(" -> ", 1)[1]
            print("model:", model_answer(p, body["request"], impl))
            jobs = HDR + "Definition f : font := %s.\nEval vm_compute in (failing check_case [(f, %s, %s)]).\n" % (
                p["font_coq"], req_coq(body["request"]), glyphs_coq(impl))
            try:
                l = C.parse_eval_lists(C.coq_eval("c07_replay_%d" % os.getpid(), jobs, timeout=120))
                if l and l[0]:
                    still = True
                    print("STILL FAILING: model and implementation disagree")
            except Exception as ex:  # noqa
                print("model evaluation failed:", str(ex)[-300:])
                still = True
        if line.startswith("geo ") and " FAIL " in line:
            still = True
            print("STILL FAILING:", line[:800])
    return 1 if still else 0
