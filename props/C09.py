"""C09 — normalization picks composed or decomposed forms according to font support (default shaper).
Proof: Props/C09.v over Model/Normalize.v with the crate's tables (Gen/NormTables.v, regenerated from
src/hb/unicode_norm.rs + unicode.rs on every run) and independent Unicode data (Gen/UnicodeSpec.v, from
CPython unicodedata): tables sorted / round-trip / agree with Unicode on the stable subset; a lone
decomposable character for EVERY font; round 2 is a stable sort by modified class; round 3 is canonical
composition restricted to mapped composites.
Tie: translator + hook correspondence (decompose on every scalar value, compose on all table / Unicode /
Hangul / random pairs, unicode props of every scalar value) + API shaping on generated cmap-only fonts
compared with the Coq model given the same repertoire.
Search: independent oracle (unicodedata: NFD, primary composites, D117 with blocking) on the
implementation's outputs: every decomposable character singly x font variants, all strings
starter + 0..k marks of mixed classes x font variants, canonically equivalent strings give equal glyphs."""
import itertools
import json
import os
import random
import re
import unicodedata as U

import common as C
from common import nlist

LEVEL = "proof"

HDR = ("From Coq Require Import List NArith Bool.\n"
       "From RB Require Import Gen.NormTables Gen.UnicodeSpec Model.Normalize Corr.Common Corr.NormalizeC.\n"
       "Import ListNotations.\nLocal Open Scope N_scope.\n")

S_BASE, S_COUNT = 0xAC00, 11172
# guards of translator/tr_norm.py (other properties' guards are their business)
OWN_GUARDS = {"ccc_enum", "decomposition_table_row", "decomposition_table", "composition_table_row", "composition_table",
              "hangul_constants", "modified_combining_class_table", "modified_combining_class_fn", "space_fallback",
              "max_combining_marks", "spec_decomposition", "spec_marks", "tr_norm"}
SPACE_FALLBACK = [0x20, 0xA0] + list(range(0x2000, 0x200B)) + [0x202F, 0x205F, 0x3000]

# ------------------------------------------------------------------ independent Unicode data (unicodedata)

DEC = {}
for _c in range(0x110000):
    _d = U.decomposition(chr(_c))
    if _d and not _d.startswith("<"):
        DEC[_c] = [int(x, 16) for x in _d.split()]
PRIMARY = {}
for _c, _v in DEC.items():
    if len(_v) == 2 and U.normalize("NFC", chr(_v[0]) + chr(_v[1])) == chr(_c):
        PRIMARY[(_v[0], _v[1])] = _c


def assigned(c):
    return U.category(chr(c)) != "Cn"


def nfd(cs):
    return [ord(x) for x in U.normalize("NFD", "".join(chr(c) for c in cs))]


def nfc(cs):
    return [ord(x) for x in U.normalize("NFC", "".join(chr(c) for c in cs))]


def is_hangul_syllable(c):
    return S_BASE <= c < S_BASE + S_COUNT


def first_level(c):
    """First-level canonical decomposition (Hangul: Unicode 3.12 via NFD/NFC of unicodedata)."""
    if c in DEC:
        return DEC[c]
    if is_hangul_syllable(c):
        d = nfd([c])
        if len(d) == 2:
            return d
        return [nfc(d[:2])[0], d[2]]
    return None


def levels(c):
    """Successive partial decompositions of c; the last one is the full canonical decomposition."""
    d = first_level(c)
    if d is None:
        return []
    tail = d[1:]
    return [d] + [l + tail for l in levels(d[0])]


def single_expected(c, has):
    """What a lone character must become: own glyph; else the shortest partial decomposition whose characters
    are all mapped; else space / U+2010 fallbacks; else .notdef."""
    if c in has:
        return [c]
    for l in levels(c):
        if all(x in has for x in l):
            return l
    if U.category(chr(c)) == "Zs" and c in SPACE_FALLBACK and 0x20 in has:
        return [0x20]
    if c == 0x2011 and 0x2010 in has:
        return [0x2010]
    return [0]


def d117(cs, has):
    """Canonical composition (D117) of starter + marks after canonical decomposition and reordering,
    taking a primary composite only when the font maps it. Requires: font maps every character of NFD."""
    s = nfd(cs)
    starter, pending = s[0], []
    for c in s[1:]:
        blocked = any(U.combining(chr(b)) == 0 or U.combining(chr(b)) >= U.combining(chr(c)) for b in pending)
        x = None if blocked else PRIMARY.get((starter, c))
        if x is not None and x in has:
            starter = x
        else:
            pending.append(c)
    return [starter] + pending


def closure(ns):
    """Every decomposable character whose full decomposition only uses characters of ns."""
    ns = set(ns)
    return {c for c in CLOSURE_KEYS if set(NFD_OF[c]) <= ns}


NFD_OF = {c: nfd([c]) for c in DEC}
CLOSURE_KEYS = sorted(DEC)

# ------------------------------------------------------------------ input pools

STARTERS = [0x61, 0x65, 0x6F, 0x75, 0x41, 0x4F, 0x3B1, 0x3C9, 0x3B9, 0x3B7, 0x438, 0x430, 0x443, 0x456,
            0xE9, 0xE4, 0x1EA1, 0x1A1, 0x1F00, 0x3AC, 0x439, 0x1EBF, 0x212B, 0x1E09]
MARKS = [0x300, 0x301, 0x302, 0x308, 0x304, 0x306, 0x323, 0x327, 0x328, 0x31B, 0x334, 0x345, 0x313, 0x342]
# one more mark for every generic canonical combining class that MARKS does not cover yet (classes the shaper does
# not remap: everything outside Hebrew 10-26, Arabic 27-36, Telugu 84/91, Thai 103/107, Lao 118/122, Tibetan 129-132):
# two marks of different classes must be reordered, and composed, exactly as canonical equivalence says
def _class_marks():
    have = {U.combining(chr(m)) for m in MARKS}
    remapped = set(range(10, 37)) | {84, 91, 103, 107, 118, 122, 129, 130, 132}
    out = {}
    for c in range(0x300, 0x20FF):
        k = U.combining(chr(c))
        if k and k not in have and k not in remapped and k not in out and U.category(chr(c)) == "Mn" and not U.decomposition(chr(c)):
            out[k] = c
    return [out[k] for k in sorted(out)]


# the four combining marks that have a canonical decomposition of their own (deprecated tone marks, Greek koronis and
# dialytika tonos): a mark the font maps may still have to be decomposed inside a base + marks cluster
CLASS_MARKS = _class_marks() + [0x340, 0x341, 0x343, 0x344]
# primary composites whose second character is a mark of combining class 0 (Bengali/Oriya/Tamil/... two-part vowels,
# Myanmar, Balinese ...): (first, second) pairs, from unicodedata
SS_PAIRS = sorted((a, b) for (a, b) in PRIMARY if U.combining(chr(b)) == 0 and U.category(chr(b)).startswith("M") and U.combining(chr(a)) == 0)[:48]
# marks whose class the shaper remaps (Hebrew, Arabic, Thai ...): model-vs-implementation only
REMAPPED_MARKS = [0x5B4, 0x5B8, 0x5BC, 0x64B, 0x651, 0xE38, 0xE48, 0xF71, 0xF72, 0xF39, 0x1A60]


def hx(cs):
    return " ".join("%X" % c for c in cs)


def shape_many(binp, cases):
    """cases: list of (rep, text). Returns list of outputs: list of (char, cluster) or None (panic)."""
    stdin = "".join("%s;%s\n" % (hx(sorted(r)), hx(t)) for r, t in cases)
    rc, out, err = C.run_rbv(binp, ["c09", "shape"], stdin=stdin, timeout=900)
    if rc != 0:
        raise RuntimeError("rbv c09 shape failed: " + err[-500:])
    res = []
    for line in out.splitlines():
        if not line.startswith("r"):
            continue
        body = line[1:].strip()
        if body.startswith("panic"):
            res.append(None)
        else:
            res.append([(int(a, 16), int(b)) for a, b in (x.split(":") for x in body.split())])
    if len(res) != len(cases):
        raise RuntimeError("rbv c09 shape: %d answers for %d cases" % (len(res), len(cases)))
    return res


def gen_singles(rng, thorough):
    """(kind, rep, text) for every decomposable character of the stable subset, singly, x font variants."""
    cases = []
    chars = sorted(DEC)
    hang = [S_BASE, S_BASE + 1, S_BASE + 27, S_BASE + 28, S_BASE + S_COUNT - 1, S_BASE + S_COUNT - 28]
    hang += [S_BASE + rng.randrange(S_COUNT) for _ in range(2000 if thorough else 150)]
    for c in chars + sorted(set(hang)):
        lv = levels(c)
        chain = set(x for l in lv for x in l)
        full = lv[-1]
        cases.append(("has-it", chain | {c}, [c]))
        cases.append(("lacks-it", chain, [c]))
        cases.append(("lacks-intermediates", set(full), [c]))
        cases.append(("lacks-a-part", chain - {full[-1]}, [c]))
        for _ in range(2 if thorough else 1):
            cases.append(("random", {x for x in chain | {c, 0x20, 0x2010} if rng.random() < 0.6}, [c]))
    return cases


def gen_strings(rng, thorough):
    texts = []
    max_all = 3 if thorough else 2
    for s in STARTERS:
        for k in range(1, max_all + 1):
            for ms in itertools.product(MARKS, repeat=k):
                texts.append([s] + list(ms))
    if thorough:
        for s in STARTERS[:8] + [0x1EBF, 0x3AC]:
            for ms in itertools.product(MARKS[1:9:1], repeat=4):
                texts.append([s] + list(ms))
    else:
        for _ in range(3000):
            k = rng.choice([3, 3, 4, 4, 5])
            texts.append([rng.choice(STARTERS)] + [rng.choice(MARKS) for _ in range(k)])
    # every ordered pair of marks over all generic combining classes, on a few starters that have composites
    allm = MARKS + CLASS_MARKS
    for s in (0x6F, 0x61, 0x3B1, 0x438):
        for m1 in allm:
            for m2 in allm:
                if m1 in CLASS_MARKS or m2 in CLASS_MARKS:
                    texts.append([s, m1, m2])
    # a NON-composing mark of combining class 0 (combining grapheme joiner, enclosing marks, Cyrillic hundred-thousands /
    # millions signs) between a starter and a mark that would compose with it: it is a starter itself, so it blocks
    for s in (0x61, 0x6F, 0x438, 0x3B1):
        for z in (0x20DD, 0x20E0, 0x0488, 0x0489):   # (U+034F has class 0 too, but is default-ignorable: C13)
            for m in MARKS[:9]:
                texts.append([s, z, m])
                texts.append([s, m, z, MARKS[0]])
                texts.append([s, z, m, 0x323])
    # starter + a composing mark of combining class 0 (two-part vowels, length marks): only adjacency lets them compose
    for (a, b) in SS_PAIRS:
        texts.append([a, b])
        texts.append([a, b, 0x323])
        texts.append([a, 0x323, b])
    cases = []
    for t in texts:
        n = set(nfd(t))
        k = closure(n)
        cases.append(("all", n | k, t))
        cases.append(("decomposed-only", n, t))
        cases.append(("some-composites", n | {x for x in k if rng.random() < 0.5}, t))
        cases.append(("random", {x for x in n | k if rng.random() < 0.75}, t))
    # longer mark runs incl. > MAX_COMBINING_MARKS and marks with remapped classes: model-vs-implementation only
    extra = []
    for _ in range(400 if thorough else 120):
        k = rng.choice([6, 10, 31, 32, 33, 40])
        pool = MARKS + (REMAPPED_MARKS if rng.random() < 0.5 else [])
        t = [rng.choice(STARTERS)] + [rng.choice(pool) for _ in range(k)]
        if rng.random() < 0.3:
            t += [rng.choice(STARTERS)] + [rng.choice(pool) for _ in range(3)]
        if rng.random() < 0.2:
            t = [rng.choice(pool)] + t          # text that begins with a mark
        n = set(nfd(t))
        extra.append(("model-only", {x for x in n | closure(n) if rng.random() < 0.85}, t))
    return cases, extra


def coq_shape_jobs(name, cases, outs, shard=600):
    jobs = []
    for i in range(0, len(cases), shard):
        items = []
        for (kind, rep, text), o in zip(cases[i:i + shard], outs[i:i + shard]):
            obs = "None" if o is None else "Some [%s]" % "; ".join("(%d,%d)" % p for p in o)
            items.append("(%s, %s, %s)" % (nlist(sorted(rep)), nlist(text), obs))
        body = HDR + "Definition cases : list shape_case := [\n%s].\n" % ";\n".join(items)
        body += "Eval vm_compute in (failing check_shape cases).\n"
        jobs.append(("%s_%d" % (name, i // shard), body))
    return jobs


# ------------------------------------------------------------------ hook correspondence

def hook_correspondence(chk, binp, rng, thorough):
    dis, fails = [], []
    rc, out, err = C.run_rbv(binp, ["c09", "props"])
    if rc != 0:
        raise RuntimeError("rbv c09 props failed: " + err[-500:])
    drows, prows = [], []
    for line in out.splitlines():
        p = line.split()
        if p[0] == "d":
            if p[2] == "panic":
                fails.append({"what": "decompose-panics", "char": p[1]})
            else:
                drows.append((int(p[1], 16), int(p[2], 16), int(p[3], 16)))
        elif p[0] == "p":
            if p[2] == "panic":
                fails.append({"what": "unicode-props-panic", "char": p[1]})
            else:
                prows.append((int(p[1], 16), int(p[2]), int(p[3]), int(p[4]), int(p[5]), int(p[6])))
        elif p[0] == "props-done":
            m = re.search(r"max_combining_marks=(\d+)", line)
            chk.note("impl_max_combining_marks", int(m.group(1)))
    # ---- implementation vs unicodedata (independent): decompose on the stable subset, Hangul closed form
    implD = {r[0]: [r[1]] + ([r[2]] if r[2] else []) for r in drows}
    n_cmp = 0
    for c in range(0x110000):
        if 0xD800 <= c <= 0xDFFF or not assigned(c):
            continue
        exp = first_level(c)
        got = implD.get(c)
        n_cmp += 1
        if exp != got:
            fails.append({"what": "decompose-differs-from-unicode", "char": "%04X" % c,
                          "unicode": exp and hx(exp), "implementation": got and hx(got)})
            if len(fails) > 20:
                break
    chk.add_eval(n_cmp, len(DEC) + S_COUNT)
    chk.note("decompose_vs_unicodedata", {"scalar_values_compared": n_cmp, "decomposable": len(DEC) + S_COUNT,
                                          "implementation_entries_newer_than_spec": len([c for c in implD if not assigned(c)])})
    # ---- compose pairs
    pairs = set(PRIMARY)
    pairs |= {(v[0], v[1]) for v in DEC.values() if len(v) == 2}           # incl. exclusions: must be None
    pairs |= {(r[1], r[2]) for r in drows if r[2]}                          # everything the implementation decomposes
    pairs |= {(0x308, 0x301), (0xF71, 0xF72), (0xF71, 0xF74), (0xF71, 0xF80)}
    for l in range(19):
        for v in range(21):
            pairs.add((0x1100 + l, 0x1161 + v))
    for _ in range(4000 if thorough else 1500):
        s = S_BASE + rng.randrange(S_COUNT)
        pairs.add((s, 0x11A7 + rng.randrange(-1, 30)))
        a, b = rng.choice(sorted(PRIMARY))
        pairs.add((a + rng.choice([-1, 0, 1]), b + rng.choice([-1, 0, 1])))
        pairs.add((rng.randrange(0x3000), rng.randrange(0x300, 0x370)))
        pairs.add((rng.choice([0x10FFFF, 0xFFFF, 0x10000, rng.randrange(0x110000)]), rng.randrange(0x110000)))
    pairs = sorted(p for p in pairs if all(0 <= x < 0x110000 and not 0xD800 <= x <= 0xDFFF for x in p))
    rc, out, err = C.run_rbv(binp, ["c09", "compose"], stdin="".join("%X %X\n" % p for p in pairs))
    if rc != 0:
        raise RuntimeError("rbv c09 compose failed: " + err[-500:])
    crows = []
    for line in out.splitlines():
        p = line.split()
        if p[0] != "c":
            continue
        if p[3] == "panic" or p[3] == "notchar":
            fails.append({"what": "compose-panics", "pair": p[1:3]})
            continue
        crows.append((int(p[1], 16), int(p[2], 16), None if p[3] == "-" else int(p[3], 16)))
    nonstarter = []
    for a, b, r in crows:
        # independent expectation: primary composite or Hangul (NFC of the pair is one character) on the stable subset
        if not (assigned(a) and assigned(b)) or (r is not None and not assigned(r)):
            continue
        exp = PRIMARY.get((a, b))
        if exp is None and (0x1100 <= a < 0x1113 and 0x1161 <= b < 0x1176 or (is_hangul_syllable(a) and 0x11A8 <= b < 0x11C3)):
            n = nfc([a, b])
            exp = n[0] if len(n) == 1 else None
        if r != exp:
            if U.combining(chr(a)) != 0 and r is not None and (a, b) in {(0x308, 0x301), (0xF71, 0xF72), (0xF71, 0xF74), (0xF71, 0xF80)}:
                nonstarter.append("%04X+%04X->%04X" % (a, b, r))
            elif is_hangul_syllable(a) and b == 0x11A7 and r == a and (a - S_BASE) % 28 == 0:
                pass  # compose_hangul accepts T_BASE itself (not a jamo) and returns the LV syllable unchanged
            else:
                fails.append({"what": "compose-differs-from-unicode", "pair": "%04X %04X" % (a, b),
                              "unicode": exp and "%04X" % exp, "implementation": r and "%04X" % r})
    chk.note("compose_pairs", {"evaluated": len(crows), "primary_composites": len(PRIMARY),
                               "nonstarter_pairs_outside_unicode": sorted(nonstarter)})
    chk.add_eval(len(crows), len(PRIMARY) + 399)
    # ---- model vs implementation (Coq)
    jobs = []
    body = HDR
    for i in range(0, len(drows), 1500):
        body += "Definition d%d : list (N * N * N) := [%s].\n" % (i // 1500, "; ".join("(%d,%d,%d)" % r for r in drows[i:i + 1500]))
    nd = (len(drows) + 1499) // 1500
    body += "Definition drows := %s.\n" % (" ++ ".join("d%d" % i for i in range(nd)) or "@nil (N*N*N)")
    body += "Eval vm_compute in (failing check_decomp drows).\nEval vm_compute in (decomp_domain drows).\n"
    jobs.append(("c09_decomp", body))
    body = HDR
    for i in range(0, len(crows), 1500):
        body += "Definition c%d : list (N * N * option N) := [%s].\n" % (
            i // 1500, "; ".join("(%d,%d,%s)" % (a, b, "None" if r is None else "Some %d" % r) for a, b, r in crows[i:i + 1500]))
    nc = (len(crows) + 1499) // 1500
    body += "Definition crows := %s.\n" % (" ++ ".join("c%d" % i for i in range(nc)) or "@nil (N*N*option N)")
    body += "Eval vm_compute in (failing check_compose crows).\n"
    jobs.append(("c09_compose", body))
    stable = [r for r in prows if assigned(r[0])]
    bl = lambda x: "true" if x else "false"
    body = HDR + "Definition prows : list props_case := [%s].\n" % ";\n".join(
        "(%d,%s,%d,%s,%s,%d)" % (c, bl(m), k, bl(s), bl(f), raw) for c, m, k, s, f, raw in stable)
    body += "Eval vm_compute in (failing check_props prows).\nEval vm_compute in [N.of_nat (length prows); model_props_count].\n"
    jobs.append(("c09_props", body))
    res = C.coq_eval_many(jobs)
    for name, o in sorted(res.items()):
        if isinstance(o, Exception):
            dis.append({"what": "cases-file-failed", "file": name, "error": str(o)[-600:]})
            continue
        lists = C.parse_eval_lists(o)
        if name == "c09_decomp":
            for i in lists[0]:
                dis.append({"what": "decompose-model-differs", "row": "%X -> %X %X" % drows[i]})
            if len(lists) < 2 or lists[1][0] != lists[1][1] or lists[1][2] != lists[1][3] or lists[1][4] != 1:
                dis.append({"what": "decompose-domain-differs", "counts[nonhangul,table,hangul,S_COUNT,sorted]": lists[1:]})
            chk.add_eval(0x110000 - 2048, len(drows))
        elif name == "c09_compose":
            for i in (lists[0] if lists else []):
                dis.append({"what": "compose-model-differs", "row": str(crows[i])})
            if not lists:
                dis.append({"what": "no-answer", "file": name})
        elif name == "c09_props":
            for i in (lists[0] if lists else []):
                dis.append({"what": "unicode-props-model-differs", "row": str(stable[i])})
            if len(lists) < 2 or lists[1][0] != lists[1][1]:
                dis.append({"what": "unicode-props-domain-differs", "counts[impl,model]": lists[1:]})
            chk.add_eval(0x110000 - 2048, len(stable))
    chk.note("unicode_props", {"implementation_nontrivial": len(prows), "on_stable_subset": len(stable)})
    chk.sample({"decompose_row": "%X -> %X %X" % drows[len(drows) // 3] if drows else None,
                "compose_row": str(crows[len(crows) // 2]) if crows else None})
    return dis, fails


# ------------------------------------------------------------------ API level

def oracle_singles(cases, outs):
    fails = []
    stats = {"has-it": 0, "lacks-it": 0, "lacks-intermediates": 0, "lacks-a-part": 0, "random": 0, "partial_not_full": 0}
    for (kind, rep, text), o in zip(cases, outs):
        c = text[0]
        stats[kind] += 1
        if o is None:
            fails.append(("single-panics", kind, rep, text, o, None))
            continue
        got = [g for g, _ in o]
        exp = single_expected(c, rep)
        bad = None
        if any(k != 0 for _, k in o):
            bad = "cluster-not-0"
        elif got != exp:
            bad = "single-character-result"
        # the property's sentences, literally, on the fonts they speak about
        elif kind == "has-it" and got != [c]:
            bad = "own-glyph-not-used"
        elif kind == "lacks-intermediates" and got != nfd([c]):
            bad = "full-decomposition-not-used"
        elif kind == "lacks-it" and not (0 not in got and all(g in rep for g in got) and nfd(got) == nfd([c])):
            bad = "decomposition-not-equivalent"
        if kind == "lacks-it" and got != nfd([c]):
            stats["partial_not_full"] += 1
        if bad:
            fails.append((bad, kind, rep, text, o, exp))
    return fails, stats


def oracle_strings(cases, outs):
    fails = []
    groups = {}
    n_oracle = 0
    n_composed = 0
    for (kind, rep, text), o in zip(cases, outs):
        if o is None:
            fails.append(("string-panics", kind, rep, text, o, None))
            continue
        got = [g for g, _ in o]
        full = nfd(text)
        if any(k != 0 for _, k in o):
            fails.append(("cluster-not-0", kind, rep, text, o, None))
            continue
        if all(x in rep for x in full):
            exp = d117(text, rep)
            n_oracle += 1
            if len(exp) < len(full):
                n_composed += 1
            if got != exp:
                fails.append(("string-result", kind, rep, text, o, exp))
                continue
            if kind == "all":
                if exp != nfc(text):
                    fails.append(("oracle-self-check: D117 with a full font is not NFC", kind, rep, text, o, nfc(text)))
                groups.setdefault(tuple(full), set()).add((tuple(text), tuple(got)))
            if kind == "decomposed-only" and got != full:
                fails.append(("decomposed-font-not-NFD", kind, rep, text, o, full))
        else:
            # some character of the decomposition is unmapped: only sanity (canonical equivalence of what is mapped)
            if 0 not in got and nfd(got) != full:
                fails.append(("result-not-canonically-equivalent", kind, rep, text, o, full))
    eq_groups = 0
    for full, members in groups.items():
        if len({m[0] for m in members}) > 1:
            eq_groups += 1
            if len({m[1] for m in members}) > 1:
                ms = sorted(members)
                fails.append(("equivalent-strings-differ", "all", closure(full) | set(full), list(ms[0][0]),
                              [(g, 0) for g in ms[0][1]], [hx(m[0]) + " => " + hx(m[1]) for m in ms[:4]]))
    return fails, {"with_oracle": n_oracle, "recomposed": n_composed, "equivalence_groups_with_several_spellings": eq_groups}


def api_level(chk, binp, rng, thorough):
    singles = gen_singles(rng, thorough)
    strings, extra = gen_strings(rng, thorough)
    allc = singles + strings + extra
    outs = shape_many(binp, [(r, t) for _, r, t in allc])
    o_s, o_t, o_x = outs[:len(singles)], outs[len(singles):len(singles) + len(strings)], outs[len(singles) + len(strings):]
    f1, st1 = oracle_singles(singles, o_s)
    f2, st2 = oracle_strings(strings, o_t)
    chk.note("singles", dict(st1, cases=len(singles), characters=len({t[0] for _, _, t in singles})))
    chk.note("strings", dict(st2, cases=len(strings), texts=len(strings) // 4, long_or_remapped_model_only=len(extra)))
    chk.add_eval(len(allc), len(singles) - st1["has-it"] + st2["recomposed"])
    mid = strings[len(strings) // 2]
    chk.sample({"string_case": {"font": hx(sorted(mid[1])), "text": hx(mid[2]), "glyphs": hx([g for g, _ in o_t[len(strings) // 2]])}})
    mid = singles[1000]
    chk.sample({"single_case": {"kind": mid[0], "font": hx(sorted(mid[1])), "text": hx(mid[2]), "glyphs": hx([g for g, _ in o_s[1000]])}})
    # model vs implementation
    jobs = coq_shape_jobs("c09_single", singles, o_s) + coq_shape_jobs("c09_string", strings, o_t) + coq_shape_jobs("c09_extra", extra, o_x, shard=60)
    res = C.coq_eval_many(jobs)
    dis = []
    for name, o in sorted(res.items()):
        if isinstance(o, Exception):
            dis.append({"what": "cases-file-failed", "file": name, "error": str(o)[-600:]})
            continue
        lists = C.parse_eval_lists(o)
        if not lists:
            dis.append({"what": "no-answer", "file": name})
            continue
        kind, idx = name.rsplit("_", 1)
        src, so, shard = {"c09_single": (singles, o_s, 600), "c09_string": (strings, o_t, 600), "c09_extra": (extra, o_x, 60)}[kind]
        for i in lists[0]:
            k = int(idx) * shard + i
            dis.append({"what": "model-and-implementation-differ", "kind": src[k][0], "repertoire": hx(sorted(src[k][1])),
                        "text": hx(src[k][2]), "implementation": so[k] and " ".join("%X:%d" % p for p in so[k])})
    chk.note("model_vs_implementation_cases", len(allc))
    # context independence: what follows a cluster (another letter, an unrelated variation selector, a
    # default ignorable) must not change how the cluster is normalized
    ctx_cases = []
    pick = list(range(0, len(strings), max(1, len(strings) // (2400 if thorough else 600))))
    # (prefix, suffix): what precedes (incl. a cluster that gets recomposed, which shortens the out-buffer)
    # and what follows the cluster
    ctxs = [([], [0x78]), ([], [0x78, 0xFE00]), ([], [0x78, 0x78, 0xFE00, 0x78]), ([], [0x78, 0x034F]), ([], [0x20, 0x78, 0xFE0F]),
            ([0x65, 0x301], []), ([0x65, 0x301, 0x78], [0x78]), ([0x41, 0x30A, 0x65, 0x301], []), ([0xE9, 0x323, 0x78], []), ([0x78], [0x65, 0x301])]
    for k in pick:
        kind, rep, text = strings[k]
        if o_t[k] is None:
            continue
        pre, suf = ctxs[(k // 7) % len(ctxs)]
        if U.category(chr(text[0])).startswith("M"):
            pre = []        # a cluster that begins with a mark would join the prefix's last cluster
        extra_chars = set(pre) | set(suf) | set(closure(set(nfd(pre + suf)))) | set(nfd(pre + suf))
        ctx_cases.append((k, set(rep) | extra_chars, pre + text + suf, len(pre)))
    o_c = shape_many(binp, [(r, t) for _, r, t, _ in ctx_cases])
    f3 = []
    for (k, rep, text, npre), o in zip(ctx_cases, o_c):
        n = len(strings[k][2])
        if o is None:
            f3.append(("string-panics", "context", rep, text, o, None))
            continue
        head = [g for g, c in o if npre <= c < npre + n]
        f3.append((k, rep, text, head))
    # second pass: the clusters alone with the enlarged repertoires
    alone = shape_many(binp, [(rep, strings[k][2]) for k, rep, text, head in [x for x in f3 if len(x) == 4]])
    fails3 = [x for x in f3 if len(x) == 6]
    j = 0
    for x in f3:
        if len(x) != 4:
            continue
        k, rep, text, head = x
        a = alone[j]
        j += 1
        if a is None:
            continue
        if [g for g, _ in a] != head:
            fails3.append(("cluster-normalized-differently-in-context", "context", rep, text, [(g, 0) for g in head], [g for g, _ in a]))
    chk.note("context_independence_cases", len(ctx_cases))
    chk.add_eval(len(ctx_cases), len(ctx_cases))
    return f1 + f2 + fails3, dis


def fail_payload(f):
    what, kind, rep, text, o, exp = f
    return {"what": what, "font_kind": kind, "repertoire": hx(sorted(rep)), "text": hx(text),
            "implementation": None if o is None else " ".join("%X:%d" % p for p in o),
            "expected": exp if (exp is None or (exp and isinstance(exp[0], str))) else hx(exp),
            "replay_cmd": "printf '%s;%s\\n' | rbv c09 shape" % (hx(sorted(rep)), hx(text))}


def run(chk):
    thorough = chk.tier == "thorough"
    rng = random.Random(int(chk.seed))
    chk.cov["rule"] = (
        "hooks: unicode::decompose on every scalar value and unicode::compose on all table/Unicode/Hangul pairs + random pairs vs the model "
        "and vs unicodedata; unicode props (mark, stored modified class, space, fallback) of every scalar value vs the model on the stable subset. "
        "API on generated cmap-only fonts (script Latn, LTR, level 0): every decomposable character of Unicode 14 + sampled Hangul syllables singly x "
        "{has it, lacks it, lacks intermediates, lacks a part, random}; every string starter + 1..k marks over 24 starters (Latin/Greek/Cyrillic, "
        "plain and precomposed) x 14 marks of classes 1/202/216/220/230/240 (k = 2 quick, 3 thorough, + 4..5 sampled or reduced pool) x "
        "{all, decomposed-only, some composites, random}; long runs around MAX_COMBINING_MARKS and remapped classes model-vs-implementation only. "
        "non-trivial = decomposable (tables), result differs from the input character (singles), something was recomposed (strings)")
    pr = chk.prove(extra_targets=["Corr/NormalizeC.vo"])
    broken = []
    if chk.guards_failed:
        broken += ["translator-guard:%s (%s)" % g for g in chk.guards_failed if g[0] in OWN_GUARDS]
    if not pr["ok"]:
        broken += ["proof:" + f for f in pr["failed"]]
    ok, binp, blog = C.cargo_build("release", hooks=True)
    dis, fails, table_fails = [], [], []
    if not ok:
        broken.append("hook-build-failed: " + blog[-600:])
    else:
        d1, table_fails = hook_correspondence(chk, binp, rng, thorough)
        fails, d2 = api_level(chk, binp, rng, thorough)
        dis = d1 + d2
    chk.note("correspondence_disagreements", len(dis))
    chk.note("interpretation",
             "a lone unmapped character is shown as the SHORTEST partial canonical decomposition that is entirely mapped "
             "(e.g. U+1E09 -> U+00E7 U+0301 when the font has U+00E7), which is canonically equivalent to the full one; the "
             "sentence 'full canonical decomposition' is checked literally on fonts without the intermediate forms "
             "(singles.partial_not_full counts the lacks-it cases where the shorter form was shown)")
    for f in table_fails[:4]:
        # make the table-level failure an API-level input as well
        try:
            if "pair" in f and isinstance(f["pair"], str):
                a, b = [int(x, 16) for x in f["pair"].split()]
                rep = {a, b} | {int(f[k], 16) for k in ("unicode", "implementation") if f.get(k)}
                text = [a, b]
            elif "char" in f:
                c = int(f["char"], 16)
                rep = {int(x, 16) for k in ("unicode", "implementation") if f.get(k) for x in f[k].split()}
                text = [c]
            else:
                rep = None
            if rep is not None and ok:
                o = shape_many(binp, [(rep, text)])[0]
                f.update({"repertoire": hx(sorted(rep)), "text": hx(text), "font_kind": "random",
                          "shaped": None if o is None else " ".join("%X:%d" % p for p in o),
                          "replay_cmd": "printf '%s;%s\\n' | rbv c09 shape" % (hx(sorted(rep)), hx(text))})
        except Exception as ex:  # noqa
            f["api_replay_error"] = repr(ex)
        chk.violation(f["what"], f)
    for f in fails[:6]:
        chk.violation(f[0].split(":")[0].replace(" ", "-"), fail_payload(f))
    if not fails and not table_fails and (broken or dis):
        chk.violation("tie-or-proof-broken", {"broken": broken, "disagreements": dis[:10],
                      "note": "theorems of Props/C09.v or the model/implementation correspondence no longer check; the "
                              "oracle search on the implementation found no failing input"}, no_input=True)
    elif (fails or table_fails) and (broken or dis):
        chk.note("also_broken", {"broken": broken, "disagreements": dis[:5]})
    chk.cov["trusted_base"] = C.DEFAULT_TRUSTED_BASE + [
        "CPython unicodedata %s as the independent Unicode source (stable subset: characters assigned there)" % U.unidata_version,
        "general category / combining class of the crates unicode-properties, unicode-ccc are model parameters, compared on every scalar value",
        "binary_search_by on a strictly sorted slice = first match (sortedness is C09_tables_sorted)"]
    chk.assumptions = C.DEFAULT_ASSUMPTIONS + [
        "domain: default shaper (script Latn forced), LTR, cluster level 0, no variation selectors / CGJ / ZWJ, buffer.invisible unset"]


def replay(chk, path):
    body = json.load(open(path))
    print(json.dumps(body, indent=1))
    if "repertoire" not in body:
        return 1 if body.get("no_failing_input_found") is False else 0
    ok, binp, _ = C.cargo_build("release", hooks=True)
    rep = {int(x, 16) for x in body["repertoire"].split()}
    text = [int(x, 16) for x in body["text"].split()]
    o = shape_many(binp, [(rep, text)])[0]
    print("implementation now:", None if o is None else " ".join("%X:%d" % p for p in o))
    if len(text) == 1:
        f, _ = oracle_singles([(body.get("font_kind", "random"), rep, text)], [o])
    else:
        f, _ = oracle_strings([(body.get("font_kind", "random"), rep, text)], [o])
    for x in f:
        print("STILL FAILING:", fail_payload(x))
    return 1 if f else 0
