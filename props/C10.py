"""C10 — lookup prefilters (glyph-set digests) never change the shaping result.
Proof: Props/C10.v (soundness of add / add_array / add_range incl. wrap and saturation, may_have, no
overflow in checked builds for any a, b) over Model/Digest.v with shifts from Gen/Consts.v; transparency of the
lookup-skip decision for an abstract interpreter under three stated conditions (Model/Prefilter.v).
Tie: translator (shifts, width) + hook correspondence on the real hb_set_digest_t (exhaustive bit
positions, add_range classes + random, random op sequences; release and overflow-checked builds).
Search: implementation-level soundness predicate; prefilter on/off on corpus fonts; run-time monitor of the
apply context's digest at every skip decision (hook)."""
import re

import common as C
from common import nlist

LEVEL = "proof"

HDR = ("From Coq Require Import List NArith Bool.\nFrom RB Require Import Gen.Consts Model.Digest Corr.Common Corr.DigestC.\n"
       "Import ListNotations.\nLocal Open Scope N_scope.\n")


def bool_(b):
    return "true" if b else "false"


def correspondence(chk, binp, flavour, n_ranges, n_ops):
    """Returns list of disagreement descriptions."""
    dis = []
    # ---- exhaustive bit positions (release flavour only; same code path)
    jobs = []
    if flavour == "release":
        rc, out, err = C.run_rbv(binp, ["c10", "pos"])
        if rc != 0:
            raise RuntimeError("rbv c10 pos failed: " + err[-500:])
        pos = {}
        for line in out.splitlines():
            if line.startswith("pos "):
                p = line.split()
                pos[int(p[1])] = p[2:]
            elif line.strip():
                dis.append({"what": "impl-anomaly", "line": line})
        body = HDR
        for k in range(3):
            vals = pos.get(k, [])
            # chunk the literal to keep the parser's recursion shallow
            chunks = [vals[i:i + 2048] for i in range(0, len(vals), 2048)]
            for ci, ch in enumerate(chunks):
                body += "Definition p%d_%d : list N := [%s].\n" % (k, ci, "; ".join(ch))
            body += "Definition p%d := %s.\n" % (k, " ++ ".join("p%d_%d" % (k, ci) for ci in range(len(chunks))) or "@nil N")
            body += "Eval vm_compute in (N.of_nat (length p%d) :: check_pos (nth %d digest_shifts 99) p%d).\n" % (k, k, k)
        jobs.append(("c10_pos", body))
    # ---- add_range cases
    rc, out, err = C.run_rbv(binp, ["c10", "ranges", "--seed", chk.seed, "--n", n_ranges])
    if rc != 0:
        raise RuntimeError("rbv c10 ranges failed: " + err[-500:])
    rcases = []
    raw_r = []
    for line in out.splitlines():
        m = re.match(r"range (\d+) (\d+) (\d+) (\d+) (\d+) -> (.*)", line)
        if not m:
            continue
        m0, m1, m2, a, b = [int(x) for x in m.groups()[:5]]
        rest = m.group(6).split()
        if rest[0] == "panic":
            obs = "None"
        else:
            obs = "Some (%s, %s)" % (bool_(rest[0] == "1"), nlist(rest[1:4]))
        rcases.append("(%s, %d, %d, %s)" % (nlist([m0, m1, m2]), a, b, obs))
        raw_r.append(line)
    fn = "check_range_rel" if flavour == "release" else "check_range_chk"
    shard = 1000
    for i in range(0, len(rcases), shard):
        body = HDR + "Definition cases : list range_case := [\n%s].\n" % ";\n".join(rcases[i:i + shard])
        body += "Eval vm_compute in (failing (%s digest_shifts) cases).\n" % fn
        jobs.append(("c10_ranges_%s_%d" % (flavour, i // shard), body))
    # ---- op sequences (release only: checked differs only in add_range, covered above)
    ocases = []
    raw_o = []
    if flavour == "release":
        rc, out, err = C.run_rbv(binp, ["c10", "ops", "--seed", chk.seed, "--n", n_ops])
        if rc != 0:
            raise RuntimeError("rbv c10 ops failed: " + err[-500:])
        cur = None
        for line in out.splitlines():
            p = line.split()
            if p[0] == "case":
                cur = [nlist(p[2:5]), [], [line]]
                ocases.append(cur)
            elif p[0] == "add":
                cur[1].append("SAdd %s %s" % (p[1], nlist(p[3:6])))
            elif p[0] == "array":
                gs = [x for x in p[1].split(",") if x] if p[1] != "->" else []
                res = p[3:6] if p[1] != "->" else p[2:5]
                cur[1].append("SArray %s %s" % (nlist(gs), nlist(res)))
            elif p[0] == "addrange":
                cur[1].append("SRange %s %s %s %s" % (p[1], p[2], bool_(p[4] == "1"), nlist(p[5:8])))
            elif p[0] == "qglyph":
                cur[1].append("SQGlyph %s %s" % (p[1], bool_(p[3] == "1")))
            elif p[0] == "qmay":
                cur[1].append("SQMay %s %s" % (nlist(p[1:4]), bool_(p[5] == "1")))
            if p[0] != "case":
                cur[2].append(line)
        for i in range(0, len(ocases), 400):
            items = ["(%s, [%s])" % (c[0], "; ".join(c[1])) for c in ocases[i:i + 400]]
            body = HDR + "Definition cases : list (list N * list dstep) := [\n%s].\n" % ";\n".join(items)
            body += "Eval vm_compute in (failing (check_ops digest_shifts) cases).\n"
            jobs.append(("c10_ops_%d" % (i // 400), body))
        raw_o = ocases
    res = C.coq_eval_many(jobs)
    for name, out in sorted(res.items()):
        if isinstance(out, Exception):
            dis.append({"what": "cases-file-failed", "file": name, "error": str(out)[-800:]})
            continue
        lists = C.parse_eval_lists(out)
        if name == "c10_pos":
            for k, l in enumerate(lists):
                if not l or l[0] != 65536:
                    dis.append({"what": "pos-length", "pattern": k, "got": l[:1]})
                for g in l[1:]:
                    dis.append({"what": "bit-position-differs", "pattern": k, "glyph": g})
            chk.add_eval(3 * 65536, 3 * 65536)
            chk.note("exhaustive_bit_positions", True)
        elif name.startswith("c10_ranges"):
            base = int(name.rsplit("_", 1)[1]) * shard
            for idx in (lists[0] if lists else [0]):
                dis.append({"what": "add_range-differs", "flavour": flavour, "case": raw_r[base + idx]})
            if not lists:
                dis.append({"what": "no-answer", "file": name})
        elif name.startswith("c10_ops"):
            base = int(name.rsplit("_", 1)[1]) * 400
            for idx in (lists[0] if lists else [0]):
                dis.append({"what": "op-sequence-differs", "case": raw_o[base + idx][2]})
            if not lists:
                dis.append({"what": "no-answer", "file": name})
    chk.add_eval(len(rcases) + len(ocases), len(set(rcases)) + len(ocases))
    if raw_r:
        chk.sample({"add_range_case_" + flavour: raw_r[len(raw_r) // 2]})
    if raw_o:
        chk.sample({"op_sequence": raw_o[0][2][:6]})
    return dis


def impl_search(chk, binp, thorough):
    """Implementation-level predicate: returns (list of failing inputs, prefilter diffs)."""
    fails = []
    rc, out, err = C.run_rbv(binp, ["c10", "sound", "--stride", 1 if thorough else 7, "--seed", chk.seed])
    for line in out.splitlines():
        if line.startswith("unsound"):
            fails.append({"what": "digest-unsound", "input": line})
        m = re.match(r"sound-summary evaluations=(\d+) nontrivial=(\d+) bad=(\d+)", line)
        if m:
            chk.add_eval(int(m.group(1)), int(m.group(2)))
            chk.note("impl_soundness_queries", int(m.group(1)))
    if rc != 0:
        fails.append({"what": "sound-search-crashed", "stderr": err[-500:]})
    rc, out, err = C.run_rbv(binp, ["c10", "prefilter", "--seed", chk.seed, "--per-font", 200 if thorough else 30])
    for line in out.splitlines():
        if line.startswith("diff "):
            fails.append({"what": "prefilter-changes-result", "input": line})
        if line.startswith("stale "):
            # the hypothesis of C10_skip_sound: the apply context's digest covers every glyph of the buffer at each skip decision
            fails.append({"what": "stale-buffer-digest", "input": line,
                          "note": "a lookup-skip decision was taken while the apply context's digest reported a glyph of the buffer as absent "
                                  "(a pause changed the glyph set without refreshing the digest, or a substitution did not add its output)"})
        m = re.match(r"prefilter-summary fonts=(\d+) shapes=(\d+) nontrivial=(\d+) diffs=(\d+) stale=(\d+)", line)
        if m:
            chk.add_eval(int(m.group(2)), int(m.group(3)))
            chk.note("prefilter_on_off", {"fonts": int(m.group(1)), "shapes": int(m.group(2)),
                                           "layout_fired": int(m.group(3)), "diffs": int(m.group(4)), "stale_digest_shapes": int(m.group(5))})
            chk.sample({"prefilter": line})
    if rc != 0:
        fails.append({"what": "prefilter-search-crashed", "stderr": err[-500:]})
    return fails


def run(chk):
    thorough = chk.tier == "thorough"
    chk.cov["rule"] = ("hook correspondence: exhaustive bit positions (65536 glyph ids x 3 patterns), add_range structured classes + random "
                       "(mask, a, b) on release and overflow-checked builds, random op sequences; implementation-level soundness queries "
                       "(every g of [a,b] for all a and distances <= 70, sampled long ranges), prefilter on/off on corpus fonts. "
                       "non-trivial = distinct case (range cases), wrap-around windows (soundness), layout actually fired (prefilter)")
    pr = chk.prove(extra_targets=["Corr/DigestC.vo"])
    broken = []
    if chk.guards_failed:
        broken += ["translator-guard:%s (%s)" % g for g in chk.guards_failed]
    if not pr["ok"]:
        broken += ["proof:" + f for f in pr["failed"]]
    ok, binp, blog = C.cargo_build("release", hooks=True)
    dis = []
    fails = []
    if not ok:
        broken.append("hook-build-failed: " + blog[-600:])
    else:
        dis += correspondence(chk, binp, "release", 6000 if thorough else 1500, 1500 if thorough else 400)
        ok2, binc, blog2 = C.cargo_build("checked", hooks=True)
        if ok2:
            dis += correspondence(chk, binc, "checked", 6000 if thorough else 1500, 0)
        else:
            broken.append("checked-build-failed: " + blog2[-600:])
        fails = impl_search(chk, binp, thorough)
    chk.note("correspondence_disagreements", len(dis))
    # ---- verdict
    for f in fails[:5]:
        chk.violation(f["what"], f)
    if not fails and (broken or dis):
        chk.violation("tie-or-proof-broken", {"broken": broken, "disagreements": dis[:10],
                      "note": "theorems of Props/C10.v or the model/implementation correspondence no longer check; "
                              "the implementation-level soundness and prefilter searches found no failing input"}, no_input=True)
    chk.cov["trusted_base"] = C.DEFAULT_TRUSTED_BASE + ["hook: src/hb/set_digest.rs verif_* accessors, VERIF_PREFILTER_OFF switch, VERIF_DIGEST_MONITOR (ot_layout.rs apply loop)"]


def replay(chk, path):
    import json
    body = json.load(open(path))
    print(json.dumps(body, indent=1))
    ok, binp, _ = C.cargo_build("release", hooks=True)
    fails = impl_search(chk, binp, False)
    for f in fails[:5]:
        print("STILL FAILING:", f)
    return 1 if fails else 0
