"""C11 — joining scripts: positional forms follow the Unicode cursive-joining rules.
Proof: Props/C11.v — the table-driven automaton with back-patching (Model/Joining.v over the STATE_TABLE,
enum numbering, ARABIC_FEATURES order and CONTEXT_LENGTH the translator extracts on every run) equals the
declarative specification for ALL pre-contexts, texts and post-contexts; transparent characters are inert;
context acts as text; masks. The table enters through `table_ok state_table = true` (vm_compute) only.
Tie: hook correspondence on the real `arabic_joining` — exhaustive over 8 class representatives up to
length 4 (quick) / 6 (thorough) with every context of length 0/1, random longer sequences and contexts over
many characters, `setup_masks_inner` with random mask arrays, and `get_joining_type` on all code points.
Search: the property predicate (specification vs the feature the implementation attaches to each letter) is
evaluated on every one of those implementation outputs, and on the glyphs `rustybuzz::shape` (public API) chooses
on a generated font whose seven positional features map each letter to a distinct glyph per form."""
import os
import re
import time

import common as C
from common import nlist

LEVEL = "proof"

HDR = ("From Coq Require Import List NArith Bool Uint63.\n"
       "From RB Require Import Gen.JoiningTable Gen.JoiningTypes Model.Joining Model.JoiningGen Corr.Common Corr.JoiningC.\n"
       "Import ListNotations.\nLocal Open Scope N_scope.\n")

REPS = [0x0621, 0xA872, 0x0627, 0x0628, 0x0640, 0x064B, 0x0710, 0x0715]   # U L R D C T ALAPH DALATH_RISH
REP_NAMES = ["U", "L", "R", "D", "C", "T", "ALAPH", "DALATH_RISH"]


def gen_numbers():
    """action / joining type numbering of the current source, from the generated Gen/JoiningTable.v"""
    src = open(os.path.join(C.COQ, "Gen", "JoiningTable.v")).read()
    acts = {int(v): k for k, v in re.findall(r"Definition act_(\w+) : N := (\d+)\.", src)}
    jts = {int(v): k for k, v in re.findall(r"Definition jt_(\w+) : N := (\d+)\.", src)}
    return acts, jts


def rbv(binp, args, timeout=900):
    rc, out, err = C.run_rbv(binp, ["c11"] + args, timeout=timeout)
    if rc != 0:
        raise RuntimeError("rbv c11 %s failed: %s" % (args[0], err[-500:]))
    return out


def seq_of(n, idx):
    d = []
    for _ in range(n):
        d.append(idx % 8)
        idx //= 8
    return list(reversed(d))


def ctx_of(k):
    if k == 0:
        return []
    return [k - 1] if k <= 8 else [(k - 9) // 8, (k - 9) % 8]


def hexs(cps):
    return ",".join("%04X" % c for c in cps) if cps else "-"


def run_real(binp, pre, text, post):
    """Run one sequence (code points) on the real code. Returns dict."""
    out = rbv(binp, ["run", hexs(pre), hexs(text), hexs(post)])
    m = re.search(r"ran (.*?) ; (.*?) ; (.*?) ; (.*?) ; (.*)", out)
    if not m:
        return {"raw": out}
    f = [x.split() for x in m.groups()]
    return {"pre_classes": [int(x) for x in f[0]], "text_classes": [int(x) for x in f[1]],
            "post_classes": [int(x) for x in f[2]],
            "actions": f[3] if f[3][:1] == ["panic"] else [int(x) for x in f[3]], "features": f[4]}


def describe(binp, pre, text, post, acts):
    """Concrete replay payload for a sequence of code points: implementation output + what model and spec say."""
    real = run_real(binp, pre, text, post)
    d = {"pre": ["U+%04X" % c for c in pre], "text": ["U+%04X" % c for c in text], "post": ["U+%04X" % c for c in post],
         "implementation": real, "replay_cmd": "rbv c11 run %s %s %s" % (hexs(pre), hexs(text), hexs(post))}
    if "text_classes" in real:
        body = HDR + "Eval vm_compute in (spec_codes %s %s %s).\nEval vm_compute in (model_codes %s %s %s).\n" % (
            nlist(real["pre_classes"]), nlist(real["text_classes"]), nlist(real["post_classes"]),
            nlist(real["pre_classes"]), nlist(real["text_classes"]), nlist(real["post_classes"]))
        try:
            ls = C.parse_eval_lists(C.coq_eval("c11_describe", body))
            d["specification_actions"] = [acts.get(a, a) for a in ls[0]]
            d["model_actions"] = [acts.get(a, a) for a in ls[1]]
            d["specification_features"] = [(x.lower() if x != "NONE" else "-") if isinstance(x, str) else x for x in d["specification_actions"]]
            if isinstance(real["actions"], list) and real["actions"][:1] != ["panic"]:
                d["implementation_actions"] = [acts.get(a, a) for a in real["actions"]]
                d["implementation_features"] = real["features"]
            d["differs"] = (d.get("implementation_actions") != d["specification_actions"]
                            or d.get("implementation_features") != d["specification_features"])
        except Exception as ex:  # noqa
            d["describe_error"] = str(ex)[-400:]
    return d


def feat_table(binp):
    F = []
    for line in rbv(binp, ["feat"]).splitlines():
        p = line.split()
        if p and p[0] == "feat":
            F.append("None" if p[2] == "none" else "Some %s" % p[2])
    return "[%s]" % "; ".join(F)


def exhaustive(chk, binp, maxlen, F, nctx=9, tag="exh", api_script=None):
    """Returns (model_failures, spec_failures, anomalies, broken); each failure = (n, pre, post, idx).
    api_script: run the enumeration through the public API on the generated font instead of the hook; then the observed
    values are form indices read off the glyph ids, F is the font's own feature order and only the specification predicate applies."""
    if api_script:
        out = rbv(binp, ["api", "--script", api_script, "--maxlen", str(maxlen), "--chunk", "32768", "--nctx", str(nctx)], timeout=1800)
        F = "[%s; None]" % "; ".join("Some " + l.split()[2] for l in out.splitlines() if l.startswith("apifeat "))
    else:
        out = rbv(binp, ["exh", "--maxlen", str(maxlen), "--chunk", "32768", "--nctx", str(nctx)], timeout=1800)
    blocks = []
    anomalies = []
    cases = joined = 0
    for line in out.splitlines():
        if line.startswith("blk "):
            p = line.split(" ")
            blocks.append((int(p[1]), int(p[2]), int(p[3]), int(p[4]), int(p[5]), p[6:]))
        elif line.startswith("exh-summary"):
            m = re.search(r"cases=(\d+) joined=(\d+)", line)
            cases, joined = int(m.group(1)), int(m.group(2))
        elif line.startswith("apifeat "):
            pass
        elif line.strip():
            anomalies.append(line)
    # group blocks into files of ~40000 cases
    files = []
    cur, ncur = [], 0
    for b in blocks:
        cur.append(b)
        ncur += b[4]
        if ncur >= 32768:
            files.append(cur)
            cur, ncur = [], 0
    if cur:
        files.append(cur)
    jobs = []
    for fi, bl in enumerate(files):
        body = HDR
        names = []
        for bi, b in enumerate(bl):
            ws = b[5]
            chunks = [ws[i:i + 2000] for i in range(0, len(ws), 2000)]
            cn = []
            for ci, ch in enumerate(chunks):
                body += "Definition w%d_%d : list int := [%s]%%uint63.\n" % (bi, ci, "; ".join(ch))
                cn.append("w%d_%d" % (bi, ci))
            body += "Definition b%d : blockT := (%d, %d, %d, %d, %d, %s).\n" % (
                bi, b[0], b[1], b[2], b[3], b[4], " ++ ".join(cn) or "@nil int")
            names.append("b%d" % bi)
        body += "Definition blocks : list blockT := [%s].\n" % "; ".join(names)
        body += "Definition F : list (option N) := %s.\n" % F
        body += "Eval vm_compute in (check_blocks %s (blk_spec F) blocks 0).\n" % ("(blk_spec F)" if api_script else "blk_model")
        jobs.append(("c11_%s_%d" % (tag, fi), body))
    res = C.coq_eval_many(jobs, timeout=1500)
    mf, sf, broken = [], [], []
    for fi, bl in enumerate(files):
        o = res.get("c11_%s_%d" % (tag, fi))
        if isinstance(o, Exception):
            broken.append({"what": "cases-file-failed", "file": "c11_%s_%d" % (tag, fi), "error": str(o)[-600:]})
            continue
        ls = C.parse_eval_lists(o)
        if len(ls) != 1:
            broken.append({"what": "no-answer", "file": "c11_%s_%d" % (tag, fi)})
            continue
        l = ls[0]
        for k in range(0, len(l) - 1, 2):
            b = bl[l[k]]
            (sf if l[k + 1] % 2 else mf).append((b[0], b[1], b[2], l[k + 1] // 2))
    chk.add_eval((1 if api_script else 2) * cases, joined)
    chk.note(("public_api_generated_font_" + api_script) if api_script else "exhaustive_enumeration" if nctx == 9 else "exhaustive_contexts_of_length_2",
             {"max_text_length": maxlen, "alphabet": REP_NAMES, "contexts": "every pre/post context of length 0 or 1" if nctx == 9 else "every pre/post context of length 0, 1 or 2",
                            "sequences": cases, "with_a_joined_form": joined, "cases_files": len(files)})
    return mf, sf, anomalies, broken


def parse_semis(line):
    return [x.split() for x in line.split(" ; ")]


def random_cases(chk, binp, n, F, maxctx, tag):
    out = rbv(binp, ["random", "--seed", str(chk.seed), "--n", str(n), "--maxctx", str(maxctx)])
    cases = []
    for line in out.splitlines():
        if not line.startswith("rand "):
            continue
        f = parse_semis(line[5:])
        if len(f) != 7:
            f += [[]] * (7 - len(f))
        obs = None if f[6][:1] == ["panic"] else [int(x) for x in f[6]]
        cases.append({"pre": [int(x) for x in f[0]], "text": [int(x) for x in f[1]], "post": [int(x) for x in f[2]],
                      "cp": [int(x) for x in f[3]], "ct": [int(x) for x in f[4]], "cq": [int(x) for x in f[5]], "obs": obs})
    jobs = []
    shard = 1000
    for i in range(0, len(cases), shard):
        items = ["(%s, %s, %s, %s)" % (nlist(c["cp"]), nlist(c["ct"]), nlist(c["cq"]),
                                       "Some " + nlist(c["obs"]) if c["obs"] is not None else "None") for c in cases[i:i + shard]]
        body = HDR + "Definition cases : list rcase := [\n%s].\n" % ";\n".join(items)
        body += "Definition F : list (option N) := %s.\n" % F
        body += "Eval vm_compute in (failing check_rand_model cases).\n"
        if maxctx <= 5:
            body += "Eval vm_compute in (failing (check_rand_spec F) cases).\n"
        jobs.append(("c11_%s_%d" % (tag, i // shard), body))
    res = C.coq_eval_many(jobs)
    mf, sf, broken = [], [], []
    for name, o in sorted(res.items()):
        base = int(name.rsplit("_", 1)[1]) * shard
        if isinstance(o, Exception):
            broken.append({"what": "cases-file-failed", "file": name, "error": str(o)[-600:]})
            continue
        ls = C.parse_eval_lists(o)
        if not ls:
            broken.append({"what": "no-answer", "file": name})
            continue
        mf += [cases[base + k] for k in ls[0]]
        if len(ls) > 1:
            sf += [cases[base + k] for k in ls[1]]
    nontriv = sum(1 for c in cases if c["obs"] and any(1 <= a <= 6 for a in c["obs"]))
    chk.add_eval((2 if maxctx <= 5 else 1) * len(cases), nontriv)
    if cases:
        c = cases[len(cases) // 2]
        chk.sample({"random_sequence_" + tag: {"pre": hexs(c["pre"]), "text": hexs(c["text"]), "post": hexs(c["post"]), "actions": c["obs"]}})
    return mf, sf, broken, len(cases)


def use_script_cases(chk, binp, n):
    """Joining scripts shaped by the Universal Shaping Engine's Arabic-joining pass (N'Ko, Mandaic, Adlam, Manichaean,
    Psalter Pahlavi, Hanifi Rohingya, Sogdian, Old Uyghur, Chorasmian; Syriac as a control): random sequences with
    contexts through the PUBLIC API on a generated font per script (one private lookup per positional feature, and a
    layout in which init and medi share a lookup), judged by the specification predicate of the model."""
    out = rbv(binp, ["use-scripts", "--seed", str(chk.seed), "--n", str(n)], timeout=900)
    F = "[%s; None]" % "; ".join("Some " + l.split()[2] for l in out.splitlines() if l.startswith("apifeat "))
    cases, anomalies = [], []
    for line in out.splitlines():
        if line.startswith("use "):
            head, rest = line[4:].split(" ; ", 1)
            f = parse_semis(rest)
            if len(f) != 7:
                f += [[]] * (7 - len(f))
            if f[6][:1] == ["panic"]:
                anomalies.append(line[:400])
                continue
            script, shared, _k = head.split()
            cases.append({"script": script, "shared": shared == "1", "pre": [int(x) for x in f[0]], "text": [int(x) for x in f[1]], "post": [int(x) for x in f[2]],
                          "cp": [int(x) for x in f[3]], "ct": [int(x) for x in f[4]], "cq": [int(x) for x in f[5]], "obs": [int(x) for x in f[6]]})
        elif line.startswith("anomaly"):
            anomalies.append(line[:400])
    jobs = []
    shard = 1500
    for i in range(0, len(cases), shard):
        items = ["(%s, %s, %s, Some %s)" % (nlist(c["cp"]), nlist(c["ct"]), nlist(c["cq"]), nlist(c["obs"])) for c in cases[i:i + shard]]
        body = HDR + "Definition cases : list rcase := [\n%s].\n" % ";\n".join(items)
        body += "Definition F : list (option N) := %s.\n" % F
        body += "Eval vm_compute in (failing (check_rand_spec F) cases).\n"
        jobs.append(("c11_use_%d" % (i // shard), body))
    res = C.coq_eval_many(jobs)
    sf, broken = [], []
    for name, o in sorted(res.items()):
        base = int(name.rsplit("_", 1)[1]) * shard
        if isinstance(o, Exception):
            broken.append({"what": "cases-file-failed", "file": name, "error": str(o)[-600:]})
            continue
        ls = C.parse_eval_lists(o)
        if not ls:
            broken.append({"what": "no-answer", "file": name})
            continue
        sf += [cases[base + k] for k in ls[0]]
    nontriv = sum(1 for c in cases if any(1 <= a <= 6 for a in c["obs"]))
    chk.add_eval(len(cases), nontriv)
    chk.note("use_joining_scripts", {"cases": len(cases), "joined": nontriv, "scripts": sorted({c["script"] for c in cases}), "failing": len(sf), "anomalies": len(anomalies)})
    return sf, anomalies, broken


def mask_cases(chk, binp, n):
    out = rbv(binp, ["masks", "--seed", str(chk.seed), "--n", str(n)])
    cases, raw = [], []
    for line in out.splitlines():
        if not line.startswith("mask "):
            continue
        f = parse_semis(line[5:])
        f += [[]] * (7 - len(f))
        obs = "None" if f[5][:1] == ["panic"] else "Some " + nlist(f[5])
        cases.append("(%s, %s, %s, %s, %s, %s)" % (nlist(f[0]), nlist(f[1]), nlist(f[2]), nlist(f[3]), nlist(f[4]), obs))
        raw.append(line)
    jobs = []
    for i in range(0, len(cases), 1000):
        body = HDR + "Definition cases : list mcase := [\n%s].\n" % ";\n".join(cases[i:i + 1000])
        body += "Eval vm_compute in (failing check_mask cases).\n"
        jobs.append(("c11_mask_%d" % (i // 1000), body))
    res = C.coq_eval_many(jobs)
    dis = []
    for name, o in sorted(res.items()):
        base = int(name.rsplit("_", 1)[1]) * 1000
        if isinstance(o, Exception):
            dis.append({"what": "cases-file-failed", "file": name, "error": str(o)[-600:]})
            continue
        ls = C.parse_eval_lists(o)
        if not ls:
            dis.append({"what": "no-answer", "file": name})
        for k in (ls[0] if ls else []):
            dis.append({"what": "masks-differ", "case": raw[base + k],
                        "format": "mask_array ; pre classes ; text classes ; post classes ; masks before ; masks after (glyph-flag bits cleared) ; text code points"})
    chk.add_eval(len(cases), len(cases))
    if raw:
        chk.sample({"mask_case": raw[0]})
    return dis


def type_cases(chk, binp):
    out = rbv(binp, ["types"])
    runs = []
    dis = []
    for line in out.splitlines():
        p = line.split()
        if p and p[0] == "type":
            runs.append([int(x) for x in p[1:6]])
    # the runs must cover every scalar value: 0..0xD7FF and 0xE000..0x10FFFF
    pos = 0
    for r in runs:
        if pos == 0xD800:
            pos = 0xE000
        if r[0] != pos:
            dis.append({"what": "joining-type-runs-gap", "at": pos})
            break
        pos = r[1] + 1
    if pos != 0x110000 and not dis:
        dis.append({"what": "joining-type-runs-incomplete", "end": pos})
    body = HDR + "Definition cases : list tcase := [\n%s].\n" % ";\n".join("(%d, %d, %d, %d, %d)" % tuple(r) for r in runs)
    body += "Eval vm_compute in (failing check_type cases).\n"
    try:
        ls = C.parse_eval_lists(C.coq_eval("c11_types", body))
        for k in (ls[0] if ls else []):
            dis.append({"what": "joining-type-differs", "run(lo,hi,table,gc_mn_me_cf,final)": runs[k]})
        if not ls:
            dis.append({"what": "no-answer", "file": "c11_types"})
    except Exception as ex:  # noqa
        dis.append({"what": "cases-file-failed", "file": "c11_types", "error": str(ex)[-600:]})
    chars = sum(r[1] - r[0] + 1 for r in runs)
    chk.add_eval(chars, sum(r[1] - r[0] + 1 for r in runs if r[4] != 0))
    chk.note("joining_type_exhaustive", {"code_points": chars, "runs": len(runs)})
    return dis


def search_model_vs_spec(minlen, maxlen):
    """Shortest class sequence (text length in minlen..maxlen, contexts of length 0/1) on which the automaton over the
    current table differs from the specification; evaluated by vm_compute, one job per (length, pre-context)."""
    jobs = []
    for n in range(minlen, maxlen + 1):
        for p in range(9):
            body = HDR + "Eval vm_compute in (search_pairs %d [%s]).\n" % (n, "; ".join("(%d, %d)" % (p, q) for q in range(9)))
            jobs.append(("c11_search_%d_%d" % (n, p), body))
    res = C.coq_eval_many(jobs, timeout=1200)
    found = []
    errs = []
    for name, o in res.items():
        if isinstance(o, Exception):
            errs.append(str(o)[-300:])
            continue
        ls = C.parse_eval_lists(o)
        if ls and len(ls[0]) == 4:
            found.append(tuple(ls[0]))
    if found:
        n, p, q, idx = min(found, key=lambda f: (f[0] + len(ctx_of(f[1])) + len(ctx_of(f[2])), f))
        return {"n": n, "pre": p, "post": q, "idx": idx}
    if errs:
        return {"error": errs[0]}
    return None


def exh_to_cps(f):
    n, p, q, idx = f
    return [REPS[k] for k in ctx_of(p)], [REPS[k] for k in seq_of(n, idx)], [REPS[k] for k in ctx_of(q)]


def run(chk):
    thorough = chk.tier == "thorough"
    maxlen = 6 if thorough else 4
    chk.cov["rule"] = ("hook correspondence on the real arabic_joining: EXHAUSTIVE over the 8 class representatives (U L R D C T ALAPH DALATH/RISH) "
                       "for every text of length <= %d with every pre-/post-context of length 0 or 1, random longer texts with contexts up to 5 "
                       "(and up to 8 for the model) over representatives, random characters of the joining blocks, marks and others; "
                       "setup_masks_inner with random mask arrays; get_joining_type on every code point (as runs). Each implementation output is "
                       "compared with the Coq model (model vs implementation) and with the specification at feature level (property predicate). "
                       "Public API: the same exhaustive enumeration (Syriac <= %d, Arabic <= %d) through rustybuzz::shape on a generated font, glyph ids "
                       "decoded to forms and compared with the specification. "
                       "non-trivial = the sequence contains at least one joined form (init/medi/fina/fin2/fin3/med2); for joining types: characters "
                       "whose class is not U" % ((maxlen,) + ((5, 4) if thorough else (4, 3))))
    pr = chk.prove(extra_targets=["Corr/JoiningC.vo"])
    C.log("C11: proofs done %.1fs" % (time.time() - chk.t0))
    acts, jts = gen_numbers()
    broken = []
    if chk.guards_failed:
        broken += ["translator-guard:%s (%s)" % g for g in chk.guards_failed]
    if not pr["ok"]:
        broken += ["proof:" + f for f in pr["failed"]]
        # the evaluators do not depend on the proofs: build them on their own
        okc, logc = C.coq_make(["Corr/JoiningC.vo"])
        if not okc:
            broken.append("corr-build-failed: " + logc[-400:])
    ok, binp, blog = C.cargo_build("release", hooks=True)
    C.log("C11: harness built %.1fs" % (time.time() - chk.t0))
    dis, fails = [], []
    if not ok:
        broken.append("hook-build-failed: " + blog[-600:])
    else:
        # ---- representatives and numbering
        reps = {}
        for line in rbv(binp, ["reps"]).splitlines():
            p = line.split()
            if p[0] == "rep":
                reps[int(p[1])] = (int(p[3]), int(p[4]))
            elif p[0] == "context_capacity":
                chk.note("context_capacity_impl", int(p[1]))
        try:
            ls = C.parse_eval_lists(C.coq_eval("c11_alpha", HDR + "Eval vm_compute in alphabet_codes.\nEval vm_compute in [context_length].\n"))
            for i in range(8):
                if reps.get(i) != (REPS[i], ls[0][i]):
                    dis.append({"what": "representative-class-differs", "class": REP_NAMES[i], "char": "U+%04X" % REPS[i],
                                "implementation": reps.get(i), "model_code": ls[0][i]})
            if ls[1][0] != chk.notes.get("context_capacity_impl"):
                dis.append({"what": "context-length-differs", "translator": ls[1][0], "implementation": chk.notes.get("context_capacity_impl")})
        except Exception as ex:  # noqa
            broken.append("alphabet-eval-failed: " + str(ex)[-300:])
        F = feat_table(binp)
        # ---- exhaustive
        mf, sf, anomalies, br = exhaustive(chk, binp, maxlen, F)
        C.log("C11: exhaustive done %.1fs" % (time.time() - chk.t0))
        mfb, sfb, anb, brb = exhaustive(chk, binp, 3 if thorough else 2, F, nctx=73, tag="exh2")
        C.log("C11: exhaustive (contexts of length 2) done %.1fs" % (time.time() - chk.t0))
        mf, sf, anomalies, br = mf + mfb, sf + sfb, anomalies + anb, br + brb
        dis += br
        for a in anomalies[:5]:
            fails.append({"what": "implementation-anomaly", "input": a, "note": "panic or an action outside 0..7 from arabic_joining"})
        sf.sort(key=lambda f: (f[0] + len(ctx_of(f[1])) + len(ctx_of(f[2])), f[0], f[1], f[2], f[3]))
        mf.sort(key=lambda f: (f[0] + len(ctx_of(f[1])) + len(ctx_of(f[2])), f[0], f[1], f[2], f[3]))
        for f in sf[:3]:
            p, t, q = exh_to_cps(f)
            d = describe(binp, p, t, q, acts)
            d.update({"what": "positional-form-differs-from-unicode-rules",
                      "classes": {"pre": [REP_NAMES[k] for k in ctx_of(f[1])], "text": [REP_NAMES[k] for k in seq_of(f[0], f[3])],
                                  "post": [REP_NAMES[k] for k in ctx_of(f[2])]}})
            fails.append(d)
        chk.note("exhaustive_spec_failures", len(sf))
        for f in mf[:3]:
            p, t, q = exh_to_cps(f)
            dis.append({"what": "model-differs-from-implementation", "pre": hexs(p), "text": hexs(t), "post": hexs(q)})
        # ---- public API on a generated font (isol/fina/fin2/fin3/medi/med2/init map each letter to a distinct glyph per form)
        for script, ml in (("syrc", 5 if thorough else 4), ("arab", 4 if thorough else 3)):
            _, sfa, ana, bra = exhaustive(chk, binp, ml, None, tag="api_" + script, api_script=script)
            dis += bra
            for a in ana[:3]:
                fails.append({"what": "public-api-anomaly", "input": a, "script": script,
                              "note": "panic, unexpected glyph or cluster from rustybuzz::shape on the generated font (n pre post index ...)"})
            sfa.sort(key=lambda f: (f[0] + len(ctx_of(f[1])) + len(ctx_of(f[2])), f[0], f[1], f[2], f[3]))
            for f in sfa[:2]:
                p, t, q = exh_to_cps(f)
                d = describe(binp, p, t, q, acts)
                o = rbv(binp, ["apirun", script, hexs(p), hexs(t), hexs(q)])
                d["public_api_features"] = o.split()[1:]
                d["script"] = script
                d["differs"] = d["public_api_features"] != d.get("specification_features")
                d["replay_cmd"] = "rbv c11 apirun %s %s %s %s" % (script, hexs(p), hexs(t), hexs(q))
                d["what"] = "public-api-form-differs-from-unicode-rules"
                d["note"] = "glyphs chosen by rustybuzz::shape on the generated font (each positional feature maps each letter to its own glyph) against the specified forms"
                fails.append(d)
        sfu, anu, bru = use_script_cases(chk, binp, 1200 if thorough else 250)
        dis += bru
        for a in anu[:3]:
            fails.append({"what": "public-api-anomaly", "input": a, "note": "panic or unexpected glyph/cluster from rustybuzz::shape on a generated font of a USE joining script"})
        for c in sfu[:3]:
            fails.append({"what": "use-script-form-differs-from-unicode-rules", "script": c["script"], "init_and_medi_share_a_lookup": c["shared"],
                          "pre": hexs(c["pre"]), "text": hexs(c["text"]), "post": hexs(c["post"]),
                          "joining_types": {"pre": c["cp"], "text": c["ct"], "post": c["cq"]},
                          "observed_feature_index_per_character": c["obs"],
                          "note": "index into [isol fina fin2 fin3 medi med2 init], 7 = nominal glyph; generated font per script (harness/src/c11.rs use_font)",
                          "replay_cmd": "rbv c11 use-scripts --seed <seed> --n <n> | grep '^use %s'" % c["script"]})
        C.log("C11: public API done %.1fs" % (time.time() - chk.t0))
        # ---- random longer
        nr = 10000 if thorough else 3000
        mf2, sf2, br2, n1 = random_cases(chk, binp, nr, F, 5, "rand")
        mf3, _, br3, n2 = random_cases(chk, binp, nr // 3, F, 8, "randlong")
        dis += br2 + br3
        chk.note("random_sequences", {"contexts<=5": n1, "contexts<=8 (model only)": n2})
        for c in sf2[:2]:
            d = describe(binp, c["pre"], c["text"], c["post"], acts)
            d["what"] = "positional-form-differs-from-unicode-rules"
            fails.append(d)
        for c in (mf2 + mf3)[:3]:
            dis.append({"what": "model-differs-from-implementation", "pre": hexs(c["pre"]), "text": hexs(c["text"]), "post": hexs(c["post"]),
                        "classes": [c["cp"], c["ct"], c["cq"]], "implementation_actions": c["obs"]})
        C.log("C11: random done %.1fs" % (time.time() - chk.t0))
        # ---- masks, joining types
        dis += mask_cases(chk, binp, 3000 if thorough else 800)
        dis += type_cases(chk, binp)
    # ---- proof broken (or tie broken): look for the shortest sequence on which automaton and specification differ,
    #      and run it on the real code
    if (broken or dis) and ok:
        s = search_model_vs_spec(0, 4)
        if s is None and not pr["ok"]:
            s = search_model_vs_spec(5, 6 if thorough else 5)
        chk.note("model_vs_spec_search", s if s else "no disagreement up to the searched length")
        if s and "n" in s:
            p, t, q = exh_to_cps((s["n"], s["pre"], s["post"], s["idx"]))
            d = describe(binp, p, t, q, acts)
            d["classes"] = {"pre": [REP_NAMES[k] for k in ctx_of(s["pre"])], "text": [REP_NAMES[k] for k in seq_of(s["n"], s["idx"])],
                            "post": [REP_NAMES[k] for k in ctx_of(s["post"])]}
            d["broken"] = broken
            impl_bad = d.get("differs", True)
            d["what"] = "automaton-differs-from-specification"
            d["broken"] = broken
            if impl_bad:
                d["note"] = "the shortest class sequence on which the table-driven automaton (current STATE_TABLE) and the specification differ; the real code, run on it through the hook, also differs from the specification"
                if not any(x.get("text") == d["text"] and x.get("pre") == d["pre"] and x.get("post") == d["post"] for x in fails):
                    fails.insert(0, d)
            else:
                dis.append(d)
    chk.note("correspondence_disagreements", len(dis))
    seen = set()
    for f in fails:
        f.setdefault("also_broken", broken)
        key = (str(f.get("pre")), str(f.get("text")), str(f.get("post")), f.get("input"))
        if key in seen:
            continue
        seen.add(key)
        if len(seen) > 4:
            break
        chk.violation(f["what"], f)
    if not fails and (broken or dis):
        chk.violation("tie-or-proof-broken", {"broken": broken, "disagreements": dis[:10],
                      "note": "theorems of Props/C11.v, a translator guard or the model/implementation correspondence no longer check; "
                              "the property predicate (specification vs implementation) found no failing input on the explored domain"},
                      no_input=True)
    chk.assumptions = [
        "theorems are about the Gallina model of arabic_joining / setup_masks_inner; model == code is checked by correspondence on the cases of this run (exhaustive on the stated finite domain), not proved",
        "the character -> joining class table (ot_shaper_arabic_table.rs, generated from ArabicShaping.txt) is trusted data: no independent copy of ArabicShaping.txt is available offline; the check compares the translator's reading of the table with the code's lookup on every code point, not the table with Unicode",
        "join-causing characters (C: TATWEEL, ZWJ) are stored as D in the crate's table and shaped as dual-joining; non-joining (U) and transparent characters get no positional feature (NONE), as in HarfBuzz",
        "contexts: the buffer keeps 5 characters on each side (CONTEXT_LENGTH); 'context acts as text' is stated for contexts of up to 5 characters, C11_context_window for longer ones",
        "mask_array[i] = 1-mask of ARABIC_FEATURES[i] (data_create_arabic) and the feature application itself are outside the Coq model; they are covered by the public-API enumeration on the generated font (glyph chosen per letter against the specified form) and by Props/C11_feature_of_action for the ARABIC_FEATURES order; Mongolian variation-selector copying is outside the model",
    ]
    chk.cov["trusted_base"] = C.DEFAULT_TRUSTED_BASE + [
        "hooks: src/hb/ot_shaper_arabic.rs verif_arabic_joining / verif_get_joining_type / verif_action_feature / verif_setup_masks and src/hb/verif/joining.rs (buffer construction with context, init_unicode_props)",
        "Coq primitive 63-bit integers (Uint63) in the cases files, used only to unpack the implementation's packed action streams",
    ]


def replay(chk, path):
    import json
    body = json.load(open(path))
    print(json.dumps(body, indent=1))
    ok, binp, _ = C.cargo_build("release", hooks=True)
    if not ok or "text" not in body:
        return 1
    C.translate()
    C.coq_make(["Corr/JoiningC.vo"])
    acts, _ = gen_numbers()
    cp = lambda l: [int(x[2:], 16) for x in l]
    d = describe(binp, cp(body.get("pre", [])), cp(body["text"]), cp(body.get("post", [])), acts)
    print("NOW:", json.dumps(d, indent=1))
    bad = d.get("differs", True)
    if body.get("script") and "public_api_features" in body:
        o = rbv(binp, ["apirun", body["script"], hexs(cp(body.get("pre", []))), hexs(cp(body["text"])), hexs(cp(body.get("post", [])))])
        print("NOW (public API):", o.strip())
        bad = o.split()[1:] != d.get("specification_features")
    print("STILL FAILING" if bad else "no longer failing")
    return 1 if bad else 0
