"""C12 — Hangul syllables compose/decompose by Unicode arithmetic, per font support.
Proof: Props/C12.v over Model/Hangul.v (statement-level model of preprocess_text_hangul and of the
buffer primitives it calls) with constants/ranges regenerated from ot_shaper_hangul.rs, unicode.rs,
buffer.rs (translator/tr_hangul.py).
Tie: (1) hook correspondence: the eight range predicates exhaustively over all code points,
compose_hangul/decompose_hangul on the whole syllable range, and the REAL preprocess_text_hangul run on
generated fonts (cmap + GSUB ljmo/vjmo/tjmo) against the model (vm_compute) on the same texts:
characters, clusters, hangul_shaping_feature and glyph-flag bit of every output glyph.
(2) implementation-level search through the public API (rustybuzz::shape): the expected rendering of
every structured text is computed here by the property's arithmetic (S = 0xAC00 + (l*21+v)*28+t), roles
are observed through the GSUB of the generated font, one cluster per syllable at level 0.
A difference in (2) is a VIOLATION with the font variant + text as replay."""
import json
import os
import random

import common as C

LEVEL = "proof"

SB, LB, VB, TB = 0xAC00, 0x1100, 0x1161, 0x11A7
LC, VC, TC = 19, 21, 28
NC = VC * TC
SC = LC * NC
TONES = (0x302E, 0x302F)
DOTTED = 0x25CC

HDR = ("From Coq Require Import List NArith Bool.\n"
       "From RB Require Import Gen.HangulConsts Model.Hangul Corr.Common Corr.HangulC.\n"
       "Import ListNotations.\nLocal Open Scope N_scope.\n")


# ------------------------------------------------------------------ font variants (mirror of c12.rs / HangulC.v)

def mix(seed, cp):
    x = (cp + (seed * 7919)) & 0xFFFFFFFF
    x = (x * 2654435761) & 0xFFFFFFFF
    return (x >> 20) & 3


def is_jamo(cp):
    return 0x1100 <= cp <= 0x11FF or 0xA960 <= cp <= 0xA97C or 0xD7B0 <= cp <= 0xD7C6 or 0xD7CB <= cp <= 0xD7FB


def is_syl(cp):
    return SB <= cp < SB + SC


class Font:
    def __init__(self, kind, seed, tone, dotted, shared=0):
        # shared: GSUB layout in which vjmo and tjmo reference one common lookup (tjmo adds a second one); every
        # role shows the same glyphs as in the layout with one private lookup per feature
        self.kind, self.seed, self.tone, self.dotted, self.shared = kind, seed, tone, dotted, shared

    def key(self):
        return (self.kind, self.seed, self.tone, int(self.dotted), int(self.shared))

    def present(self, role):
        """does the font have the feature that shows `role` (1 ljmo, 2 vjmo, 3 tjmo)? Layouts 2..4 lack some."""
        if role == 0:
            return True
        return {2: role == 3, 3: role in (2, 3), 4: role == 1}.get(self.shared, True)

    def has(self, cp):
        if 0x61 <= cp <= 0x65:
            return True
        if cp == DOTTED:
            return bool(self.dotted)
        if cp in TONES:
            return self.tone != 0
        if is_jamo(cp):
            return {0: True, 1: True, 2: False}.get(self.kind, mix(self.seed, cp) != 0)
        if is_syl(cp):
            return {0: True, 2: True, 1: False}.get(self.kind, mix(self.seed, cp) & 1 == 0)
        return False

    def zw(self, cp):
        return cp in TONES and self.tone == 2

    def coq(self):
        return "(%d, %d, %d, %s)" % (self.kind, self.seed, self.tone, "true" if self.dotted else "false")

    def req(self):
        return "font %d %d %d %d %d" % self.key()

    def describe(self):
        return {"kind": ["syllables+jamo", "jamo only", "syllables only", "mixed (seeded)"][self.kind], "seed": self.seed,
                "tone_marks": ["absent", "advance 1000", "advance 0"][self.tone], "dotted_circle": bool(self.dotted),
                "gsub_layout": ["one lookup per feature", "vjmo and tjmo share a lookup", "tjmo only", "tjmo and vjmo only", "ljmo only"][self.shared]}


# ------------------------------------------------------------------ the property's oracle (per item)
# ranges as the Unicode standard / the property text give them (NOT read from the source)
def u_is_l(c):
    return 0x1100 <= c <= 0x115F or 0xA960 <= c <= 0xA97C


def u_is_v(c):
    return 0x1160 <= c <= 0x11A7 or 0xD7B0 <= c <= 0xD7C6


def u_is_t(c):
    return 0x11A8 <= c <= 0x11FF or 0xD7CB <= c <= 0xD7FB


def comb_l(c):
    return LB <= c < LB + LC


def comb_v(c):
    return VB <= c < VB + VC


def comb_t(c):
    return TB < c < TB + TC


def g(font, cp, role=0):
    """what the generated font shows for a character carrying `role`: notdef (0,0) when unmapped"""
    return (cp, role) if font.has(cp) else (0, 0)


def item_chars(item):
    k = item[0]
    if k == "S":
        return [item[1]]
    if k == "J":      # jamo sequence L V [T]
        return [c for c in item[1:] if c]
    if k == "ST":     # LV syllable + trailing jamo
        return [item[1], item[2]]
    if k == "X":      # any single other character
        return [item[1]]
    raise ValueError(item)


KNOWN_CLASS = "lv_t_unsupported_lv"


def in_known_class(font, item):
    """<LV,T> where the font maps neither LV nor LV+T but maps L and V: the code decomposes LV but leaves T
    out of the syllable (`if has_glyph && tindex == 0` guards the inclusion of T)."""
    if item[0] != "ST":
        return False
    lv, t = item[1], item[2]
    si = lv - SB
    l, v = LB + si // NC, VB + (si % NC) // TC
    if comb_t(t) and font.has(lv + (t - TB)):
        return False
    return (not font.has(lv)) and font.has(l) and font.has(v)


def expect_item(font, item, as_implemented=False):
    """-> (glyphs [(cp, role)], syl, split) where syl = number of trailing glyphs forming the most recent
    recognized syllable (0: none) — the base a following tone mark is moved in front of — and split = number
    of leading glyphs that stay in the first character's cluster when the item is NOT one syllable (None: the
    item is one cluster).  as_implemented=True gives, for the known class only, what the code does."""
    k = item[0]
    if k == "X":
        return [g(font, item[1])], 0, None
    if k == "S":
        s = item[1]
        si = s - SB
        l, v, t = LB + si // NC, VB + (si % NC) // TC, TB + si % TC
        if font.has(s):
            return [(s, 0)], 1, None
        if si % TC == 0:
            if font.has(l) and font.has(v):
                return [(l, 1), (v, 2)], 2, None
            return [(0, 0)], 0, None
        if font.has(l) and font.has(v) and font.has(t):
            return [(l, 1), (v, 2), (t, 3)], 3, None
        # not the Hangul shaper any more: the normalizer's generic fallback splits LVT into LV + T
        if font.has(s - si % TC) and font.has(t):
            return [(s - si % TC, 0), (t, 0)], 0, None
        return [(0, 0)], 0, None
    if k == "J":
        l, v, t = item[1], item[2], item[3]
        if comb_l(l) and comb_v(v) and (not t or comb_t(t)):
            s = SB + ((l - LB) * VC + (v - VB)) * TC + ((t - TB) if t else 0)
            if font.has(s):
                return [(s, 0)], 1, None
        out = [g(font, l, 1), g(font, v, 2)] + ([g(font, t, 3)] if t else [])
        return out, len(out), None
    if k == "ST":
        lv, t = item[1], item[2]
        si = lv - SB
        l, v = LB + si // NC, VB + (si % NC) // TC
        if comb_t(t) and font.has(lv + (t - TB)):
            return [(lv + (t - TB), 0)], 1, None
        if font.has(l) and font.has(v):
            if as_implemented and not font.has(lv):
                return [(l, 1), (v, 2), g(font, t, 0)], 0, 2
            return [(l, 1), (v, 2), g(font, t, 3)], 3, None
        return [g(font, lv), g(font, t)], 0, 1
    raise ValueError(item)


def expect_text(font, items, level, nd, clusters, as_implemented=False):
    """items: list of (item, tone or 0); clusters: per input character (strictly increasing).
    Returns the expected API result as a list of (cp, role, cluster or None); None = no claim.
    Clusters are claimed at level 0 only (the property's level): every syllable, together with a tone
    mark attached to it, shows ONE cluster, the minimum of its characters' clusters.  The only item
    that is not one syllable is <LV,T> whose LV can be neither composed with T nor decomposed: LV and T
    then stay two clusters (a tone mark after it is a mark on T: the general grapheme rule)."""
    out = []
    pos = 0
    for item, tone in items:
        chars = item_chars(item)
        n = len(chars) + (1 if tone else 0)
        cls = clusters[pos:pos + n]
        glyphs, syl, split = expect_item(font, item, as_implemented)
        ng = len(glyphs)
        if tone:
            tg = g(font, tone)
            if syl and not font.zw(tone):
                glyphs = glyphs[:ng - syl] + [tg] + glyphs[ng - syl:]
            elif syl:
                glyphs = glyphs + [tg]
            elif not nd and font.has(DOTTED):
                glyphs = glyphs + ([tg, (DOTTED, 0)] if not font.zw(tone) else [(DOTTED, 0), tg])
            else:
                glyphs = glyphs + [tg]
        if level != 0:
            out += [(a, b, None) for a, b in glyphs]
        elif split is not None:
            out += [(a, b, cls[0]) for a, b in glyphs[:split]] + [(a, b, cls[1]) for a, b in glyphs[split:]]
        else:
            out += [(a, b, min(cls)) for a, b in glyphs]
        pos += n
    return out


# ------------------------------------------------------------------ case generation

def syl_of(l, v, t):
    return SB + (l * VC + v) * TC + t


def boundary(l, v, t):
    return (l in (0, LC - 1)) + (v in (0, VC - 1)) + (t in (0, 1, TC - 1)) >= 2


OLD_L = list(range(0x1113, 0x1160)) + list(range(0xA960, 0xA97D))
OLD_V = [0x1160] + list(range(0x1176, 0x11A8)) + list(range(0xD7B0, 0xD7C7))
OLD_T = list(range(0x11C3, 0x1200)) + list(range(0xD7CB, 0xD7FC))
EDGE_L = [0x1100, 0x1112, 0x1113, 0x115F, 0xA960, 0xA97C]
EDGE_V = [0x1160, 0x1161, 0x1175, 0x1176, 0x11A7, 0xD7B0, 0xD7C6]
EDGE_T = [0, 0x11A8, 0x11C2, 0x11C3, 0x11FF, 0xD7CB, 0xD7FB]
NEAR = [0x10FF, 0x115E, 0x1200, 0xA95F, 0xA97D, 0xA97F, 0xD7A3, 0xD7A4, 0xD7AF, 0xD7C7, 0xD7CA, 0xD7FC, 0xABFF, 0x61]


def clusters_for(rng, n, mode):
    """cluster numbering per character: 0 increasing by one from a base, 1 increasing with gaps,
    2 with equal neighbours, 3 decreasing, 4 arbitrary"""
    base = rng.randrange(0, 50)
    if mode == 0:
        return [base + i for i in range(n)]
    if mode == 1:
        out, c = [], base
        for _ in range(n):
            out.append(c)
            c += rng.randrange(1, 4)
        return out
    if mode == 2:
        out, c = [], base
        for _ in range(n):
            out.append(c)
            c += rng.randrange(0, 2)
        return out
    if mode == 3:
        return [base + n - i for i in range(n)]
    return [rng.randrange(0, 6) for _ in range(n)]


def mk_case(items, level, nd, scr, clusters, tag, structured=True):
    chars = []
    for item, tone in items:
        chars += item_chars(item) + ([tone] if tone else [])
    return {"items": items if structured else None, "level": level, "nd": nd, "scr": scr,
            "text": list(zip(chars, clusters)), "tag": tag}


def sweep_cases(rng, font, level, thorough, seed):
    cases = []
    idx = 0
    for l in range(LC):
        for v in range(VC):
            for t in range(TC):
                idx += 1
                if not (thorough or (idx + seed) % 16 == 0 or boundary(l, v, t)):
                    continue
                s = syl_of(l, v, t)
                b = (idx * 7) % 40
                scr = (idx >> 2) & 1
                cases.append(mk_case([(("S", s), 0)], level, 0, scr, [b], "syllable"))
                cases.append(mk_case([(("J", LB + l, VB + v, (TB + t) if t else 0), 0)], level, 0, scr,
                                     [b, b + 1, b + 2][:3 if t else 2], "jamo-sequence"))
                if t:
                    cases.append(mk_case([(("ST", syl_of(l, v, 0), TB + t), 0)], level, 0, scr, [b, b + 1], "LV+T"))
    return cases


def old_cases(rng, level, n_random):
    cases = []
    for l in EDGE_L:
        for v in EDGE_V:
            for t in EDGE_T:
                n = 3 if t else 2
                cases.append(mk_case([(("J", l, v, t), 0)], level, 0, 1, clusters_for(rng, n, 0), "old-jamo-edge"))
    for _ in range(n_random):
        l = rng.choice(OLD_L) if rng.random() < 0.7 else LB + rng.randrange(LC)
        v = rng.choice(OLD_V) if rng.random() < 0.7 else VB + rng.randrange(VC)
        t = rng.choice([0] + OLD_T) if rng.random() < 0.7 else TB + 1 + rng.randrange(TC - 1)
        n = 3 if t else 2
        cases.append(mk_case([(("J", l, v, t), 0)], level, 0, rng.randrange(2), clusters_for(rng, n, rng.randrange(2)), "old-jamo"))
    for _ in range(n_random // 2):
        lv = syl_of(rng.randrange(LC), rng.randrange(VC), 0)
        cases.append(mk_case([(("ST", lv, rng.choice(OLD_T)), 0)], level, 0, 1, clusters_for(rng, 2, 0), "LV+oldT"))
    return cases


def rand_item(rng):
    r = rng.random()
    if r < 0.25:
        return ("S", syl_of(rng.randrange(LC), rng.randrange(VC), rng.choice([0, 0, rng.randrange(TC)])))
    if r < 0.55:
        t = rng.choice([0, TB + 1 + rng.randrange(TC - 1)])
        if rng.random() < 0.2:
            return ("J", rng.choice(OLD_L), rng.choice(OLD_V), rng.choice([0] + OLD_T))
        return ("J", LB + rng.randrange(LC), VB + rng.randrange(VC), t)
    if r < 0.7:
        return ("ST", syl_of(rng.randrange(LC), rng.randrange(VC), 0), TB + 1 + rng.randrange(TC - 1))
    if r < 0.85:
        return ("X", 0x61 + rng.randrange(5))
    return ("X", LB + rng.randrange(LC))        # a lone leading jamo


def tone_cases(rng, level, n):
    cases = []
    fixed = [("S", 0xD55C), ("S", 0xAC00), ("J", 0x1112, 0x1161, 0x11AB), ("J", 0x1100, 0x1161, 0),
             ("J", 0x115F, 0x1160, 0), ("ST", 0xAC00, 0x11A8), ("ST", 0xAC00, 0x11FF), ("X", 0x61), ("X", 0x1100)]
    for it in fixed:
        for tone in TONES:
            for nd in (0, 1):
                k = len(item_chars(it)) + 1
                cases.append(mk_case([(it, tone)], level, nd, 1, clusters_for(rng, k, 0), "tone-after"))
                cases.append(mk_case([(("X", 0x61), 0), (it, tone), (("X", 0x62), 0)], level, nd, 1,
                                     clusters_for(rng, k + 2, 0), "tone-after-in-context"))
    # the script is GUESSED (scr = 0) behind a leading private-use character, which has no script of its own and must not
    # decide the guess: the Hangul run behind it is shaped by the Hangul shaper as if it stood alone
    for it in fixed:
        if it[0] == "X":
            continue
        k = len(item_chars(it)) + 1
        for nd in (0, 1):
            cases.append(mk_case([(("X", 0xE000), 0), (it, 0)], level, nd, 0, clusters_for(rng, k, 0), "guessed-script-behind-private-use"))
    for _ in range(n):
        items = []
        for _ in range(rng.randrange(1, 4)):
            items.append((rand_item(rng), rng.choice([0, 0, TONES[0], TONES[1]])))
        k = sum(len(item_chars(i)) + (1 if t else 0) for i, t in items)
        cases.append(mk_case(items, level, rng.randrange(2), 1, clusters_for(rng, k, rng.choice([0, 0, 1])), "tone-mixture"))
    return cases


def raw_cases(rng, level, n):
    """unstructured sequences (hook vs model only): every kind of Hangul character, tone marks, Latin,
    the dotted circle, near-miss code points; every cluster numbering"""
    alpha = ([LB + i for i in range(LC)] * 2 + [VB + i for i in range(VC)] * 2 + [TB + 1 + i for i in range(TC - 1)] * 2
             + EDGE_L + EDGE_V + EDGE_T[1:] + NEAR + [0x61, 0x62] * 4 + [DOTTED] + list(TONES) * 6)
    cases = []
    # texts that START with a tone mark, and lone tone marks
    for tone in TONES:
        for nd in (0, 1):
            cases.append({"items": None, "level": level, "nd": nd, "scr": 1, "text": [(tone, 3)], "tag": "raw"})
            cases.append({"items": None, "level": level, "nd": nd, "scr": 1, "text": [(tone, 3), (0xAC00, 4)], "tag": "raw"})
            cases.append({"items": None, "level": level, "nd": nd, "scr": 1, "text": [(0xAC00, 1), (tone, 3), (tone, 4)], "tag": "raw"})
    for _ in range(n):
        k = rng.randrange(1, 9)
        chars = []
        while len(chars) < k:
            r = rng.random()
            if r < 0.3:
                chars.append(rng.choice(alpha))
            elif r < 0.55:
                chars.append(syl_of(rng.randrange(LC), rng.randrange(VC), rng.choice([0, 0, rng.randrange(TC)])))
            elif r < 0.8:
                chars += [LB + rng.randrange(LC), VB + rng.randrange(VC)] + ([TB + 1 + rng.randrange(TC - 1)] if rng.random() < 0.5 else [])
            else:
                chars.append(rng.choice(list(TONES) + OLD_L[:4] + OLD_V[:4] + OLD_T[:4]))
        cl = clusters_for(rng, len(chars), rng.randrange(5))
        cases.append({"items": None, "level": level, "nd": rng.randrange(2), "scr": 1, "text": list(zip(chars, cl)), "tag": "raw"})
    return cases


def plan(chk, thorough):
    """-> list of (Font, [cases])"""
    seed = int(chk.seed)
    rng = random.Random(seed * 1000003 + 12)
    fonts = [Font(0, 0, 1, 1), Font(1, 0, 1, 1), Font(2, 0, 2, 1), Font(3, seed % 1000, 1, 1),
             Font(3, seed % 1000 + 1, 2, 0), Font(0, 0, 0, 0), Font(1, 0, 1, 1, 1), Font(3, seed % 1000 + 3, 1, 0, 1),
             Font(1, 0, 1, 1, 2), Font(3, seed % 1000 + 4, 1, 0, 3), Font(1, 0, 0, 0, 4)]
    if thorough:
        fonts += [Font(3, seed % 1000 + 2, 0, 1), Font(1, 0, 2, 0)]
    out = []
    for fi, f in enumerate(fonts):
        cases = []
        levels = (0, 1, 2) if (thorough or fi in (1, 3)) else (0,)
        for lv in levels:
            cases += sweep_cases(rng, f, lv, thorough and lv == 0 or (thorough and fi in (1, 3)), seed + fi)
        for lv in (0, 1, 2):
            cases += old_cases(rng, lv, 600 if thorough else 80)
            cases += tone_cases(rng, lv, 1500 if thorough else 150)
            cases += raw_cases(rng, lv, 4000 if thorough else 400)
        out.append((f, cases))
    return out


# ------------------------------------------------------------------ running the implementation

def parse_hook(s):
    if s.startswith("panic"):
        return None
    out = []
    for it in s.split(","):
        if it:
            a = it.split(":")
            out.append((int(a[0]), int(a[1]), int(a[2]), int(a[3])))
    return out


def parse_api(s):
    if s.startswith("panic"):
        return None
    out = []
    for it in s.split(","):
        if it:
            a = it.split(":")
            out.append((int(a[0]), int(a[1]), int(a[2]), int(a[3])))
    return out


def req_line(c):
    return "t %d %d %d %s" % (c["level"], c["nd"], c["scr"], ",".join("%d:%d" % p for p in c["text"]))


def run_impl(binp, plan_):
    lines = []
    for f, cases in plan_:
        lines.append(f.req())
        lines += [req_line(c) for c in cases]
    rc, out, err = C.run_rbv(binp, ["c12", "run"], stdin="\n".join(lines) + "\n", timeout=1200)
    if rc != 0:
        raise RuntimeError("rbv c12 run failed rc=%d: %s" % (rc, err[-500:]))
    res = out.splitlines()
    anomalies = []
    i = 0
    for f, cases in plan_:
        if i >= len(res) or not res[i].startswith("font-ok") or not res[i].endswith("cmap-mismatches=0"):
            anomalies.append({"what": "generated-font-not-as-specified", "font": f.describe(), "line": res[i] if i < len(res) else ""})
        i += 1
        for c in cases:
            line = res[i] if i < len(res) else "r missing | missing"
            i += 1
            if not line.startswith("r ") or " | " not in line:
                anomalies.append({"what": "bad-answer", "request": req_line(c), "line": line})
                c["hook"], c["api"] = None, None
                continue
            h, a = line[2:].split(" | ")
            c["hook"], c["api"] = parse_hook(h.strip()), parse_api(a.strip())
            c["hook_raw"], c["api_raw"] = h.strip(), a.strip()
    return anomalies


# ------------------------------------------------------------------ model vs implementation (Coq)

def coq_case(c):
    inp = "[" + "; ".join("(%d, %d)" % p for p in c["text"]) + "]"
    if c["hook"] is None:
        obs = "None"
    else:
        obs = "Some [" + "; ".join("(%d, %d, %d, %s)" % (a, b, f, "true" if fl else "false") for a, b, f, fl in c["hook"]) + "]"
    return "(%d, %s, %s, %s)" % (c["level"], "true" if c["nd"] else "false", inp, obs)


def model_vs_hook(chk, plan_):
    dis = []
    jobs = []
    index = {}
    shard = 1000
    for fi, (f, cases) in enumerate(plan_):
        # identical requests need one evaluation
        uniq = {}
        for c in cases:
            if c["hook"] is not None:
                bad = [x for x in c["hook"] if x[3] not in (0, 3)]
                if bad:
                    dis.append({"what": "glyph-flags-not-in-{0,UNSAFE_TO_BREAK|UNSAFE_TO_CONCAT}", "font": f.describe(),
                                "request": req_line(c), "hook": c["hook_raw"]})
            uniq.setdefault((c["level"], c["nd"], tuple(c["text"])), c)
        ul = list(uniq.values())
        for i in range(0, len(ul), shard):
            name = "c12_f%d_%d" % (fi, i // shard)
            body = HDR + "Definition f : fontv := %s.\nDefinition cases : list hcase := [\n%s].\n" % (
                f.coq(), ";\n".join(coq_case(c) for c in ul[i:i + shard]))
            body += "Eval vm_compute in (failing (check_case f) cases).\n"
            jobs.append((name, body))
            index[name] = (f, ul[i:i + shard])
        chk.add_eval(len(cases), len(ul))
    res = C.coq_eval_many(jobs)
    for name, out in sorted(res.items()):
        f, sub = index[name]
        if isinstance(out, Exception):
            dis.append({"what": "cases-file-failed", "file": name, "error": str(out)[-600:]})
            continue
        lists = C.parse_eval_lists(out)
        if not lists:
            dis.append({"what": "no-answer", "file": name})
            continue
        for k in lists[0]:
            c = sub[k]
            dis.append({"what": "model-differs-from-preprocess_text_hangul", "font": f.describe(), "font_request": f.req(),
                        "request": req_line(c), "implementation": c.get("hook_raw"), "tag": c["tag"]})
    return dis


def pure_hooks(chk, binp, thorough):
    """range predicates (exhaustive) and compose/decompose_hangul against the model"""
    dis = []
    rc, out, err = C.run_rbv(binp, ["c12", "preds"])
    if rc != 0:
        return [{"what": "rbv c12 preds failed", "stderr": err[-300:]}], []
    preds = []
    jmo = None
    for line in out.splitlines():
        p = line.split()
        if p[0] == "jmo":
            jmo = p[1:4]
        elif p[0] == "pred":
            rs = [tuple(int(x) for x in r.split("-")) for r in p[2:]]
            preds.append("(%s, [%s])" % (p[1], "; ".join("(%d, %d)" % r for r in rs)))
    body = HDR + "Definition cases : list (N * list (N * N)) := [%s].\n" % ";\n".join(preds)
    body += "Eval vm_compute in (failing check_pred cases).\n"
    body += "Eval vm_compute in ([LJMO; VJMO; TJMO]).\n"
    jobs = [("c12_preds", body)]
    rc, out, err = C.run_rbv(binp, ["c12", "arith"] + (["--full", "1"] if thorough else []))
    decs, comps, raw = [], [], {"dec": [], "comp": []}
    for line in out.splitlines():
        p = line.split()
        if "panic" in p:
            dis.append({"what": "hangul-arithmetic-panics", "line": line})
            continue
        if p[0] == "dec":
            decs.append("(%s, %s, %s)" % tuple(p[1:4]))
            raw["dec"].append(line)
        elif p[0] == "comp":
            comps.append("(%s, %s, %s)" % tuple(p[1:4]))
            raw["comp"].append(line)
    sh = 4000
    for kind, lst in (("dec", decs), ("comp", comps)):
        for i in range(0, len(lst), sh):
            body = HDR + "Definition cases : list (N * N * N) := [\n%s].\n" % ";\n".join(lst[i:i + sh])
            body += "Eval vm_compute in (failing check_%s cases).\n" % kind
            jobs.append(("c12_%s_%d" % (kind, i // sh), body))
    res = C.coq_eval_many(jobs)
    for name, o in sorted(res.items()):
        if isinstance(o, Exception):
            dis.append({"what": "cases-file-failed", "file": name, "error": str(o)[-600:]})
            continue
        lists = C.parse_eval_lists(o)
        if not lists:
            dis.append({"what": "no-answer", "file": name})
            continue
        if name == "c12_preds":
            for k in lists[0]:
                dis.append({"what": "range-predicate-differs", "predicate": k, "hook": preds[k]})
            if len(preds) != 8:
                dis.append({"what": "range-predicate-count", "got": len(preds)})
            if len(lists) < 2 or [str(x) for x in lists[1]] != jmo:
                dis.append({"what": "feature-numbers-differ", "hook": jmo, "model": lists[1:] and lists[1]})
        else:
            kind, i = name.split("_")[1], int(name.split("_")[2])
            for k in lists[0]:
                dis.append({"what": kind + "ompose_hangul-differs" if kind == "dec" else "compose_hangul-differs",
                            "line": raw[kind][i * sh + k]})
    # the property's arithmetic, directly on the implementation's answers (Python, from the property text)
    fails = []
    n_dec = 0
    for line in raw["dec"]:
        _, s, a, b = line.split()
        s, a, b = int(s), int(a), int(b)
        if SB <= s < SB + SC:
            n_dec += 1
            si = s - SB
            want = (s - si % TC, TB + si % TC) if si % TC else (LB + si // NC, VB + (si % NC) // TC)
            if (a, b) != want:
                fails.append({"what": "decompose_hangul-wrong", "syllable": "U+%04X" % s, "got": [a, b], "want": list(want)})
        elif (a, b) != (0, 0):
            fails.append({"what": "decompose_hangul-outside-range", "input": "U+%04X" % s, "got": [a, b]})
    n_comp = 0
    for line in raw["comp"]:
        _, a, b, r = line.split()
        a, b, r = int(a), int(b), int(r)
        want = 0
        if comb_l(a) and comb_v(b):
            want = SB + ((a - LB) * VC + (b - VB)) * TC
        elif is_syl(a) and (a - SB) % TC == 0 and comb_t(b):
            want = a + (b - TB)
        elif is_syl(a) and (a - SB) % TC == 0 and b == TB:
            want = r  # T_BASE itself (t index 0) is accepted by the code and maps LV to itself: outside the property
        n_comp += 1
        if r != want:
            fails.append({"what": "compose_hangul-wrong", "a": "U+%04X" % a, "b": "U+%04X" % b, "got": r, "want": want})
    chk.add_eval(8 * 0x120000 + len(decs) + len(comps), 8 + n_dec + n_comp)
    chk.note("pure_hooks", {"predicates": "8 x all code points 0..0x11FFFF as maximal ranges", "decompose_cases": len(decs),
                            "compose_cases": len(comps)})
    return dis, fails


# ------------------------------------------------------------------ the property on the public API

def matches(exp, got):
    return len(got) == len(exp) and all((ecp, erole) == (cp, role) and (ecl is None or ecl == k)
                                        for (ecp, erole, ecl), (cp, role, k, _u) in zip(exp, got))


def fmt_exp(exp):
    return [("U+%04X" % a if a else "notdef", ["", "ljmo", "vjmo", "tjmo"][b], k) for a, b, k in exp]


def api_predicate(chk, plan_):
    """-> (failures outside any known class, hits inside the known class)"""
    fails, known = [], []
    n = 0
    nontrivial = 0
    for f, cases in plan_:
        for c in cases:
            if not c["items"]:
                continue
            n += 1
            cl = [k for _, k in c["text"]]
            exp = expect_text(f, c["items"], c["level"], c["nd"], cl)
            # a role whose feature the font lacks shows the plain glyph
            exp = [(cp, r if f.present(r) else 0, k) for cp, r, k in exp]
            got = c["api"]
            if any(r for _, r, _ in exp) or len(exp) != len(c["text"]):
                nontrivial += 1
            if got is not None and matches(exp, got):
                continue
            rec = {"what": "hangul-rendering-differs-from-property", "font": f.describe(), "font_request": f.req(),
                   "request": req_line(c), "cluster_level": c["level"],
                   "text": ["U+%04X" % cp for cp, _ in c["text"]], "clusters": cl,
                   "expected(cp,role,cluster)": fmt_exp(exp), "tag": c["tag"]}
            if got is None:
                rec["what"] = "shape-panicked"
                rec["api"] = c.get("api_raw")
                fails.append(rec)
                continue
            rec["got(cp,role,cluster,unsafe)"] = [("U+%04X" % a if a else "notdef", ["", "ljmo", "vjmo", "tjmo"][b] if b < 4 else b, k, u)
                                                  for a, b, k, u in got]
            if any(in_known_class(f, it) for it, _ in c["items"]) and \
                    matches([(cp, r if f.present(r) else 0, k) for cp, r, k in
                             expect_text(f, c["items"], c["level"], c["nd"], cl, as_implemented=True)], got):
                rec["what"] = "lv-t-with-unsupported-lv-leaves-t-untagged"
                rec["class"] = KNOWN_CLASS
                known.append(rec)
            else:
                fails.append(rec)
    chk.add_eval(n, nontrivial)
    return fails, known


# ------------------------------------------------------------------ driver

KNOWN_TEXT = ("<LV,T> with LV not mapped by the font (jamo mapped, LV+T not mapped or T an old trailing jamo): LV is decomposed "
              "to L V tagged ljmo vjmo but T stays outside the syllable: no tjmo, its own cluster at level 0 "
              "(`if has_glyph && tindex == 0` in the decomposition branch; HarfBuzz has the same test)")


def run(chk):
    thorough = chk.tier == "thorough"
    chk.cov["rule"] = (
        "per font variant {syllables+jamo, jamo only, syllables only, mixed by seeded predicate} x tone marks {absent, spacing, zero width} x "
        "dotted circle: every precomposed syllable, every <L,V[,T]> and <LV,T> (thorough: all 11172/11172/10773 at level 0, and at "
        "levels 1/2 for the jamo-only and mixed fonts; quick: seeded 1/16 slice + boundary indices), old-Hangul jamo edge product + random, "
        "tone marks after every syllable form, structured and raw random mixtures with Latin at cluster levels 0/1/2 and five cluster numberings; "
        "each text runs through the hook (real preprocess_text_hangul vs the Coq model: cp, cluster, feature, glyph flags) and through "
        "rustybuzz::shape (expected rendering from the property's arithmetic, roles via GSUB). "
        "non-trivial = distinct request (model runs), rendering that composes/decomposes/tags (API), syllables inside the range (arithmetic)")
    pr = chk.prove(extra_targets=["Corr/HangulC.vo"])
    broken = []
    if chk.guards_failed:
        broken += ["translator-guard:%s (%s)" % g for g in chk.guards_failed
                   if g[0].split(":")[0] in ("hangul", "unicode", "buffer", "tr_hangul")]
    if not pr["ok"]:
        broken += ["proof:" + f for f in pr["failed"]]
    ok, binp, blog = C.cargo_build("release", hooks=True)
    dis, fails, known = [], [], []
    if not ok:
        broken.append("hook-build-failed: " + blog[-600:])
    else:
        corr_ok = os.path.exists(os.path.join(C.COQ, "Corr", "HangulC.vo"))
        if corr_ok:
            d, fa = pure_hooks(chk, binp, thorough)
            dis += d
            fails += fa
        else:
            broken.append("model-not-built: correspondence skipped")
        pl = plan(chk, thorough)
        dis += run_impl(binp, pl)
        if corr_ok:
            dis += model_vs_hook(chk, pl)
        fa, known = api_predicate(chk, pl)
        fails += fa
        chk.note("fonts", [f.describe() for f, _ in pl])
        chk.note("cases_per_font", [len(c) for _, c in pl])
        for f, cases in pl[:2]:
            for c in cases[:2] + cases[-1:]:
                chk.sample({"font": f.req(), "request": req_line(c), "hook": c.get("hook_raw"), "api": c.get("api_raw")})
    chk.note("correspondence_disagreements", len(dis))
    chk.note("api_failures", len(fails))
    chk.note("known_class_hits", len(known))
    # ---- verdict
    if known:
        if chk.is_known(KNOWN_CLASS):
            chk.known_finding(KNOWN_CLASS, "%d texts, e.g. %s with %s: %s" % (
                len(known), known[0]["request"], known[0]["font_request"], KNOWN_TEXT))
        else:
            chk.violation(known[0]["what"], dict(known[0], note=KNOWN_TEXT, cases_in_class=len(known)))
    for f in fails[:5]:
        chk.violation(f["what"], f)
    if not fails and (broken or dis):
        chk.violation("tie-or-proof-broken", {
            "broken": broken, "disagreements": dis[:10],
            "note": "theorems of Props/C12.v, a translator guard or the model/implementation correspondence no longer check; the "
                    "implementation-level search (public API against the property's arithmetic) found no failing input outside the known class"},
            no_input=True)
    chk.cov["trusted_base"] = C.DEFAULT_TRUSTED_BASE + [
        "hooks: src/hb/verif/hangul.rs, verif_* wrappers in ot_shaper_hangul.rs and unicode.rs",
        "generated fonts: harness/src/c12.rs sfnt writer (self-checked against the face's cmap per variant)",
        "props/C12.py expect_item: the property's expected rendering per syllable form"]


def replay(chk, path):
    body = json.load(open(path))
    print(json.dumps(body, indent=1))
    ok, binp, _ = C.cargo_build("release", hooks=True)
    if not ok:
        print("hook build failed")
        return 1
    still = 0
    if "request" in body and "font_request" in body:
        rc, out, err = C.run_rbv(binp, ["c12", "run"], stdin=body["font_request"] + "\n" + body["request"] + "\n")
        print(out)
        lines = [x for x in out.splitlines() if x.startswith("r ")]
        if lines and "expected(cp,role,cluster)" in body:
            got = parse_api(lines[0][2:].split(" | ")[1].strip())
            exp = [(0 if a == "notdef" else int(a[2:], 16), ["", "ljmo", "vjmo", "tjmo"].index(b), k)
                   for a, b, k in body["expected(cp,role,cluster)"]]
            if got is None or not matches(exp, got):
                print("STILL FAILING: rendering differs from the property's expectation")
                still = 1
            else:
                print("now as expected")
        return still
    print("no concrete input in this replay; re-running the quick search")
    pl = plan(chk, False)
    run_impl(binp, pl)
    fails, known = api_predicate(chk, pl)
    for f in fails[:5]:
        print("STILL FAILING:", f)
    return 1 if fails else 0
