"""C13 — default-ignorable characters are invisible unless preservation is requested.
Proof: Props/C13.v over Model/Ignorable.v — classification (the function regenerated from
src/hb/unicode.rs equals Unicode 16 Default_Ignorable_Code_Point minus the four fillers outside the
known class), delete_glyphs_inplace (frame, clusters, minimum kept for monotone input), the two passes
of ot_shape.rs (hidden / removed / PRESERVE identity), insertion inert in the simple pipeline.
Tie: translator (the match arms of is_default_ignorable as a Gallina function + bit constants, shape
guards) + exhaustive classification correspondence (all 0x110000 code points) + hook correspondence on
the real delete_glyphs_inplace and the real passes + API correspondence on generated cmap-only fonts.
Search: implementation vs. specification over all code points; the property predicate through
rustybuzz::shape on generated fonts with/without a space glyph x {default, PRESERVE, REMOVE} x 4
directions x every insertion position."""
import json
import os
import re

import common as C

LEVEL = "proof"
KNOWN_CLASS = "shorthand_format_controls"
KNOWN_VS = "variation_selector_blocks_decomposition"
KNOWN_ATTACH = "gpos_attached_ignorable_keeps_attachment_offset"
KNOWN_ATTACH_OBSERVED = "4,0,0,0,-510,0"
VARIATION_SELECTORS = set(range(0xFE00, 0xFE10)) | set(range(0xE0100, 0xE01F0)) | {0x180B, 0x180C, 0x180D, 0x180F}
PRECOMPOSED = {0xE1, 0xE9, 0x1E0D}   # the precomposed letters of the search texts (c13.rs `search`)


def in_vs_class(f):
    """Known class, decided on the input: a variation selector inserted directly BEHIND a precomposed letter (the
    normalizer gives up on a cluster that contains a variation selector, so the letter is no longer decomposed)."""
    m = re.search(r"text=([0-9A-F,]*) pos=(\d+) cp=([0-9A-F]+)", f.get("case", ""))
    if not m or int(m.group(3), 16) not in VARIATION_SELECTORS:
        return False
    text = [int(x, 16) for x in m.group(1).split(",") if x]
    pos = int(m.group(2))
    if 0 < pos <= len(text) and text[pos - 1] in PRECOMPOSED:
        return True
    # backward runs are reversed grapheme by grapheme before shaping: a selector at the very start of the text (a mark
    # without a base, its own grapheme) then sits directly behind the first letter in the buffer
    back = re.search(r"dir=(rtl|btt)", f.get("case", "")) is not None
    return back and pos == 0 and len(text) > 0 and text[0] in PRECOMPOSED

KNOWN_TEXT = ("U+1BCA0..U+1BCA3 (SHORTHAND FORMAT controls) are Default_Ignorable_Code_Point in Unicode 16 but "
              "is_default_ignorable excludes them on purpose (HarfBuzz issue 503): they are shown with their own glyphs")

HDR = ("From Coq Require Import List NArith ZArith Bool.\n"
       "From RB Require Import Gen.Ignorable Model.Ignorable Corr.Common Corr.IgnorableC.\n"
       "Import ListNotations.\nLocal Open Scope N_scope.\n")


def in_known_class(cp):
    return 0x1BCA0 <= cp <= 0x1BCA3


def z(x):
    x = int(x)
    return "(%d)" % x if x < 0 else "%d" % x


def slot(txt):
    f = txt.split(",")
    return "(mkG %s %s %s %s %s, mkP %s %s %s %s)" % (f[0], f[1], f[2], f[3], f[4], z(f[5]), z(f[6]), z(f[7]), z(f[8]))


def slots(txt):
    txt = txt.strip()
    if txt == "-":
        return "[]"
    return "[" + "; ".join(slot(s) for s in txt.split(";")) + "]"


def outs(txt):
    txt = txt.strip()
    if txt == "-":
        return "[]"
    res = []
    for s in txt.split(";"):
        f = s.split(",")
        res.append("(%s, %s, mkP %s %s %s %s)" % (f[0], f[1], z(f[2]), z(f[3]), z(f[4]), z(f[5])))
    return "[" + "; ".join(res) + "]"


def opt(x):
    return "None" if x == "-" else "(Some %s)" % x


def pairs(rs):
    return "[" + "; ".join("(%d, %d)" % (a, b) for a, b in rs) + "]"


def parse_ranges(line):
    res = []
    for it in line.split()[1:]:
        a, b = it.split("-")
        res.append((int(a, 16), int(b, 16)))
    return res


def spec_from_coq():
    """The specification's range list, printed by Coq from Model/Ignorable.v (single source)."""
    out = C.coq_eval("c13_spec", HDR + "Eval vm_compute in (flat_ranges spec_ranges).\n")
    ls = C.parse_eval_lists(out)
    if not ls or len(ls[0]) % 2:
        raise RuntimeError("cannot read spec_ranges from Coq: " + out[-300:])
    flat = ls[0]
    return [(flat[i], flat[i + 1]) for i in range(0, len(flat), 2)]


def spec_arg(spec):
    return ",".join("%X-%X" % r for r in spec)


def in_ranges(rs, cp):
    return any(a <= cp <= b for a, b in rs)


def classification(chk, binp, spec):
    """Exhaustive: returns (disagreements model-vs-impl, code points where impl != spec, impl ranges)."""
    dis = []
    rc, out, err = C.run_rbv(binp, ["c13", "classify"])
    if rc != 0:
        raise RuntimeError("rbv c13 classify failed: " + err[-500:])
    got = {}
    for line in out.splitlines():
        k = line.split()[0] if line.split() else ""
        if k in ("ign", "bit", "scratch"):
            got[k] = parse_ranges(line)
    if set(got) != {"ign", "bit", "scratch"}:
        raise RuntimeError("rbv c13 classify: unexpected output")
    if got["bit"] != got["scratch"]:
        dis.append({"what": "IGNORABLE bit and HAS_DEFAULT_IGNORABLES scratch flag are not raised together",
                    "bit": got["bit"], "scratch": got["scratch"]})
    body = HDR
    body += "Definition impl : list (N * N) := %s.\n" % pairs(got["ign"])
    body += "Definition bits : list (N * N) := %s.\n" % pairs(got["bit"])
    body += "Eval vm_compute in ((if ranges_wf 0 true impl && ranges_wf 0 true bits then 1 else 0) :: nil).\n"
    jobs = [("c13_cls_model", body + "Eval vm_compute in (diff_ranges is_default_ignorable impl 64).\n"),
            ("c13_cls_bits", body + "Eval vm_compute in (diff_ranges ign_cp bits 64).\n"),
            ("c13_cls_spec", body + "Eval vm_compute in (diff_lists spec_ranges impl 64).\n")]
    res = C.coq_eval_many(jobs)
    spec_diff = []
    for name, o in sorted(res.items()):
        if isinstance(o, Exception):
            dis.append({"what": "cases-file-failed", "file": name, "error": str(o)[-600:]})
            continue
        ls = C.parse_eval_lists(o)
        if len(ls) != 2 or ls[0] != [1]:
            dis.append({"what": "implementation range list malformed or no answer", "file": name, "got": ls[:1]})
            continue
        if name == "c13_cls_model":
            for cp in ls[1]:
                dis.append({"what": "model is_default_ignorable differs from the implementation", "cp": "%X" % cp})
        elif name == "c13_cls_bits":
            for cp in ls[1]:
                dis.append({"what": "model ign_cp differs from init_unicode_props' IGNORABLE bit", "cp": "%X" % cp})
        else:
            spec_diff = ls[1]
    # independent recomputation of impl-vs-spec in the driver (cross-check of the Coq sweep)
    py = [cp for a, b in sorted(set(spec) | set(got["ign"])) for cp in range(a, b + 1)
          if in_ranges(spec, cp) != in_ranges(got["ign"], cp)]
    if sorted(set(py))[:64] != spec_diff:
        dis.append({"what": "driver and Coq disagree on impl-vs-spec differences", "coq": spec_diff, "py": py[:64]})
    n_nontrivial = sum(b - a + 1 for a, b in set(spec) | set(got["ign"]))
    chk.add_eval(3 * 0x110000, n_nontrivial)
    chk.note("classification_exhaustive", {"code_points": 0x110000, "impl_true_ranges": ["%X-%X" % r for r in got["ign"]],
                                           "impl_vs_spec_differences": ["%X" % c for c in spec_diff]})
    return dis, spec_diff, got["ign"]


def hook_cases(chk, binp, n_delete, n_passes):
    dis = []
    jobs = []
    raw = {}
    rc, out, err = C.run_rbv(binp, ["c13", "delete", "--seed", chk.seed, "--n", n_delete])
    if rc != 0:
        raise RuntimeError("rbv c13 delete failed: " + err[-500:])
    cases = []
    lines = []
    deleting = 0
    for line in out.splitlines():
        m = re.match(r"delete (\d+) (\d+) \| (.*) \| (.*)$", line)
        if not m:
            continue
        if m.group(4).startswith("panic"):
            dis.append({"what": "delete_glyphs_inplace panicked", "case": line})
            continue
        cases.append("(%s, %s, %s)" % (m.group(2), slots(m.group(3)), slots(m.group(4))))
        lines.append(line)
        if m.group(3).count(";") != m.group(4).count(";") or (m.group(3) == "-") != (m.group(4) == "-"):
            deleting += 1
    shard = 500
    for i in range(0, len(cases), shard):
        body = HDR + "Definition cases : list delete_case := [\n%s].\n" % ";\n".join(cases[i:i + shard])
        body += "Eval vm_compute in (failing check_delete cases).\n"
        name = "c13_delete_%d" % (i // shard)
        jobs.append((name, body))
        raw[name] = lines[i:i + shard]
    chk.add_eval(len(cases), deleting)
    chk.note("hook_delete", {"cases": len(cases), "something_deleted": deleting})
    if lines:
        chk.sample({"delete_case": lines[min(3, len(lines) - 1)][:400]})
    rc, out, err = C.run_rbv(binp, ["c13", "passes", "--seed", chk.seed, "--n", n_passes])
    if rc != 0:
        raise RuntimeError("rbv c13 passes failed: " + err[-500:])
    cases = []
    lines = []
    changed = 0
    for line in out.splitlines():
        m = re.match(r"passes (\d+) (\d+) (\d+) (\d+) (\S+) (\S+) \| (.*) \| (.*)$", line)
        if not m:
            continue
        if m.group(8).startswith("panic"):
            dis.append({"what": "default-ignorable passes panicked", "case": line})
            continue
        env = "mkEnv %s %s %s %s %s" % (m.group(3), m.group(4), opt(m.group(5)), opt(m.group(6)), m.group(2))
        cases.append("(%s, %s, %s)" % (env, slots(m.group(7)), slots(m.group(8))))
        lines.append(line)
        if m.group(7) != m.group(8):
            changed += 1
    for i in range(0, len(cases), shard):
        body = HDR + "Definition cases : list passes_case := [\n%s].\n" % ";\n".join(cases[i:i + shard])
        body += "Eval vm_compute in (failing check_passes cases).\n"
        name = "c13_passes_%d" % (i // shard)
        jobs.append((name, body))
        raw[name] = lines[i:i + shard]
    chk.add_eval(len(cases), changed)
    chk.note("hook_passes", {"cases": len(cases), "output_differs_from_input": changed})
    if lines:
        chk.sample({"passes_case": lines[min(4, len(lines) - 1)][:400]})
    return dis, jobs, raw


def api_cases(chk, binp, spec, n):
    """API correspondence (LTR): simple pipeline model vs rustybuzz::shape on the generated fonts."""
    dis = []
    jobs = []
    raw = {}
    rc, out, err = C.run_rbv(binp, ["c13", "fonts", "--spec", spec_arg(spec)])
    if rc != 0:
        raise RuntimeError("rbv c13 fonts failed: " + err[-500:])
    fonts = {}
    for line in out.splitlines():
        m = re.match(r"font (\S+) space=(\S+) glyphs=(\d+) selfcheck_bad=(\d+) groups=(\S+)", line)
        if not m:
            continue
        if m.group(4) != "0":
            dis.append({"what": "generated font does not read back", "font": line[:100]})
        gs = []
        for it in m.group(5).split(","):
            r, g = it.split(":")
            a, b = r.split("-")
            gs.append("(%d, %d, %s)" % (int(a, 16), int(b, 16), g))
        fonts[m.group(1)] = ("[" + "; ".join(gs) + "]", opt(m.group(2)))
    fdefs = "Definition adv (g : N) : Z := (300 + 7 * Z.of_N (g mod 64))%Z.\n"
    for name, (gs, sp) in sorted(fonts.items()):
        fdefs += "Definition font_%s : font := mk_font %s adv %s.\n" % (name, gs, sp)
    rc, out, err = C.run_rbv(binp, ["c13", "api", "--seed", chk.seed, "--n", n, "--spec", spec_arg(spec)])
    if rc != 0:
        raise RuntimeError("rbv c13 api failed: " + err[-500:])
    per_font = {}
    nontrivial = 0
    skipped_rtl = 0
    for line in out.splitlines():
        m = re.match(r"api (\d+) (\S+) (\d+) (\d+) m=(\S+) rtl=([01]) \| (\S+) \| (.*)$", line)
        if not m:
            continue
        if m.group(6) == "1":
            skipped_rtl += 1     # native direction of the guessed script is RTL: outside the simple model (see c13.rs)
            continue
        m = re.match(r"api (\d+) (\S+) (\d+) (\d+) m=(\S+) rtl=[01] \| (\S+) \| (.*)$", line)
        if m.group(7).startswith("panic"):
            dis.append({"what": "shape panicked", "case": line})
            continue
        text = [] if m.group(6) == "-" else [int(x, 16) for x in m.group(6).split(",")]
        if any(in_ranges(spec, c) for c in text):
            nontrivial += 1
        case = "(%s, %s, %s, %s, %s)" % (m.group(3), m.group(4), C.nlist(text),
                                         C.nlist([] if m.group(5) == "-" else [int(x, 16) for x in m.group(5).split(",")]),
                                         outs(m.group(7)))
        per_font.setdefault(m.group(2), []).append((case, line))
    total = 0
    for fname, cs in sorted(per_font.items()):
        for i in range(0, len(cs), 400):
            body = HDR + fdefs + "Definition cases : list api_case := [\n%s].\n" % ";\n".join(c[0] for c in cs[i:i + 400])
            body += "Eval vm_compute in (failing (check_api font_%s) cases).\n" % fname
            name = "c13_api_%s_%d" % (fname, i // 400)
            jobs.append((name, body))
            raw[name] = [c[1] for c in cs[i:i + 400]]
        total += len(cs)
    chk.add_eval(total, nontrivial)
    chk.note("api_correspondence", {"cases": total, "text_contains_candidate": nontrivial,
                                    "skipped_guessed_script_is_rtl": skipped_rtl})
    if per_font:
        chk.sample({"api_case": sorted(per_font.items())[0][1][0][1][:300]})
    return dis, jobs, raw


def run_jobs(jobs, raw):
    dis = []
    res = C.coq_eval_many(jobs)
    for name, o in sorted(res.items()):
        if isinstance(o, Exception):
            dis.append({"what": "cases-file-failed", "file": name, "error": str(o)[-800:]})
            continue
        ls = C.parse_eval_lists(o)
        if not ls:
            dis.append({"what": "no-answer", "file": name})
            continue
        for idx in ls[0]:
            dis.append({"what": "model differs from implementation (%s)" % name.split("_")[1], "case": raw[name][idx][:600]})
    return dis


def impl_search(chk, binp, spec, thorough):
    """The property predicate through the public API. Returns list of failing cases (dicts with cp)."""
    fails = []
    args = ["c13", "search", "--seed", chk.seed, "--spec", spec_arg(spec), "--per", 8 if thorough else 2, "--all", 1]
    rc, out, err = C.run_rbv(binp, args, timeout=1200)
    for line in out.splitlines():
        m = re.match(r"fail (.*) \| (.*)$", line)
        if m:
            cm = re.search(r"cp=([0-9A-F]+)", m.group(1))
            fails.append({"what": "hidden-predicate-fails", "case": m.group(1), "clause": m.group(2),
                          "cp": int(cm.group(1), 16) if cm else -1})
        m = re.match(r"search-summary evaluations=(\d+) distinct=(\d+) codepoints=(\d+) bad=(\d+) beyond_property=(\d+)", line)
        if m:
            chk.add_eval(int(m.group(1)), int(m.group(2)))
            chk.note("api_predicate", {"shape_pairs": int(m.group(1)), "distinct_cases": int(m.group(2)), "code_points": int(m.group(3)),
                                       "failing": int(m.group(4)), "all_code_points": True,
                                       "holds_but_other_glyphs_changed_beyond_the_property_text": int(m.group(5))})
        if line.startswith("beyond "):
            chk.sample({"beyond_property": line[:300]})
        m = re.match(r"failing-cps (.*)$", line)
        if m:
            chk.note("api_predicate_failing_code_points", m.group(1))
    if rc != 0:
        fails.append({"what": "search-crashed", "stderr": err[-500:], "cp": -1})
    return fails


def probe(binp, spec, cp):
    rc, out, err = C.run_rbv(binp, ["c13", "probe", "--spec", spec_arg(spec), "--cp", "%X" % cp])
    return out.strip().splitlines()


def contrast(binp, spec, impl, cp):
    """The nearest code point of the same specification range on which implementation and specification agree."""
    for a, b in spec:
        if a <= cp <= b:
            for d in range(1, b - a + 1):
                for c in (cp - d, cp + d):
                    if a <= c <= b and in_ranges(impl, c):
                        return probe(binp, spec, c)
    return []


def run(chk):
    thorough = chk.tier == "thorough"
    chk.cov["rule"] = ("classification: all 0x110000 code points, implementation (hook) vs regenerated model vs specification, "
                       "non-trivial = code points in the specification's or the implementation's set; hook correspondence: random glyph "
                       "lists (length 0-9, monotone up/down/arbitrary clusters, random props/masks/positions) through the real "
                       "delete_glyphs_inplace (non-trivial = something deleted) and the real zero-width/hide passes with flags x scratch "
                       "x invisible x space glyph (non-trivial = output differs from input); API correspondence: LTR texts of letters "
                       "with 0-3 candidate code points on 4 generated cmap-only fonts (non-trivial = text contains a candidate); API "
                       "predicate: candidate x every insertion position x 4 fonts x {0,PRESERVE,REMOVE} x 4 directions x random level")
    pr = chk.prove()
    okc, clog = C.coq_make(["Corr/IgnorableC.vo"])
    broken = []
    if chk.guards_failed:
        broken += ["translator-guard:%s (%s)" % g for g in chk.guards_failed if g[0].startswith("ignorable")]
        other = [g for g in chk.guards_failed if not g[0].startswith("ignorable")]
        if other:
            chk.note("other_translator_guards_failed", other)
    if not pr["ok"]:
        broken += ["proof:" + f for f in pr["failed"]]
        chk.note("proof_log_tail", pr["log"][-1500:])
    if not okc:
        raise RuntimeError("Corr/IgnorableC.vo does not build: " + clog[-800:])
    spec = spec_from_coq()
    ok, binp, blog = C.cargo_build("release", hooks=True)
    dis = []
    fails = []
    spec_diff = []
    if not ok:
        broken.append("hook-build-failed: " + blog[-600:])
    else:
        d, spec_diff, impl = classification(chk, binp, spec)
        dis += d
        d1, jobs1, raw1 = hook_cases(chk, binp, 6000 if thorough else 1500, 6000 if thorough else 1500)
        d2, jobs2, raw2 = api_cases(chk, binp, spec, 6000 if thorough else 1600)
        raw1.update(raw2)
        dis += d1 + d2 + run_jobs(jobs1 + jobs2, raw1)
        fails = impl_search(chk, binp, spec, thorough)
    chk.note("correspondence_disagreements", len(dis))
    chk.note("api_predicate_failing_cases_outside_known_class", len([f for f in fails if not in_known_class(f["cp"])]))
    # ---- verdicts
    known_seen = False
    n_viol = 0
    for cp in spec_diff:
        if in_known_class(cp) and chk.is_known(KNOWN_CLASS):
            known_seen = True
            continue
        if n_viol < 5:
            n_viol += 1
            chk.violation("classification-differs", {
                "cp": "%X" % cp, "implementation_is_default_ignorable": in_ranges(impl, cp),
                "specification_default_ignorable_minus_fillers": in_ranges(spec, cp),
                "end_to_end": probe(binp, spec, cp),
                "contrast_neighbour_classified_alike_by_both": contrast(binp, spec, impl, cp),
                "what": "is_default_ignorable(U+%04X) differs from Unicode 16 Default_Ignorable_Code_Point minus the four fillers" % cp})
    vs_seen = []
    for f in fails:
        if in_known_class(f["cp"]) and chk.is_known(KNOWN_CLASS):
            known_seen = True
            continue
        if in_vs_class(f) and chk.is_known(KNOWN_VS):
            vs_seen.append(f)
            continue
        if n_viol < 8:
            n_viol += 1
            chk.violation(f["what"], f)
    # a model/implementation disagreement outside the known class is explained by a classification difference already
    # reported; otherwise it is a broken tie
    # deterministic probe of the listed instance of the class gpos_attached_ignorable_keeps_attachment_offset
    rc, out, err = C.run_rbv(binp, ["c13", "attach_probe"])
    plines = [l for l in out.splitlines() if l.startswith("attach_probe")]
    chk.note("attach_probe", plines)
    hidden = [l.split(" -> ")[1].split(";")[1] for l in plines[:2] if " -> " in l and ";" in l]
    if len(hidden) == 2:
        if all(h == KNOWN_ATTACH_OBSERVED for h in hidden):
            if chk.is_known(KNOWN_ATTACH):
                chk.known_finding(KNOWN_ATTACH, "<a, U+034F> and <a, U+200D> on the probe font: hidden glyph = %s (gid,cluster,xa,ya,xo,yo)" % hidden[0])
            elif n_viol < 8:
                n_viol += 1
                chk.violation("hidden-ignorable-has-offset", {"what": "hidden-ignorable-has-offset", "probe": plines})
        elif all(h.split(",")[2:] == ["0", "0", "0", "0"] for h in hidden):
            chk.note("stale_known_finding", KNOWN_ATTACH)
        elif n_viol < 8:
            n_viol += 1
            chk.violation("hidden-ignorable-not-zeroed", {"what": "hidden-ignorable-not-zeroed", "probe": plines,
                          "note": "differs from the listed instance of %s (%s)" % (KNOWN_ATTACH, KNOWN_ATTACH_OBSERVED)})
    elif n_viol < 8:
        n_viol += 1
        chk.violation("attach-probe-failed", {"what": "attach-probe-failed", "probe": plines, "stderr": err[-400:]})
    if vs_seen:
        chk.known_finding(KNOWN_VS, "%d case(s), e.g. %s -> %s" % (len(vs_seen), vs_seen[0]["case"], vs_seen[0]["clause"]))
    if known_seen:
        chk.known_finding(KNOWN_CLASS, KNOWN_TEXT)
    elif chk.is_known(KNOWN_CLASS) and ok:
        C.log("C13: NOTE: known finding class %s no longer reproduces — the KNOWN_FINDINGS.txt entry is stale" % KNOWN_CLASS)
        chk.note("stale_known_finding", KNOWN_CLASS)
    if n_viol == 0 and (broken or dis):
        chk.violation("tie-or-proof-broken", {"broken": broken, "disagreements": dis[:10],
                      "note": "theorems of Props/C13.v or the model/implementation correspondence no longer check; the exhaustive "
                              "classification comparison and the API-level predicate search found no failing input outside the known class"},
                      no_input=True)
    elif broken or dis:
        chk.note("also_broken", {"broken": broken, "disagreements": dis[:10]})
    chk.cov["trusted_base"] = C.DEFAULT_TRUSTED_BASE + [
        "translator/tr_ignorable.py (structural translation of fn is_default_ignorable; checked against the implementation on every code point)",
        "Unicode 16 Default_Ignorable_Code_Point ranges typed into Model/Ignorable.v from the standard (no data file offline)",
        "hooks: src/hb/verif/unicode.rs; verif_zero_width_default_ignorables / verif_hide_default_ignorables in src/hb/ot_shape.rs",
        "harness/src/c13.rs minimal sfnt writer (read back through the library in `rbv c13 fonts`)"]
    chk.assumptions = C.DEFAULT_ASSUMPTIONS + [
        "delete_glyphs_inplace is modelled as called from hide_default_ignorables: out_len = 0 (after positioning), so the out-buffer "
        "branch of merge_clusters_impl is dead; checked by the hook correspondence on a buffer in that state",
        "C13_insertion_inert is about the simple pipeline (LTR, cmap + hmtx + passes); shaper-specific processing of the inserted "
        "characters (Khmer, Mongolian, marks) is covered by the API predicate search only"]


def replay(chk, path):
    body = json.load(open(path))
    print(json.dumps(body, indent=1)[:3000])
    ok, binp, blog = C.cargo_build("release", hooks=True)
    if not ok:
        print("hook build failed:", blog[-400:])
        return 2
    C.translate()
    okc, clog = C.coq_make(["Corr/IgnorableC.vo"])
    spec = spec_from_coq()
    still = False
    if "case" in body:
        args = ["c13", "one", "--spec", spec_arg(spec)]
        for kv in body["case"].split():
            k, v = kv.split("=", 1)
            args += ["--" + k, v]
        rc, out, err = C.run_rbv(binp, args)
        print(out)
        still = any(l.startswith("fail ") for l in out.splitlines())
    elif "cp" in body:
        cp = int(body["cp"], 16)
        lines = probe(binp, spec, cp)
        print("\n".join(lines))
        m = re.search(r"is_default_ignorable=(true|false)", lines[0] if lines else "")
        impl = (m.group(1) == "true") if m else None
        print("specification (Unicode 16 DICP minus fillers): %s" % in_ranges(spec, cp))
        still = impl is None or impl != in_ranges(spec, cp)
    else:
        print("nothing to replay in this file (tie/proof breakage: rerun ./check C13)")
    if still:
        print("STILL FAILING")
    else:
        print("no longer failing")
    return 1 if still else 0
