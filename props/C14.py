"""C14 — user features act on exactly their cluster range with their value.
Proof: Props/C14.v over Model/Feature.v (Feature::new for the six range forms, Feature::from_str byte parser,
set_masks, mask-bit allocation of ot_map compile, alternate index) with constants from Gen/FeatureConsts.v.
Tie: translator (MAX_BITS, first feature bit, global bit, flag values, shape guards on the modelled
statements) + correspondence: Feature::new (boundary + exhaustive small), from_str (grammar + mutated
strings), the real set_masks (hook), feature infos -> compiled fields of real plans (hook).
Search (implementation level, independent of the model): Feature::new acts on c iff the Rust range contains c
(known class feature_new_end_bound), documented feature syntax -> intended meaning over all u32 indices (known
class from_str_index_i32: indices >= 2^31), set_masks range/value
predicate, mask-field invariants of real plans, range/value predicate through shape() on generated fonts
(single, alternate, positioning features; several features up to mask exhaustion) and on corpus fonts."""
import json
import os
import random
import re

import common as C
from common import nlist

LEVEL = "proof"
CLS = "feature_new_end_bound"
WITNESS = os.path.join(C.CORPUS, "C14-feature-new-bounded-end.json")
CLS2 = "from_str_index_i32"
WITNESS2 = os.path.join(C.CORPUS, "C14-from-str-index-i32.json")
U32MAX = 0xFFFFFFFF

HDR = ("From Coq Require Import List NArith Bool.\n"
       "From RB Require Import Gen.FeatureConsts Model.Feature Corr.Common Corr.FeatureC.\n"
       "Import ListNotations.\nLocal Open Scope N_scope.\n")


def bool_(b):
    return "true" if b else "false"


def rbv(binp, args, stdin=None):
    rc, out, err = C.run_rbv(binp, ["c14"] + list(args), stdin=stdin)
    if rc != 0:
        raise RuntimeError("rbv c14 %s failed (rc=%d): %s" % (args[0], rc, err[-500:]))
    return out


def chunked(items, per=1500):
    """Coq list literal split into appended chunks (keeps the parser's recursion shallow)."""
    if not items:
        return "[]"
    parts = ["[%s]" % ";\n".join(items[i:i + per]) for i in range(0, len(items), per)]
    return "\n ++ ".join(parts)


# ------------------------------------------------------------------ correspondence (model == implementation)

def parse_new_lines(out):
    cases, raw = [], []
    for line in out.splitlines():
        m = re.match(r"new (\d+) (\d+) (\d+) -> (.*)", line)
        if not m:
            continue
        rest = m.group(4).split()
        obs = "None" if rest[0] == "panic" else "Some (%s, %s)" % (rest[0], rest[1])
        cases.append("(%s, %s, %s, %s)" % (m.group(1), m.group(2), m.group(3), obs))
        raw.append(line)
    return cases, raw


def hex_to_nlist(h):
    if h == "-":
        return "[]"
    return nlist([int(h[i:i + 2], 16) for i in range(0, len(h), 2)])


def parse_parse_lines(out):
    cases, raw = [], []
    for line in out.splitlines():
        m = re.match(r"parse (\S+) -> (.*)", line)
        if not m:
            continue
        rest = m.group(2).split()
        if rest[0] == "none":
            obs = "None"
        elif rest[0] in ("panic", "notutf8"):
            obs = "Some (0, 0, 0, 4294967296)"   # impossible observation: always a disagreement
        else:
            obs = "Some (%s, %s, %s, %s)" % tuple(rest[:4])
        cases.append("(%s, %s)" % (hex_to_nlist(m.group(1)), obs))
        raw.append(line)
    return cases, raw


def parse_sm_lines(out):
    cases, raw, recs = [], [], []
    for line in out.splitlines():
        m = re.match(r"sm (\d+) (\d+) (\d+) (\d+) (\S+) -> (.*)", line)
        if not m:
            continue
        v, mask, s, e = [int(x) for x in m.groups()[:4]]
        gl = [] if m.group(5) == "-" else [tuple(int(y) for y in x.split(":")) for x in m.group(5).split(",")]
        rest = m.group(6)
        if rest.startswith("panic"):
            obs = None
        else:
            obs = [] if rest == "-" else [int(x) for x in rest.split(",")]
        cases.append("(%d, %d, %d, %d, [%s], %s)" % (v, mask, s, e, "; ".join("(%d, %d)" % g for g in gl),
                                                       nlist(obs) if obs is not None else "[4294967296]"))
        raw.append(line)
        recs.append((v, mask, s, e, gl, obs))
    return cases, raw, recs


def parse_plan_lines(out):
    cases, raw, recs = [], [], []
    for line in out.splitlines():
        m = re.match(r"plan (\S+) simple=(\d) infos=(\S+) gm=(\d+) feats=(\S+) um=(\S+)", line)
        if not m:
            if line.startswith("plan "):
                cases.append("(false, [], 4294967296, [], [])")   # a panic: always a disagreement
                raw.append(line)
                recs.append(None)
            continue
        simple = m.group(2) == "1"
        infos = [] if m.group(3) == "-" else [tuple(int(y) for y in x.split(":")) for x in m.group(3).split(",")]
        feats = [] if m.group(5) == "-" else [tuple(int(y) for y in x.split(":")) for x in m.group(5).split(",")]
        um = [] if m.group(6) == "-" else [tuple(int(y) for y in x.split(":")) for x in m.group(6).split(",")]
        gm = int(m.group(4))
        ci = "; ".join("(%d, %d, %d, %d, %d, %s)" % (i[0], i[1], i[2], i[3], i[4], bool_(i[5])) for i in infos)
        cf = "; ".join("(%d, %d, %d, %d)" % f for f in feats)
        cu = "; ".join("(%d, %d, %d)" % u[:3] for u in um)
        cases.append("(%s, [%s], %d, [%s], [%s])" % (bool_(simple), ci, gm, cf, cu))
        raw.append(line)
        recs.append({"label": m.group(1), "simple": simple, "infos": infos, "gm": gm, "feats": feats, "um": um})
    return cases, raw, recs


def correspondence(chk, binp, thorough, flavour="release"):
    """flavour "release": full sizes; "checked" (overflow-checks + debug-assertions build): reduced sizes,
    same model - a trap where the model computes a value is a disagreement."""
    dis = []
    jobs = []
    index = {}   # job name -> (raw lines, base)
    scale = 1 if flavour == "release" else 4

    def add(kind, typ, fn, cases, raw, shard):
        for i in range(0, len(cases), shard):
            name = "c14_%s_%s_%d" % (flavour, kind, i // shard)
            body = HDR + "Definition cases : list %s :=\n %s.\n" % (typ, chunked(cases[i:i + shard], 500))
            body += "Eval vm_compute in (failing %s cases).\n" % fn
            jobs.append((name, body))
            index[name] = (raw, i, kind)

    new_cases, new_raw = parse_new_lines(rbv(binp, ["new"]))
    add("new", "new_case", "check_new", new_cases, new_raw, 1000)
    p_cases, p_raw = parse_parse_lines(rbv(binp, ["parse", "--seed", chk.seed, "--n", (24000 if thorough else 4000) // scale]))
    add("parse", "parse_case", "check_parse", p_cases, p_raw, 1000)
    s_cases, s_raw, s_recs = parse_sm_lines(rbv(binp, ["setmasks", "--seed", chk.seed, "--n", (12000 if thorough else 3000) // scale]))
    add("sm", "sm_case", "check_sm", s_cases, s_raw, 1000)
    pl_cases, pl_raw, pl_recs = parse_plan_lines(rbv(binp, ["plan", "--seed", chk.seed, "--n", (3000 if thorough else 600) // scale]))
    add("plan", "plan_case", "check_plan", pl_cases, pl_raw, 150)
    # the recorded witness of the known finding, on the model
    w = json.load(open(WITNESS))["witness"]
    jobs.append(("c14_witness_" + flavour, HDR + "Eval vm_compute in (let r := rform_of %d %d %d in "
                 "[if covers (feature_new 0 1 r) %d then 1 else 0; if in_rangeb r %d then 1 else 0; if bounded_end r then 1 else 0]).\n"
                 % (w["form"], w["a"], w["b"], w["c"], w["c"])))
    res = C.coq_eval_many(jobs)
    model_witness = None
    for name, out in sorted(res.items()):
        if isinstance(out, Exception):
            dis.append({"what": "cases-file-failed", "file": name, "error": str(out)[-800:]})
            continue
        lists = C.parse_eval_lists(out)
        if not lists:
            dis.append({"what": "no-answer", "file": name})
            continue
        if name.startswith("c14_witness"):
            model_witness = lists[0]
            continue
        raw, base, kind = index[name]
        for idx in lists[0]:
            dis.append({"what": "%s-differs" % kind, "flavour": flavour, "case": raw[base + idx][:1500]})
    n = len(new_cases) + len(p_cases) + len(s_cases) + len(pl_cases)
    chk.add_eval(n, len(set(new_cases)) + len(set(p_cases)) + len(set(s_cases)) + len(set(pl_cases)))
    chk.note("correspondence_cases_" + flavour, {"feature_new": len(new_cases), "from_str": len(p_cases),
                                      "from_str_accepted": sum(1 for c in p_cases if not c.endswith("None)")),
                                      "set_masks": len(s_cases), "plans": len(pl_cases)})
    if flavour == "release":
        chk.sample({"feature_new": new_raw[len(new_raw) // 3]})
        chk.sample({"from_str": p_raw[len(p_raw) // 2]})
        chk.sample({"set_masks": s_raw[len(s_raw) // 2]})
        chk.sample({"plan": pl_raw[len(pl_raw) // 2][:400]})
    return dis, s_recs, pl_recs, model_witness


# ------------------------------------------------------------------ implementation-level predicates

def covers(s, e, c):
    return (s == 0 and e == U32MAX) or (s <= c < e)


def search_set_masks(chk, recs):
    """The property read on the real set_masks: exactly the glyphs of the range get `value` in the bits of
    `mask`; every other bit of every glyph is unchanged."""
    fails = []
    nontrivial = 0
    for (v, mask, s, e, gl, obs) in recs:
        if obs is None or len(obs) != len(gl):
            fails.append({"what": "set_masks-panic-or-length", "input": (v, mask, s, e, gl, obs)})
            continue
        for (c, m), o in zip(gl, obs):
            if mask != 0 and covers(s, e, c):
                want = (m & ~mask & U32MAX) | (v & mask)
                nontrivial += 1
            else:
                want = m
            if o != want:
                fails.append({"what": "set_masks-range-value", "input": "value=%d mask=%d start=%d end=%d glyph(cluster=%d, mask=%d) -> %d, expected %d"
                              % (v, mask, s, e, c, m, o, want)})
                break
    chk.add_eval(len(recs), min(nontrivial, len(recs)))
    return fails


def search_plans(chk, recs, consts):
    """Invariants of the property on compiled plans of the implementation: fields pairwise disjoint, clear of
    the glyph-flag bits and (unless it is the global bit itself) of the global bit, contiguous, and wide
    enough for min(value, 255) of a user feature whose tag occurs once."""
    fails = []
    nontrivial = 0
    defined = consts["defined"]
    for r in recs:
        if r is None:
            fails.append({"what": "plan-panic", "input": "see correspondence"})
            continue
        feats = r["feats"]
        glob = 1 << 31
        seen = 0
        for (t, sh, m, one) in feats:
            if m == glob and sh == 31:
                continue
            bad = None
            if m & defined:
                bad = "overlaps glyph flag bits"
            elif m & glob:
                bad = "overlaps the global bit"
            elif m & seen:
                bad = "overlaps another feature's field"
            elif m == 0 or (m >> sh) & 1 == 0 or ((m >> sh) + 1) & (m >> sh) != 0 or m & ((1 << sh) - 1):
                bad = "field is not a contiguous run starting at shift"
            if bad:
                fails.append({"what": "mask-field-" + bad.replace(" ", "-"), "input": r})
                break
            seen |= m
        # user features: value fits its field (tags used once, not also a default feature of the plan)
        tags = [u[0] for u in r["um"]]
        n_user = len(r["um"])
        default_tags = set(i[0] for i in r["infos"]) - set(tags) if n_user else set()
        all_tags = [i[0] for i in r["infos"]]
        for (t, m, sh, v, is_global) in r["um"]:
            if tags.count(t) != 1 or all_tags.count(t) != 1 or m == 0 or v > 255:
                continue
            nontrivial += 1
            got = ((v << sh) & m & U32MAX) >> sh
            if got != v:
                fails.append({"what": "mask-field-too-narrow", "input": {"tag": t, "value": v, "mask": m, "shift": sh, "plan": r}})
                break
    chk.add_eval(len(recs), min(nontrivial, len(recs)))
    return fails


def doc_strings(rng, n):
    """Strings of the documented feature syntax with their intended meaning (independent of the model):
    [+|-]tag[ '[' start? (':' end?)? ']' ][ '=' value | '=on' | '=off' ]; [a] means [a:a+1]."""
    out = []
    tags = ["kern", "liga", "aalt", "salt", "ss01", "smcp", "c2sc", "zero", "ab", "x", "t_1", "AbCd"]
    for _ in range(n):
        tag = rng.choice(tags)
        s = ""
        value = 1
        pre = rng.choice(["", "", "+", "-"])
        if pre == "-":
            value = 0
        s += pre
        q = rng.choice(["", "", "", "'", '"'])
        s += q + tag + q
        start, end = 0, U32MAX
        form = rng.randrange(7)
        # indices range over all of u32 (short of the u32::MAX sentinel); those >= 2^31 fall into the known
        # class from_str_index_i32 (from_str reads indices as i32, HarfBuzz reads unsigned)
        a = rng.choice([0, 1, 2, 3, 5, 10, 255, 65536, 2 ** 31 - 1002, 2 ** 31 - 1, 2 ** 31, 3000000000, 2 ** 32 - 1003])
        b = a + rng.choice([0, 1, 2, 7, 1000])
        if form == 1:
            s += "[%d]" % a
            start, end = a, a + 1
        elif form == 2:
            s += "[%d:]" % a
            start = a
        elif form == 3:
            s += "[:%d]" % b
            end = b
        elif form == 4:
            s += "[%d:%d]" % (a, b)
            start, end = a, b
        elif form == 5:
            s += rng.choice(["[]", "[:]"])
        post = rng.randrange(5)
        if post == 1:
            value = rng.choice([0, 1, 2, 3, 7, 255, 256, 65535, 2 ** 31 - 1])
            s += "=%d" % value
        elif post == 2:
            s += "=" + rng.choice(["on", "ON", "On"])
            value = 1
        elif post == 3:
            s += "=" + rng.choice(["off", "OFF", "oFf"])
            value = 0
        t = (tag + "    ")[:4].encode()
        out.append((s, (int.from_bytes(t, "big"), value, start, end)))
    return out


def parsein(binp, strings):
    stdin = "\n".join(x.encode().hex() or "-" for x in strings) + "\n"
    out = rbv(binp, ["parsein"], stdin=stdin)
    res = []
    for line in out.splitlines():
        if line.startswith("parse "):
            rest = line.split(" -> ")[1].split()
            res.append(None if rest[0] in ("none", "panic", "notutf8") else tuple(int(x) for x in rest[:4]))
    return res


def search_doc_syntax(chk, binp, n):
    """Returns (violations, deviations inside the known class from_str_index_i32)."""
    rng = random.Random(chk.seed * 7919 + 14)
    items = doc_strings(rng, n)
    got_all = parsein(binp, [x for x, _ in items])
    if len(got_all) != len(items):
        return [{"what": "parsein-length", "input": "%d answers for %d strings" % (len(got_all), len(items))}], []
    fails, known = [], []
    nontrivial = 0
    for (s, want), got in zip(items, got_all):
        if want[2:] != (0, U32MAX):
            nontrivial += 1
        if got != want:
            big = [int(x) for x in re.findall(r"\d+", s[s.find("["):s.find("]") + 1])] if "[" in s else []
            rec = {"what": "from_str-meaning", "input": s, "expected(tag,value,start,end)": want, "got": got}
            if any(x >= 2 ** 31 for x in big):
                known.append(rec)
            else:
                fails.append(rec)
    chk.add_eval(len(items), nontrivial)
    chk.sample({"doc_syntax": "%s -> %s" % (items[0][0], items[0][1])})
    chk.note("doc_syntax_predicate", {"strings": len(items), "ranged": nontrivial, "index_ge_2^31_deviations": len(known)})
    return fails, known


def search_feature_new(chk, binp):
    """Returns (violations, known-class deviations)."""
    out = rbv(binp, ["newprop"])
    viol, known = [], []
    for line in out.splitlines():
        if line.startswith("newdev "):
            kv = dict(x.split("=") for x in line.split()[1:])
            if "panic" in kv:
                viol.append({"what": "feature-new-panic", "input": line})
            elif int(kv["form"]) in (0, 1, 2, 3):
                known.append(line)
            else:
                viol.append({"what": "feature-new-range", "input": line})
        m = re.match(r"newprop-summary evaluations=(\d+) nontrivial=(\d+) bad=(\d+)", line)
        if m:
            chk.add_eval(int(m.group(1)), int(m.group(2)))
            chk.note("feature_new_predicate", {"evaluations": int(m.group(1)), "in_range": int(m.group(2)),
                                               "deviations": int(m.group(3)),
                                               "domain": "clusters < u32::MAX (u32::MAX as a cluster value is the range encoding's end sentinel: "
                                                         "`a..` with a > 0 does not act on it; reported, outside the property's short-text domain)"})
    return viol, known


def run_witness(binp):
    w = json.load(open(WITNESS))["witness"]
    out = rbv(binp, ["witness", w["form"], w["a"], w["b"], w["c"]])
    m = re.search(r"start=(\d+) end=(\d+) acts=(\d) in_range=(\d)", out)
    if not m:
        return None, out
    return (m.group(3) != m.group(4)), out.strip()


def search_api(chk, binp, thorough):
    fails = []
    out = rbv(binp, ["api", "--seed", chk.seed, "--values", "all" if thorough else "few", "--n", 30000 if thorough else 4000])
    for line in out.splitlines():
        if line.startswith("fail "):
            fails.append({"what": "api-" + line.split()[1].split("=")[1].split(":")[0], "input": line})
        m = re.match(r"api-summary evaluations=(\d+) nontrivial=(\d+) bad=(\d+) t1=(\d+) t2=(\d+)", line)
        if m:
            chk.add_eval(int(m.group(1)), int(m.group(2)))
            chk.note("api_generated_fonts", {"shapes": int(m.group(1)), "feature_changed_result": int(m.group(2)), "bad": int(m.group(3)),
                                             "single_feature_exhaustive": int(m.group(4)), "simultaneous_features": int(m.group(5))})
            chk.sample({"api": line})
    out = rbv(binp, ["corpus", "--seed", chk.seed, "--per-font", 200 if thorough else 40])
    for line in out.splitlines():
        if line.startswith("fail "):
            fails.append({"what": "api-" + line.split()[1].split("=")[1].split(":")[0], "input": line})
        m = re.match(r"corpus-summary fonts=(\d+) evaluations=(\d+) nontrivial=(\d+) alternates_read=(\d+) bad=(\d+)", line)
        if m:
            chk.add_eval(int(m.group(2)), int(m.group(3)))
            chk.note("api_corpus_fonts", {"fonts": int(m.group(1)), "shapes": int(m.group(2)), "feature_changed_result": int(m.group(3)),
                                          "alternate_sets_read": int(m.group(4)), "bad": int(m.group(5))})
    return fails


def impl_search(chk, binp, thorough, s_recs=None, pl_recs=None):
    cs = rbv(binp, ["consts"])
    m = re.search(r"max_bits=(\d+) max_value=(\d+) defined=(\d+)", cs)
    consts = {"max_bits": int(m.group(1)), "max_value": int(m.group(2)), "defined": int(m.group(3))}
    if s_recs is None:
        _, _, s_recs = parse_sm_lines(rbv(binp, ["setmasks", "--seed", chk.seed, "--n", 3000]))
    if pl_recs is None:
        _, _, pl_recs = parse_plan_lines(rbv(binp, ["plan", "--seed", chk.seed, "--n", 600]))
    fails = []
    viol, known = search_feature_new(chk, binp)
    fails += viol
    dfails, known2 = search_doc_syntax(chk, binp, 6000 if thorough else 1500)
    fails += dfails
    fails += search_set_masks(chk, s_recs)
    fails += search_plans(chk, pl_recs, consts)
    fails += search_api(chk, binp, thorough)
    return fails, (known, known2)


def run_witness2(binp):
    w = json.load(open(WITNESS2))["witness"]
    got = parsein(binp, [w["string"]])
    return (got[0] != tuple(w["expected"])), "from_str(%r) = %s, HarfBuzz meaning %s" % (w["string"], got[0], tuple(w["expected"]))


def report_known(chk, binp, knowns, model_witness=None):
    """Known-finding flow for the two classes. Returns extra violations."""
    known, known2 = knowns
    extra = []
    for cls, devs, runw, corpus, what in (
            (CLS, known, run_witness, "corpus/C14-feature-new-bounded-end.json", "Feature::new with a bounded range end stores end-1"),
            (CLS2, known2, run_witness2, "corpus/C14-from-str-index-i32.json", "from_str reads indices as i32; an index >= 2^31 is treated as absent")):
        if not chk.is_known(cls):
            for d in devs[:3]:
                extra.append({"what": cls.replace("_", "-"), "input": d})
            continue
        wfail, wout = runw(binp)
        if wfail:
            chk.known_finding(cls, "replay=%s %s: %s; %d deviations in this run, all inside the class" % (corpus, what, wout, len(devs)))
        else:
            print("KNOWN-FINDING-STALE: property=C14 class=%s the recorded witness no longer fails on the implementation (%s); "
                  "remove the entry from KNOWN_FINDINGS.txt and re-model" % (cls, wout))
            for d in devs[:3]:
                extra.append({"what": cls.replace("_", "-") + "-outside-stale-entry", "input": d})
    if model_witness is not None and model_witness not in ([0, 1, 1], [1, 0, 1]):
        extra.append({"what": "known-witness-not-refuted-by-model", "input": model_witness})
    chk.note("known_class_deviations", {CLS: len(known), CLS2: len(known2)})
    return extra


def run(chk):
    thorough = chk.tier == "thorough"
    chk.cov["rule"] = ("correspondence (model == implementation, evaluated by vm_compute in cases files): Feature::new on 6 range forms x "
                       "boundary values {0..3, 2^31-1, 2^31, 2^32-2..2^32+1, usize::MAX-1, usize::MAX} and all a,b <= 6; from_str on the crate's 20 "
                       "test strings + fixed edge cases + grammar-generated (2/3) and byte-mutated (1/3) strings; real set_masks on random glyph "
                       "lists (hook); feature infos -> compiled (tag, shift, mask, 1-mask), global mask and get_mask of real plans on generated and "
                       "corpus fonts with 0..45 user features (hook). implementation-level predicates: Feature::new acts on c iff range contains c; "
                       "documented syntax -> meaning; set_masks range/value; mask-field invariants; shape() on generated fonts: every (start,end) "
                       "over texts of length <= 6, values {0,1,2,3,5,6,255} (quick) or 0..255 (thorough), LTR/RTL, 3 cluster levels, 4 cluster "
                       "numberings (thorough: all 4 for every case), several simultaneous features up to mask exhaustion; single/alternate features of "
                       "corpus fonts; correspondence and the generated-font predicate repeated on the overflow-checked build. "
                       "non-trivial = distinct case (correspondence); range contains the cluster / feature changed the shaping result (predicates)")
    pr = chk.prove(extra_targets=["Corr/FeatureC.vo"])
    try:
        gen = open(os.path.join(C.COQ, "Gen", "FeatureConsts.v")).read()
        m = re.search(r"statements whose source text changed since the model was written: (.*?) \*\)", gen)
        chk.note("modelled_statements_changed_text", m.group(1) if m else "?")
    except OSError:
        pass
    broken = []
    if chk.guards_failed:
        broken += ["translator-guard:%s (%s)" % g for g in chk.guards_failed if g[0].startswith(("feat", "glyph_flag", "F_", "feature_", "tr_feature"))]
    if not pr["ok"]:
        broken += ["proof:" + f for f in pr["failed"]]
    ok, binp, blog = C.cargo_build("release", hooks=True)
    dis, fails, known = [], [], ([], [])
    if not ok:
        broken.append("hook-build-failed: " + blog[-600:])
    else:
        dis, s_recs, pl_recs, mw = correspondence(chk, binp, thorough)
        # the buffer model of C14_*_keeps_feature_bits against hb_buffer_t (random operation sequences, masks included)
        import bufcorr
        bdis, bstats, _bsample = bufcorr.run(chk, binp, 3000 if thorough else 300, tag="c14buf", seed_offset=14)
        chk.note("buffer_correspondence", bstats)
        chk.add_eval(bstats["steps"], bstats["steps_followed_by_model"])
        dis += bdis
        fails, known = impl_search(chk, binp, thorough, s_recs, pl_recs)
        fails += report_known(chk, binp, known, mw)
        ok2, binc, blog2 = C.cargo_build("checked", hooks=True)
        if ok2:
            dis2, _, _, _ = correspondence(chk, binc, thorough, "checked")
            dis += dis2
            # the generated-font predicate once more on the overflow-checked build (a trap is a failure)
            out = rbv(binc, ["api", "--seed", chk.seed, "--values", "few", "--n", 1000])
            for line in out.splitlines():
                if line.startswith("fail "):
                    fails.append({"what": "api-checked-build-" + line.split()[1].split("=")[1].split(":")[0], "input": line})
                m = re.match(r"api-summary evaluations=(\d+) nontrivial=(\d+)", line)
                if m:
                    chk.add_eval(int(m.group(1)), int(m.group(2)))
                    chk.note("api_generated_fonts_checked_build", {"shapes": int(m.group(1)), "feature_changed_result": int(m.group(2))})
        else:
            broken.append("checked-build-failed: " + blog2[-600:])
    chk.note("correspondence_disagreements", len(dis))
    seen = set()
    n = 0
    for f in fails:
        if f["what"] in seen or n >= 5:
            continue
        seen.add(f["what"])
        n += 1
        chk.violation(f["what"], f)
    if not fails and (broken or dis):
        chk.violation("tie-or-proof-broken", {"broken": broken, "disagreements": dis[:10],
                      "note": "theorems of Props/C14.v or the model/implementation correspondence no longer check; the implementation-level "
                              "searches (Feature::new, syntax, set_masks, mask fields, shaping on generated and corpus fonts) found no failing input"},
                      no_input=True)
    chk.cov["trusted_base"] = C.DEFAULT_TRUSTED_BASE + [
        "hooks: src/hb/verif/feature.rs (set_masks on a real hb_buffer_t; plan_dump = steps of hb_ot_shape_plan_t::new with the builder's feature "
        "list read before compile), ot_map.rs verif_feature_infos / verif_found / verif_features (read-only)",
        "harness/src/c14.rs private sfnt writer for the generated fonts and its oracle of the property (independent of the Coq model)"]
    chk.assumptions = C.DEFAULT_ASSUMPTIONS + [
        "`found` (does the font list the feature for the chosen script/language) is an input of the allocation model, observed through the hook",
        "lookup application is modelled only as far as C14 needs it: the mask test and the alternate index; GSUB/GPOS matching itself is exercised by search"]


def replay(chk, path):
    body = json.load(open(path))
    print(json.dumps(body, indent=1)[:3000])
    ok, binp, _ = C.cargo_build("release", hooks=True)
    if "witness" in body:
        wfail, wout = (run_witness2 if body.get("class") == CLS2 else run_witness)(binp)
        print(("STILL FAILING: " if wfail else "no longer failing: ") + str(wout))
        return 1 if wfail else 0
    chk.seed = body.get("seed", chk.seed)
    fails, (known, known2) = impl_search(chk, binp, body.get("tier") == "thorough")
    if not chk.is_known(CLS):
        fails += [{"what": "feature-new-bounded-end", "input": k} for k in known[:3]]
    if not chk.is_known(CLS2):
        fails += [{"what": "from-str-index-i32", "input": k} for k in known2[:3]]
    for f in fails[:5]:
        print("STILL FAILING:", json.dumps(f, default=str)[:1500])
    return 1 if fails else 0
