"""C15 — cluster values are opaque labels; the cluster level changes clusters and flags only.
Proof (Props/C15.v): every operation of the buffer alphabet and every finite operation sequence commutes
with every strictly increasing relabelling of the cluster values (C15_every_operation / C15_every_sequence);
cluster comparisons outside the buffer layer are search-only.  Tie: buffer operation correspondence (hook).  Search: paired
public-API shapes that differ only by a strictly increasing relabelling of the input clusters, and the
same request at the three cluster levels, on corpus fonts (global features only); the known class
feature_range_splits_grapheme is probed deterministically on a generated font."""
import json
import re

import bufcorr
import common as C
import e2e

LEVEL = "proof"


def run(chk):
    thorough = chk.tier == "thorough"
    chk.cov["rule"] = ("paired shapes on corpus fonts: clusters relabelled by f(c) = off + c*step (+jitter) must relabel the output clusters by f and change nothing else; "
                       "levels 0/1/2 must give the same glyph ids and positions in the same order; buffer op correspondence seeded by VERIF_SEED. "
                       "non-trivial = level 0 and level 2 clusters differ (merging happened)")
    pr = chk.prove(extra_targets=["Corr/BufferC.vo"])
    broken = []
    if chk.guards_failed:
        broken += ["translator-guard:%s (%s)" % tuple(g) for g in chk.guards_failed]
    if not pr["ok"]:
        broken += ["proof:" + f for f in pr["failed"]]
    ok, binp, blog = C.cargo_build("release", hooks=True)
    dis, fails = [], []
    if not ok:
        broken.append("hook-build-failed: " + blog[-600:])
        ok2, binp, blog2 = C.cargo_build("release", hooks=False)
        if not ok2:
            raise RuntimeError("harness does not build even without hooks: " + blog2[-600:])
    else:
        dis, stats, sample = bufcorr.run(chk, binp, 3000 if thorough else 300, tag="c15buf", seed_offset=15)
        chk.note("buffer_correspondence", stats)
        chk.add_eval(stats["steps"], stats["steps_followed_by_model"])
        # known class probe
        rc, out, err = C.run_rbv(binp, ["c15", "probe"])
        m = re.search(r"probe-result levels_agree=(\d)", out)
        chk.note("range_splits_grapheme_probe", [l for l in out.splitlines() if l.startswith("probe")])
        if m and m.group(1) == "0":
            if chk.is_known("feature_range_splits_grapheme"):
                chk.known_finding("feature_range_splits_grapheme", "ss01[1:2] on <a U+0301 b>: " + "; ".join(l for l in out.splitlines() if l.startswith("probe level")))
            else:
                fails.append({"kind": "level-changes-glyphs (feature range splits a grapheme)", "detail": out})
        elif m:
            chk.note("known_class_stale", "feature_range_splits_grapheme no longer reproduces")
    fl, summary, crashed = e2e.run(chk, binp, "C15", 300000 if thorough else 4000)
    chk.note("search", summary)
    chk.add_eval(summary.get("evaluations", 0), summary.get("nontrivial", 0))
    if crashed:
        fails.append({"kind": "search-crashed", "detail": crashed})
    fails += fl
    chk.sample({"search_summary": summary})
    chk.note("correspondence_disagreements", len(dis))
    for f in fails[:3]:
        chk.violation(f["kind"], f)
    if not fails and (broken or dis):
        chk.violation("tie-or-proof-broken", {"broken": broken, "disagreements": dis[:8],
                      "note": "Props/C15.v or the buffer correspondence no longer checks; the relabelling/level search found no failing input"}, no_input=True)
    chk.cov["trusted_base"] = C.DEFAULT_TRUSTED_BASE + ["hook: src/hb/verif/buffer.rs"]
    chk.assumptions = C.DEFAULT_ASSUMPTIONS + ["equivariance is proved for the cluster primitives and streaming operations; whole-engine independence from cluster values is search-level"]


def replay(chk, path):
    body = json.load(open(path))
    print(json.dumps(body, indent=1)[:3000])
    ok, binp, _ = C.cargo_build("release", hooks=False)
    if "font" in body and "req" in body:
        rc, fails, out = e2e.replay_one(binp, "C15", body["font"], body["req"])
        print(out[:3000])
        return 1 if fails or rc != 0 else 0
    return 0
