"""C16 — without layout tables glyphs and positions are the font's cmap and metrics; in every font
horizontal results have y_advance = 0, vertical results x_advance = 0, glyph ids <= 0xFFFF.
Proof: Props/C16.v over Model/Simple.v (whole pipeline for fonts without layout tables: form_clusters,
ensure_native_direction, rotate_chars, normalizer round 1 incl. the variation-selector cluster,
position_default, mark / ignorable zeroing, fallback mark zeroing, final reverse, not-found-VS writer).
Tie: public API on generated cmap(4/12/both, 14)/hmtx(/vmtx) fonts x random requests (four directions,
forced and guessed, three cluster levels, native LTR/RTL/no script) compared with the model by vm_compute.
Search: (1) the property's first sentence evaluated directly on the implementation's output with the
font's own cmap/hmtx/vmtx (no Gallina involved); (2) axis and glyph-id-range invariants on all corpus
fonts x random texts/features/flags/variations x five direction settings and on generated GPOS/kern fonts."""
import json
import os
import re
from concurrent.futures import ThreadPoolExecutor

import common as C

LEVEL = "proof"
KNOWN_CLS = "not_found_vs_glyph_unchecked"

HDR = ("From Coq Require Import List NArith ZArith Bool.\n"
       "From RB Require Import Model.Font Model.Simple Corr.Common Corr.SimpleC.\n"
       "Import ListNotations.\nLocal Open Scope N_scope.\n")

DIRS = {"ltr": "LTR", "rtl": "RTL", "ttb": "TTB", "btt": "BTT"}
HORS = {"0": "HInvalid", "1": "HLtr", "2": "HRtl"}


def zc(v):
    v = int(v)
    return "(%d)%%Z" % v


def pairs(s):
    if s == "-" or not s:
        return []
    return [tuple(int(x) for x in it.split(":")) for it in s.split(",")]


def parse_out(s):
    """'-' -> [], 'panic:X' -> None, else list of 6-tuples"""
    if s.startswith("panic"):
        return None
    if s == "-" or not s:
        return []
    return [tuple(int(x) for x in g.split(":")) for g in s.split("|")]


def kv(line):
    d = {}
    for tok in line.split():
        if "=" in tok:
            k, v = tok.split("=", 1)
            d[k] = v
    return d


# ------------------------------------------------------------------ the property, on the implementation's output

def expected_plain(fd, d, text, alts):
    """Property sentence 1, per character (independent of the Coq model). Returns list of
    (set of admissible glyph ids, cluster, function gid -> (xa, ya, xo, yo))."""
    cmap = fd["cmap"]
    hadv = fd["hadv"]
    vadv = fd["vadv"]

    def pos(g):
        h = hadv[g] if g < len(hadv) else 0
        if d in ("ltr", "rtl"):
            return (h, 0, 0, 0)
        v = (vadv[g] if g < len(vadv) else 0) if vadv is not None else fd["asc"] - fd["desc"]
        return (0, -v, -(h // 2), -fd["asc"])
    exp = []
    for (c, cl) in text:
        gids = {cmap.get(c, 0)}
        for a in alts.get(c, ()):      # a mirrored / vertical alternate the font maps may be used instead
            if a in cmap:
                gids.add(cmap[a])
        exp.append((gids, cl, pos))
    if d in ("rtl", "btt"):
        exp.reverse()
    return exp


def predicate_simple(fd, case, alts, vs_set):
    """None if the property holds on this observed result, else a description."""
    out = case["out"]
    if out is None:
        return "implementation panicked"
    d = case["dir"]
    for i, g in enumerate(out):
        if d in ("ltr", "rtl") and g[3] != 0:
            return "horizontal y_advance != 0 at glyph %d" % i
        if d in ("ttb", "btt") and g[2] != 0:
            return "vertical x_advance != 0 at glyph %d" % i
        if g[0] > 0xFFFF and not (case["nf"] is not None and g[0] == case["nf"]):
            return "glyph id > 0xFFFF at glyph %d" % i
    if any(c in vs_set for c, _ in case["text"]):
        return None   # marks are outside the first sentence; the model comparison covers these cases
    exp = expected_plain(fd, d, case["text"], alts)
    if len(exp) != len(out):
        return "length %d != %d characters" % (len(out), len(exp))
    for i, ((gids, cl, pos), g) in enumerate(zip(exp, out)):
        if g[0] not in gids:
            return "glyph %d: gid %d not the cmap glyph %s" % (i, g[0], sorted(gids))
        if g[1] != cl:
            return "glyph %d: cluster %d != %d" % (i, g[1], cl)
        if tuple(g[2:6]) != pos(g[0]):
            return "glyph %d: position %s != metrics %s" % (i, g[2:6], pos(g[0]))
    return None


# ------------------------------------------------------------------ correspondence with the model

def coq_case(fname, c):
    nf = "None" if c["nf"] is None else "(Some %d)" % c["nf"]
    req = "(mkReq %s %s %d %s %s)" % (DIRS[c["dir"]], HORS[c["hor"]], c["level"], nf, "true" if c["zi"] else "false")
    gcs = "[" + "; ".join("(%d, %d, %s)" % (a, b, "true" if i else "false") for a, b, i in c["gc"]) + "]"
    text = "[" + "; ".join("(%d, %d)" % t for t in c["text"]) + "]"
    if c["out"] is None:
        obs = "None"
    else:
        obs = "(Some [" + "; ".join("(%d, %d, %s, %s, %s, %s)" % (g[0], g[1], zc(g[2]), zc(g[3]), zc(g[4]), zc(g[5])) for g in c["out"]) + "])"
    return "(%s, %s, %s, %s, %s)" % (fname, req, gcs, text, obs)


def parse_simple(out):
    tables = {"mir": [], "vert": []}
    fonts = {}
    cases = []
    anomalies = []
    for line in out.splitlines():
        if line.startswith("tables "):
            d = kv(line)
            tables["mir"] = pairs(d["mir"])
            tables["vert"] = pairs(d["vert"])
        elif line.startswith("font "):
            _, i, term = line.split(" ", 2)
            fonts.setdefault(int(i), {})["term"] = term
        elif line.startswith("fontdata "):
            d = kv(line)
            i = int(line.split()[1])
            fonts.setdefault(i, {}).update({
                "asc": int(d["asc"]), "desc": int(d["desc"]),
                "hadv": [int(x) for x in d["hadv"].split(",")],
                "vadv": None if d["vadv"] == "-" else [int(x) for x in d["vadv"].split(",")],
                "cmap": dict(pairs(d["cmap"])), "cmap14": d["cmap14"], "hex": d.get("hex", "")})
        elif line.startswith("case "):
            d = kv(line)
            cases.append({"font": int(line.split()[1]), "dir": d["dir"], "hor": d["hor"], "level": int(d["level"]),
                          "nf": None if d["nf"] == "-" else int(d["nf"]), "zi": d["zi"] == "1",
                          "gc": [tuple(int(x) for x in it.split(":")) for it in d["gc"].split(",")] if d["gc"] != "-" else [],
                          "text": pairs(d["text"]), "req": d["req"], "out": parse_out(d["out"]), "line": line[:1500]})
        elif line.startswith("anomaly"):
            anomalies.append(line[:400])
    return tables, fonts, cases, anomalies


def correspondence(chk, binp, nfonts, per, label="simple_correspondence", seed_off=0):
    """Returns (disagreements, predicate failures)."""
    dis, fails = [], []
    rc, out, err = C.run_rbv(binp, ["c16", "alphabet"])
    m = re.search(r"alphabet-summary chars=(\d+) anomalies=(\d+)", out)
    if rc != 0 or not m or int(m.group(2)) != 0:
        dis.append({"what": "generator-alphabet-not-in-domain", "output": out[-800:] + err[-300:]})
    rc, out, err = C.run_rbv(binp, ["c16", "simple", "--seed", chk.seed + seed_off, "--fonts", nfonts, "--per", per])
    if rc != 0:
        raise RuntimeError("rbv c16 simple failed: " + err[-500:])
    tables, fonts, cases, anomalies = parse_simple(out)
    for a in anomalies[:5]:
        dis.append({"what": "generator-anomaly", "line": a})
    # the model's refutation witness, replayed on the implementation and compared like any other case
    rc, wout, _ = C.run_rbv(binp, ["c16", "witness"])
    wm = re.search(r"witness nf=(\d+) out=(\S+)", wout)
    alts = {}
    for a, b in tables["mir"] + tables["vert"]:
        alts.setdefault(a, set()).add(b)
    for a, b in tables["mir"]:      # BTT: mirrored, then the vertical form of the mirrored character
        for x, y in tables["vert"]:
            if x == b:
                alts.setdefault(a, set()).add(y)
    vs_set = {c for cs in cases for (c, gc, ign) in cs["gc"] if gc == 12}
    # ---- property predicate on the observed output
    stats = {"cases": len(cases), "plain": 0, "with_vs": 0, "with_alternates": 0, "unmapped_chars": 0,
             "dirs": {}, "levels": {}, "hor": {}, "cmap14_hits": 0, "nf_over_16bit": 0, "empty": 0, "alternate_glyph_used": 0}
    distinct = set()
    for cs in cases:
        fd = fonts[cs["font"]]
        why = predicate_simple(fd, cs, alts, vs_set)
        has_vs = any(c in vs_set for c, _ in cs["text"])
        has_alt = any(c in alts for c, _ in cs["text"])
        stats["with_vs"] += has_vs
        stats["with_alternates"] += has_alt
        stats["plain"] += (not has_vs and not has_alt)
        stats["unmapped_chars"] += sum(1 for c, _ in cs["text"] if c not in fd["cmap"] and c not in vs_set)
        stats["dirs"][cs["dir"]] = stats["dirs"].get(cs["dir"], 0) + 1
        stats["levels"][cs["level"]] = stats["levels"].get(cs["level"], 0) + 1
        stats["hor"][HORS[cs["hor"]]] = stats["hor"].get(HORS[cs["hor"]], 0) + 1
        stats["empty"] += (not cs["text"])
        c14 = {(e[0], e[1]) for e in ([tuple(int(x) for x in it.split(":")) for it in fd["cmap14"].split(",")] if fd["cmap14"] != "-" else [])}
        tx = cs["text"]
        stats["cmap14_hits"] += sum(1 for i in range(len(tx) - 1) if (tx[i][0], tx[i + 1][0]) in c14)
        if not has_vs and cs["out"] is not None and len(cs["out"]) == len(tx):
            seq = list(reversed(tx)) if cs["dir"] in ("rtl", "btt") else tx
            stats["alternate_glyph_used"] += sum(1 for (c, _), g in zip(seq, cs["out"]) if g[0] != fd["cmap"].get(c, 0))
        if cs["nf"] is not None and cs["nf"] > 0xFFFF and has_vs:
            stats["nf_over_16bit"] += 1
        if cs["text"]:
            distinct.add((cs["font"], cs["dir"], tuple(cs["text"]), cs["level"], cs["nf"]))
        if why:
            fails.append({"what": "simple-font-result-differs-from-cmap-and-metrics", "why": why, "case": cs["line"],
                          "fonthex": fd.get("hex", ""), "req": cs["req"], "nf": cs["nf"],
                          "pred": {"fd": {"asc": fd["asc"], "desc": fd["desc"], "hadv": fd["hadv"], "vadv": fd["vadv"],
                                          "cmap": sorted(fd["cmap"].items())},
                                   "dir": cs["dir"], "text": cs["text"], "nf": cs["nf"],
                                   "alts": {str(k): sorted(v) for k, v in alts.items()}, "vs": sorted(vs_set)}})
    # ---- model vs implementation
    by_font = {}
    for idx, cs in enumerate(cases):
        by_font.setdefault(cs["font"], []).append(idx)
    font_ids = sorted(by_font)
    nshards = max(1, min(2 * C.NPROC, len(font_ids)))
    shards = [font_ids[i::nshards] for i in range(nshards)]
    jobs, shard_cases = [], {}
    tdefs = "Definition mir : list (N * N) := [%s].\nDefinition vert : list (N * N) := [%s].\n" % (
        "; ".join("(%d, %d)" % p for p in tables["mir"]), "; ".join("(%d, %d)" % p for p in tables["vert"]))
    for si, fids in enumerate(shards):
        if not fids:
            continue
        body = HDR + tdefs
        items, idxs = [], []
        for fi in fids:
            body += "Definition f%d : font := %s.\n" % (fi, fonts[fi]["term"])
            for idx in by_font[fi]:
                items.append(coq_case("f%d" % fi, cases[idx]))
                idxs.append(idx)
        if si == 0 and wm:
            # witness: FontSpec::basic(4), text <U+E000, U+FE00>, nf as given
            body += ("Definition fw : font := mkFont 4 1000 (800)%Z (-200)%Z (0)%Z [500; 510; 520; 530] None "
                     "[(57344, 1); (57345, 2); (57346, 3)] [] None None None None None.\n")
            wcase = {"dir": "ltr", "hor": "0", "level": 0, "nf": int(wm.group(1)), "zi": True,
                     "gc": [(57344, 3, 0), (65024, 12, 1)], "text": [(57344, 0), (65024, 1)], "out": parse_out(wm.group(2))}
            items.append(coq_case("fw", wcase))
            idxs.append(-1)
        chunks = [items[i:i + 200] for i in range(0, len(items), 200)]
        for ci, ch in enumerate(chunks):
            body += "Definition cases_%d : list scase := [\n%s].\n" % (ci, ";\n".join(ch))
        body += "Definition cases := %s.\n" % (" ++ ".join("cases_%d" % i for i in range(len(chunks))) or "@nil scase")
        body += "Eval vm_compute in (N.of_nat (length cases) :: failing (case_in_domain mir vert) cases).\n"
        body += "Eval vm_compute in (failing (check_case mir vert) cases).\n"
        name = "c16_%s_%d" % ("s" if label == "simple_correspondence" else "c", si)
        jobs.append((name, body))
        shard_cases[name] = idxs
    res = C.coq_eval_many(jobs)
    compared = 0
    for name, o in sorted(res.items()):
        idxs = shard_cases[name]
        if isinstance(o, Exception):
            dis.append({"what": "cases-file-failed", "file": name, "error": str(o)[-800:]})
            continue
        lists = C.parse_eval_lists(o)
        if len(lists) != 2 or not lists[0] or lists[0][0] != len(idxs):
            dis.append({"what": "no-answer", "file": name, "raw": o[-300:]})
            continue
        compared += len(idxs)
        for i in lists[0][1:]:
            dis.append({"what": "generated-case-outside-model-domain", "case": cases[idxs[i]]["line"] if idxs[i] >= 0 else "witness"})
        for i in lists[1]:
            k = idxs[i]
            dis.append({"what": "model-differs-from-implementation",
                        "case": cases[k]["line"] if k >= 0 else "witness " + wout.strip(),
                        "fonthex": fonts[cases[k]["font"]].get("hex", "") if k >= 0 else "", "req": cases[k]["req"] if k >= 0 else "",
                        "nf": cases[k]["nf"] if k >= 0 else None})
    chk.add_eval(len(cases), len(distinct))
    stats["compared_with_model"] = compared
    stats["fonts"] = len(fonts)
    stats["cmap_formats"] = "4 / 12 / both cycled by font index; cmap14 in ~2/3 of the fonts"
    stats["panics"] = sum(1 for cs in cases if cs["out"] is None)
    tall = {i for i, fd in fonts.items() if fd.get("vadv") is None and "asc" in fd and fd["asc"] - fd["desc"] > 32767}
    stats["tall_fonts_without_vmtx"] = len(tall)
    stats["tall_font_vertical_cases"] = sum(1 for cs in cases if cs["font"] in tall and cs["dir"] in ("ttb", "btt") and cs["text"])
    chk.note(label, stats)
    if cases:
        mid = cases[len(cases) // 2]
        chk.sample({"simple_case": mid["line"][:600]})
    return dis, fails


# ------------------------------------------------------------------ universal invariants

def run_parts(binp, argsets):
    def one(a):
        return C.run_rbv(binp, a, timeout=1500)
    with ThreadPoolExecutor(max_workers=C.NPROC) as ex:
        return list(ex.map(one, argsets))


def collect_inv(chk, results, summary_re, fails, known_seen, label):
    tot = {}
    for rc, out, err in results:
        if rc != 0:
            fails.append({"what": "invariant-search-crashed", "stderr": err[-500:], "no_input": True})
        for line in out.splitlines():
            if line.startswith("viol "):
                d = kv(line)
                fails.append({"what": "axis-or-glyph-range-invariant-broken", "which": d.get("what", ""), "font": d.get("font"),
                              "fonthex": d.get("fonthex"), "index": d.get("index", "0"), "var": d.get("var", "-"),
                              "req": d.get("req", ""), "nf": None if d.get("nf", "-") == "-" else int(d["nf"]),
                              "dir": d.get("dir"), "out": d.get("out", "")[:2000]})
            elif line.startswith("known "):
                d = kv(line)
                known_seen.append({"font": d.get("font") or "generated", "req": d.get("req", ""), "nf": d.get("nf"), "which": d.get("what", "")})
            elif line.startswith("anomaly"):
                fails.append({"what": "generator-anomaly", "line": line[:300], "no_input": True})
            m = re.match(summary_re, line)
            if m:
                for k, v in kv(line).items():
                    tot[k] = tot.get(k, 0) + int(v)
    chk.note(label, tot)
    chk.add_eval(tot.get("shapes", 0), tot.get("nontrivial", 0))
    return tot


def invariants(chk, binp, thorough):
    fails, known_seen = [], []
    parts = C.NPROC
    per = 60 if thorough else 3
    res = run_parts(binp, [["c16", "inv", "--seed", chk.seed, "--per", per, "--part", p, "--parts", parts] for p in range(parts)])
    tot = collect_inv(chk, res, r"inv-summary ", fails, known_seen, "corpus_invariants")
    if tot.get("fonts", 0) < 400:
        fails.append({"what": "corpus-not-covered", "fonts": tot.get("fonts", 0), "no_input": True})
    n, pg = (2400, 16) if thorough else (120, 8)
    res = run_parts(binp, [["c16", "gen", "--seed", chk.seed + 7919 * p, "--n", max(1, n // parts), "--per", pg] for p in range(parts)])
    collect_inv(chk, res, r"gen-summary ", fails, known_seen, "generated_gpos_kern_invariants")
    # fonts with TrueType outlines (glyf/loca written by fontgen): advances and the origin shift of vertical text
    # against the font's own hmtx / vmtx / hhea / glyph boxes (floor division for the centred box, zero extents
    # for empty glyphs); implementation-level predicate, the Gallina model covers outline-free fonts only
    n, pg = (4800, 8) if thorough else (480, 6)
    res = run_parts(binp, [["c16", "glyf", "--seed", chk.seed + 104729 * p, "--n", max(1, n // parts), "--per", pg] for p in range(parts)])
    collect_inv(chk, res, r"glyf-summary ", fails, known_seen, "outline_font_metrics")
    # fallback spaces (a typographic space the font does not map is shown with the U+0020 glyph and an advance derived
    # from the em / the digits / the punctuation, along the run axis and with that axis' sign): outside the Gallina
    # model's domain (Model/Simple.v excludes spaces), judged against the font's own tables
    res = run_parts(binp, [["c16", "spaces", "--seed", chk.seed + 15485863 * p, "--n", max(1, n // parts), "--per", pg] for p in range(parts)])
    collect_inv(chk, res, r"spaces-summary ", fails, known_seen, "fallback_space_metrics")
    # runs in which OTHER characters are replaced by their canonical decomposition (the font lacks them; the model's
    # alphabet excludes decomposable characters): every mapped non-mark character keeps its cmap glyph and metrics
    res = run_parts(binp, [["c16", "singletons", "--seed", chk.seed + 32452843 * p, "--n", max(1, n // parts), "--per", pg] for p in range(parts)])
    collect_inv(chk, res, r"singletons-summary ", fails, known_seen, "decomposing_run_metrics")
    return fails, known_seen


def witness(chk, binp):
    """The known finding's witness on the real code: (still_fails, line)."""
    rc, out, err = C.run_rbv(binp, ["c16", "witness"])
    return ("known what=gid-over-0xFFFF" in out), out.strip()


def run(chk):
    thorough = chk.tier == "thorough"
    chk.cov["rule"] = (
        "model correspondence: generated fonts (cmap format 4/12/both, cmap14, random u16 advances incl. 0, odd and > 32767, with/without "
        "vhea+vmtx, random ascender/descender incl. i16-overflowing ascender-descender) x random requests (0..12 characters of ASCII, "
        "Cyrillic, Hebrew, CJK, PUA, supplementary PUA, mirrored and vertical-form punctuation, unmapped characters, variation selectors "
        "with and without cmap-14 entry and a not-found glyph up to 2^17; direction forced x4 or guessed; script guessed or forced; three "
        "cluster levels; flags, features, context) compared glyph by glyph with Model/Simple.v; the same cases are judged by the "
        "property's first sentence computed in Python from the font's cmap/hmtx/vmtx. Invariant search: every corpus font (all faces of "
        "collections, variable fonts also at random coordinates) x random texts from its cmap + marks/joiners/spaces/selectors x "
        "{ltr,rtl,ttb,btt,unset} x features/flags/levels/scripts, and generated GPOS (single/pair with yAdvance in horizontal text, "
        "cursive, mark-base, mark-mark) + kern (horizontal/vertical, cross-stream) fonts. non-trivial = distinct non-empty request "
        "(correspondence); a positioning table moved a glyph or a not-found-VS glyph was requested (search)")
    pr = chk.prove(extra_targets=["Corr/SimpleC.vo"])
    broken = []
    if chk.guards_failed:
        broken += ["translator-guard:%s (%s)" % g for g in chk.guards_failed]
    if not pr["ok"]:
        broken += ["proof:" + f for f in pr["failed"]]
    ok, binp, blog = C.cargo_build("release", hooks=True)
    dis, fails, known_seen = [], [], []
    if not ok:
        broken.append("hook-build-failed: " + blog[-600:])
    else:
        d1, f1 = correspondence(chk, binp, 400 if thorough else 48, 100 if thorough else 40)
        dis += d1
        fails += f1
        # overflow-checked + debug-assertion build: same cases judged the same way (a panic is a failure);
        # keeps the tall fonts (ascender - descender > 32767) of the defect fixed in 836488e as regression
        ok2, binc, blog2 = C.cargo_build("checked", hooks=True)
        if ok2:
            d3, f3 = correspondence(chk, binc, 60 if thorough else 18, 50 if thorough else 30, label="simple_correspondence_checked_build", seed_off=101)
            dis += d3
            fails += f3
        else:
            broken.append("checked-build-failed: " + blog2[-600:])
        f2, known_seen = invariants(chk, binp, thorough)
        fails += f2
        still, wline = witness(chk, binp)
        chk.note("known_witness", wline)
        if still:
            known_seen.append({"font": "FontSpec::basic(4)", "req": "text=E000:0,FE00:1 nf=74565", "which": wline})
        elif chk.is_known(KNOWN_CLS):
            chk.note("known_entry_stale", "the witness of class %s no longer fails: remove the known: line" % KNOWN_CLS)
            C.log("C16: KNOWN_FINDINGS entry %s is stale (witness no longer fails)" % KNOWN_CLS)
    chk.note("correspondence_disagreements", len(dis))
    nknown = sum(int(chk.notes.get(k, {}).get("known", 0)) for k in ("corpus_invariants", "generated_gpos_kern_invariants")) + (1 if known_seen else 0)
    chk.note("known_class_hits", nknown)
    # ---- verdict
    if known_seen:
        if chk.is_known(KNOWN_CLS):
            chk.known_finding(KNOWN_CLS, "set_not_found_variation_selector_glyph(g) with g > 0xFFFF is emitted verbatim as a glyph id "
                              "(%d hits; e.g. %s)" % (nknown, json.dumps(known_seen[0])[:300]))
        else:
            k = known_seen[0]
            chk.violation("glyph-id-over-0xFFFF", {"class": KNOWN_CLS, "font": k["font"], "req": k["req"], "nf": k["nf"],
                                                   "what": k["which"], "hits": nknown})
    real = [f for f in fails if not f.get("no_input")]
    for f in real[:5]:
        chk.violation(f["what"], f)
    soft = [f for f in fails if f.get("no_input")]
    if not real and (broken or dis or soft):
        chk.violation("tie-or-proof-broken", {"broken": broken, "disagreements": dis[:10], "other": soft[:5],
                      "note": "theorems of Props/C16.v or the model/implementation correspondence no longer check; neither the direct "
                              "evaluation of the property on generated fonts nor the invariant search found a failing input"}, no_input=True)
    chk.assumptions = [
        "theorems are about the Gallina model Model/Simple.v; model == code is checked by correspondence on this run's cases, not proved",
        "Unicode data (general category, default-ignorable, bidi mirroring, vertical forms) enter as an oracle record; the theorems "
        "hold for every oracle, the correspondence uses the values of the real functions (hooks) and the generator's alternates tables",
        "domain of C16_simple_*: characters that are not marks / default ignorables; unmapped characters are assumed to have no canonical "
        "decomposition, no space fallback and to differ from U+2011 (then they get .notdef); fonts without GSUB/GPOS/GDEF/kern/kerx/morx/"
        "trak, without glyf/CFF/VORG/OS2, not variable; default or Hebrew shaper",
        "C16_gid16_outside_known assumes the font's cmap / cmap-14 glyph ids are < 2^16 (they are u16 in the file format)",
    ]
    chk.cov["trusted_base"] = C.DEFAULT_TRUSTED_BASE + [
        "hooks used only to read Unicode properties for the oracle (verif::unicode::init_unicode_props, verif::normalize::info_props/decompose)",
        "harness/src/fontgen (font writer) and ttf-parser (font parser): not modelled",
        "GPOS value-record / cursive / kern writers in Model/Simple.v are transcriptions tied only by the implementation-level invariant search"]


def replay(chk, path):
    body = json.load(open(path))
    print(json.dumps({k: (str(v)[:40] + "..." if k in ("fonthex", "pred") and v else v) for k, v in body.items()}, indent=1)[:4000])
    ok, binp, _ = C.cargo_build("release", hooks=True)
    if not ok:
        print("harness build failed")
        return 1
    if body.get("witness"):
        still, line = witness(chk, binp)
        print(line)
        return 1 if still else 0
    args = ["c16", "one", "--req", body.get("req", ""), "--index", body.get("index", "0") or "0"]
    if body.get("fonthex"):
        args += ["--fonthex", body["fonthex"]]
    elif body.get("font") and os.path.exists(str(body["font"])):
        args += ["--font", body["font"]]
    else:
        print("no font in the replay file; re-running the searches")
        fails, known = invariants(chk, binp, False)
        for f in fails[:5]:
            print("STILL FAILING:", json.dumps(f)[:600])
        return 1 if fails else 0
    if body.get("nf") not in (None, "-", ""):
        args += ["--nf", str(body["nf"])]
    if body.get("var") not in (None, "-", ""):
        args += ["--var", body["var"]]
    rc, out, err = C.run_rbv(binp, args)
    print(out.strip())
    bad = any(l.startswith(("viol", "known", "panic")) for l in out.splitlines())
    if body.get("pred") and out.startswith("ok "):
        pr = body["pred"]
        fd = dict(pr["fd"])
        fd["cmap"] = {int(k): int(v) for k, v in fd["cmap"]}
        d = kv(out.splitlines()[0])
        case = {"out": parse_out(d["out"]), "dir": d["dir"], "text": [tuple(t) for t in pr["text"]], "nf": pr["nf"]}
        why = predicate_simple(fd, case, {int(k): set(v) for k, v in pr["alts"].items()}, set(pr["vs"]))
        print("property predicate on this output:", why or "holds")
        bad = bad or bool(why)
    if bad:
        print("STILL FAILING")
    return 1 if bad else 0
