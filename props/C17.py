"""C17 — AAT morx subtables run as the extended state-machine model prescribes.
Proof: Props/C17.v (23 theorems, closed) over Model/Morx.v + Model/MorxPipe.v: the rearrangement verb body
(literal nibble-MAP loops) = Apple's verb table for all 16 verbs and every marked range <= 64 (+ general MAP
byte, guard, permutation); non-contextual = map, clusters untouched; the drive loop never runs out of fuel
for all four state-machine kinds and every state table (potential = remaining input + DONT_ADVANCE budget);
exact single transitions: contextual (mark + current substitution), insertion at the current and at the
marked glyph (before/after, order, copies of the anchor), ligature pair (pops follow the action list,
ligature at the stored position, 0xFFFF for the other component, min cluster at levels 0/1); paired
reversals restore the order; flag/direction gating is exactly the code's test; chain flag compilation
with a `feat` table and user features: one entry = (flags & disable) | enable, entries fold in table
order, features absent from feat or without mapping change nothing, global / range-restricted ranges.
Tie: generated morx fonts (harness/src/c17.rs, fontgen) printed as Coq `font` terms; rustybuzz::shape
results (gid, cluster) compared with `shape_morx` by vm_compute (Corr/MorxC.v `summary`).
Search: implementation-level oracles on restricted fonts (non-contextual map, rearrangement verb table by
pattern, pair ligature, insertion before/after, range-restricted feature per glyph on non-contextual and
contextual subtables, chain-flag compilation by an independent fold), a malformed-font stream (release and overflow-checked
build, per-shape watchdog) and the corpus morx fonts under the generic predicates (no panic, clusters from
the input, length bound); corpus/C17-*.json regression cases run first."""
import base64
import glob
import json
import os
import re

import common as C

LEVEL = "proof"

HDR = ("From Coq Require Import List NArith ZArith Bool.\n"
       "From RB Require Import Base.Result Model.Buffer Model.Font Model.Morx Model.MorxFeat Model.MorxPipe Corr.MorxC.\n"
       "Import ListNotations.\nLocal Open Scope N_scope.\n")

SLOW_STREAM = {}
CASES_SEEN = []
FX = []      # cases whose result depends on the user features
FEATS = {}   # font index -> Coq term of its feat table (option feat_table), well-formed stream of this run
SLOW = []   # shapes abandoned by the harness watchdog (recorded in the evidence, not a C17 predicate)
KINDS = ["rearrangement", "contextual", "ligature", "noncontextual", "insertion"]
DIRS = {"ltr": "LTR", "rtl": "RTL", "ttb": "TTB", "btt": "BTT"}


def parse_req(req):
    d = dict(tok.split("=", 1) for tok in req.split() if "=" in tok)
    text = []
    if d.get("text"):
        for it in d["text"].split(","):
            c, k = it.split(":")
            text.append((int(c, 16), int(k)))
    ufs = []
    if d.get("uf", "-") != "-":
        for it in d["uf"].split(","):
            ufs.append(tuple(int(x) for x in it.split(":")))
    return text, d.get("dir", "ltr"), int(d.get("level", "0")), ufs


def coq_pairs(ps):
    return "[" + "; ".join("(%d, %d)" % p for p in ps) + "]"


def coq_case(req, res):
    text, d, lvl, ufs = parse_req(req)
    if res.startswith("ok"):
        body = res[2:].strip()
        out = [tuple(int(x) for x in it.split("=")) for it in body.split(",")] if body else []
        o = "(EFull %s)" % coq_pairs(out)
    elif res.startswith("big"):
        _, n, h = res.split()
        o = "(EDigest %s %s)" % (n, h)
    else:
        o = "EPanic"
    uf = "[" + "; ".join("mkUF %d %d %d %d" % u for u in ufs) + "]"
    # evaluation cut (Model/Morx.v eval_fuel): cases with a long output run uncut; the others are abandoned (and counted) when a
    # streaming subtable loops more than EVAL_CAP times — an exploding intermediate buffer costs the list-based model minutes
    cap = 0 if heavy(res) else EVAL_CAP
    return "mkCase %s %d %s %s %s %d" % (DIRS[d], lvl, coq_pairs(text), uf, o, cap)


EVAL_CAP = 2500


def heavy(res):
    """long outputs cost the list-based model minutes (quadratic appends): only a bounded number is compared"""
    return res.startswith("big") or res.startswith("panic")


def run_gen(binp, seed, n, texts, stream, first=0):
    rc, out, err = C.run_rbv(binp, ["c17", "gen", "--seed", seed, "--n", n, "--texts", texts, "--stream", stream, "--first", first], timeout=1200)
    if rc != 0:
        raise RuntimeError("rbv c17 gen failed: " + err[-800:])
    fonts = {}
    cases = {}
    generic = []
    summary = None
    for l in out.splitlines():
        if l.startswith("slow "):
            SLOW.append(l)
            SLOW_STREAM[l] = stream
    for line in out.splitlines():
        if line.startswith("font "):
            _, i, term = line.split(" ", 2)
            fonts[int(i)] = term
        elif line.startswith("fx "):
            FX.append(line)
        elif line.startswith("feat "):
            _, i, term = line.split(" ", 2)
            FEATS[int(i)] = term
        elif line.startswith("case "):
            m = re.match(r"case (\d+) (\d+) (.*) -> (.*)$", line)
            cases.setdefault(int(m.group(1)), []).append((int(m.group(2)), m.group(3), m.group(4)))
        elif line.startswith("generic-fail "):
            m = re.match(r"generic-fail (\d+) (\d+) (.*?) :: (.*?) :: (.*)$", line)
            generic.append({"font": int(m.group(1)), "text": int(m.group(2)), "why": m.group(3), "request": m.group(4), "output": m.group(5)})
        elif line.startswith("genbug"):
            generic.append({"genbug": line})
        elif line.startswith("gen-summary"):
            summary = line
    return fonts, cases, generic, summary


def dump_font(binp, seed, stream, i):
    rc, out, err = C.run_rbv(binp, ["c17", "dump", "--seed", seed, "--stream", stream, "--font", i])
    d = {}
    for line in out.splitlines():
        k, _, v = line.partition(" ")
        d[k] = v
    return d


def shape_b64(binp, b64, req, timeout=10):
    rc, out, err = C.run_rbv(binp, ["c17", "bytes", "--req", req], stdin=b64, timeout=timeout)
    if rc == 124:
        return "panic timeout: no answer within %d s" % timeout
    return out.strip()


def diagnose(font_term, req, res, feat_term="None"):
    """Model's answer for one case (for the replay file)."""
    body = HDR + "Definition f : gfont := (%s, %s).\nEval vm_compute in (diagnose f (%s)).\n" % (font_term, feat_term or "None", coq_case(req, res))
    try:
        out = C.coq_eval("c17_diag_%d" % os.getpid(), body, timeout=150)
        l = C.parse_eval_lists(out)
        if l and l[0] and l[0][0] == 1:
            v = l[0][2:]
            return {"model": "ok", "ambiguity_flags": l[0][1], "glyphs": ",".join("%d=%d" % (v[i], v[i + 1]) for i in range(0, len(v), 2))}
        return {"model": "error", "raw": l}
    except Exception as ex:  # noqa
        return {"model": "diagnose-failed", "error": str(ex)[-400:]}


def correspondence(chk, binp, n_fonts, texts, per_file, max_heavy):
    """Well-formed stream against the model. Returns (disagreements, stats)."""
    fonts, cases, generic, summary = run_gen(binp, chk.seed, n_fonts, texts, "wf")
    CASES_SEEN.append([r for cs in cases.values() for _, r, _ in cs])
    ids = sorted(fonts)
    jobs = []
    index = {}
    heavy_cases = []
    for s in range(0, len(ids), per_file):
        chunk = ids[s:s + per_file]
        body = HDR
        flat = []
        for i in chunk:
            body += "Definition f%d : gfont := (%s, %s).\n" % (i, fonts[i], FEATS.get(i, "None"))
            cs = [c for c in cases.get(i, []) if not heavy(c[2])]
            heavy_cases += [(i, j, r, o) for j, r, o in cases.get(i, []) if heavy(o)]
            body += "Definition c%d : list mcase := [\n%s].\n" % (i, ";\n".join(coq_case(r, o) for _, r, o in cs))
            flat += [(i, j, r, o) for j, r, o in cs]
        body += "Eval vm_compute in (summary [%s]).\n" % "; ".join("(f%d, c%d)" % (i, i) for i in chunk)
        name = "c17_wf_%d" % (s // per_file)
        jobs.append((name, body))
        index[name] = flat
    # heavy cases: one per file, at most max_heavy, spread over distinct fonts first
    seen = set()
    chosen = []

    def out_len(hc):
        m = re.match(r"big (\d+)", hc[3])
        return int(m.group(1)) if m else 10 ** 9

    # shortest first: the cost of the list-based model grows quadratically with the buffer length
    for hc in sorted(heavy_cases, key=out_len):
        if hc[0] not in seen and len(chosen) < max_heavy:
            seen.add(hc[0])
            chosen.append(hc)
    for n_, (i, j, r, o) in enumerate(chosen):
        name = "c17_heavy_%d" % n_
        body = HDR + "Definition f%d : gfont := (%s, %s).\n" % (i, fonts[i], FEATS.get(i, "None"))
        body += "Eval vm_compute in (summary [(f%d, [%s])]).\n" % (i, coq_case(r, o))
        jobs.append((name, body))
        index[name] = [(i, j, r, o)]
    # a file of ~400 short cases takes 5-30 s; a run-away model evaluation (only when the implementation deviates) is cut off
    res = C.coq_eval_many(jobs, timeout=600)
    dis = []
    tot = {"cases": 0, "agree": 0, "outside_table": 0, "outside_alloc": 0, "both_fail": 0, "evaluation_abandoned": 0, "moved": 0,
           "long_output_cases": len(heavy_cases), "long_output_cases_compared": len(chosen)}
    kinds = {k: [0, 0] for k in KINDS}
    timed_out = []
    for name, out in sorted(res.items()):
        if isinstance(out, Exception) and "rc=124" in str(out):
            # the list-based model needs minutes where a state machine spends its whole operation budget on non-advancing
            # transitions (1024 per character; the implementation does that in microseconds): the file is cut off
            timed_out.append(name)
            continue
        if isinstance(out, Exception):
            dis.append({"what": "cases-file-failed", "file": name, "error": str(out)[-800:]})
            continue
        lists = C.parse_eval_lists(out)
        if not lists or len(lists[0]) < 1 or len(lists[0]) != 1 + lists[0][0] + 6 + 10 + 1:
            dis.append({"what": "no-answer", "file": name, "raw": out[-300:]})
            continue
        l = lists[0]
        k = l[0]
        for gi in l[1:1 + k]:
            i, j, r, o = index[name][gi]
            dis.append({"what": "model-and-implementation-differ", "font": i, "text": j, "request": r, "implementation": o[:2000],
                        "font_term": fonts[i], "feat_term": FEATS.get(i, "None")})
        st = l[1 + k:]
        for key, v in zip(["cases", "agree", "outside_table", "outside_alloc", "both_fail", "evaluation_abandoned"], st[:6]):
            tot[key] += v
        for n_, kname in enumerate(KINDS):
            kinds[kname][0] += st[6 + 2 * n_]
            kinds[kname][1] += st[7 + 2 * n_]
        tot["moved"] += st[16]
    # files cut off: reported as not evaluated (evidence), as the abandoned cases inside a file are; a broken tie only when they
    # are many, or in the quick tier (whose files all finish on the unchanged tree)
    tot["files_cut_off_not_evaluated"] = len(timed_out)
    chk.note("model_evaluation_cut_off", timed_out)
    if timed_out and (chk.tier != "thorough" or len(timed_out) * 20 > len(res)):
        for name in timed_out:
            dis.append({"what": "cases-file-failed", "file": name, "error": "cut off after the time limit"})
    return dis, tot, kinds, generic, fonts


def generic_streams(chk, binp, n_mal, texts):
    fonts, cases, generic, summary = run_gen(binp, chk.seed, n_mal, texts, "mal")
    m = re.search(r"shapes=(\d+)", summary or "")
    return generic, int(m.group(1)) if m else 0


def oracles(chk, binp, n):
    rc, out, err = C.run_rbv(binp, ["c17", "oracle", "--seed", chk.seed, "--n", n], timeout=900)
    fails = []
    stats = {}
    for line in out.splitlines():
        if line.startswith("oracle-fail "):
            parts = line.split(" :: ")
            fails.append({"what": "oracle-" + parts[0].split()[1], "detail": parts[0], "request": parts[1] if len(parts) > 1 else "",
                          "font_base64": parts[2] if len(parts) > 2 else "", "morx": parts[3] if len(parts) > 3 else ""})
        m = re.match(r"oracle-summary (\S+) runs=(\d+) changed=(\d+) fails=(\d+)", line)
        if m:
            stats[m.group(1)] = {"runs": int(m.group(2)), "changed": int(m.group(3)), "fails": int(m.group(4))}
    if rc != 0:
        fails.append({"what": "oracle-crashed", "stderr": err[-500:]})
    return fails, stats


def corpus_cases():
    """Regression cases of corpus/C17-*.json: (file cases on corpus fonts, cases carrying their own font bytes)."""
    res = []
    emb = []
    for p in sorted(glob.glob(os.path.join(C.CORPUS, "C17-*.json"))):
        body = json.load(open(p))
        for c in body.get("cases", []):
            if "font_base64" in c:
                emb.append((os.path.relpath(p, C.VERIF), c))
            else:
                res.append((os.path.relpath(p, C.VERIF), c["font"], c["request"]))
    return res, emb


def run_cases(binp, cs):
    stdin = "".join("%s\t%s\n" % (f, r) for _, f, r in cs)
    rc, out, err = C.run_rbv(binp, ["c17", "cases"], stdin=stdin)
    fails = []
    n = 0
    for line in out.splitlines():
        if line.startswith("case-ok"):
            n += 1
        elif line.startswith("case-fail"):
            n += 1
            parts = line[len("case-fail "):].split(" :: ")
            fails.append({"what": "corpus-regression-case", "font": parts[0], "request": parts[1], "why": parts[2]})
    if rc != 0 or n != len(cs):
        fails.append({"what": "corpus-cases-crashed", "stderr": err[-500:], "answered": n, "asked": len(cs)})
    return fails, n


def run_embedded_cases(binp, emb):
    """cases with their own font bytes, each under its time limit"""
    fails = []
    binc = None
    for path, c in emb:
        limit = c.get("max_ms", 4000) / 1000.0
        use = binp
        if c.get("profile") == "checked":
            if binc is None:
                okc, binc, _ = C.cargo_build("checked", hooks=True)
                if not okc:
                    fails.append({"what": "corpus-regression-case", "corpus_file": path, "why": "checked profile does not build"})
                    continue
            use = binc
        rc, out, err = C.run_rbv(use, ["c17", "bytes", "--req", c["request"]], stdin=c["font_base64"], timeout=limit + 1.0)
        out = out.strip()
        if rc == 124:
            fails.append({"what": "corpus-regression-case", "corpus_file": path, "request": c["request"], "font_base64": c["font_base64"],
                          "why": "shaping did not finish within %d ms" % c.get("max_ms", 4000)})
        elif out.startswith("ok") and "generic-fail" not in out and "expect" in c and out[2:].strip() != c["expect"]:
            fails.append({"what": "corpus-regression-case", "corpus_file": path, "request": c["request"], "font_base64": c["font_base64"],
                          "profile": c.get("profile", "release"), "why": "got %s, expected %s" % (out[2:].strip()[:200], c["expect"])})
        elif not out.startswith("ok") or "generic-fail" in out:
            fails.append({"what": "corpus-regression-case", "corpus_file": path, "request": c["request"], "font_base64": c["font_base64"],
                          "profile": c.get("profile", "release"), "why": out[:300]})
    return fails, len(emb)


def corpus_random(chk, binp, per_font):
    rc, out, err = C.run_rbv(binp, ["c17", "corpus", "--seed", chk.seed, "--per-font", per_font], timeout=1200)
    fails = []
    stats = {}
    for line in out.splitlines():
        if line.startswith("corpus-fail "):
            parts = line[len("corpus-fail "):].split(" :: ")
            fails.append({"what": "corpus-generic-predicate", "font": parts[0], "request": parts[1], "why": parts[2]})
        m = re.match(r"corpus-summary fonts=(\d+) shapes=(\d+) changed=(\d+) failures=(\d+)", line)
        if m:
            stats = {"fonts": int(m.group(1)), "shapes": int(m.group(2)), "changed": int(m.group(3)), "failures": int(m.group(4))}
    if rc != 0:
        fails.append({"what": "corpus-crashed", "stderr": err[-500:]})
    return fails, stats


def run(chk):
    thorough = chk.tier == "thorough"
    chk.cov["rule"] = ("public API on generated morx fonts (all five subtable kinds, class tables in lookup formats 0/2/6/8, 2-6 states, random entry "
                       "flags, payload tables in range, coverage bits incl. vertical/backwards/all-directions/logical, several chains with default "
                       "flags and up to 5 feature entries with overlapping masks, optional feat table) x user features (on/off/aalt values/ranges/unmapped tags) x random PUA texts x directions LTR/RTL/TTB/BTT x cluster levels 0/1/2, compared with Model/MorxPipe.v shape_morx by "
                       "vm_compute; implementation-level oracles (non-contextual map, rearrangement verb table by pattern, pair ligature, insertion "
                       "before/after at current and marked glyph, range-restricted features per glyph, chain flags with feat + liga/smcp requests); malformed-font stream and corpus morx fonts under no-panic / clusters-from-input / "
                       "length-bound. non-trivial = glyph string differs from the plain cmap mapping")
    pr = chk.prove(extra_targets=["Corr/MorxC.vo"])
    broken = []
    if chk.guards_failed:
        broken += ["translator-guard:%s (%s)" % tuple(g) for g in chk.guards_failed]
    if not pr["ok"]:
        broken += ["proof:" + f for f in pr["failed"]]
    ok, binp, blog = C.cargo_build("release", hooks=True)
    if not ok:
        chk.violation("tie-or-proof-broken", {"broken": broken + ["hook-build-failed: " + blog[-600:]]}, no_input=True)
        return
    fails = []
    # ---- regression cases first
    cc, emb = corpus_cases()
    f0, n0 = run_cases(binp, cc)
    f0e, n0e = run_embedded_cases(binp, emb)
    fails += f0 + f0e
    chk.add_eval(n0 + n0e, n0 + n0e)
    chk.note("corpus_regression_cases", {"run": n0 + n0e, "failed": len(f0) + len(f0e)})
    # ---- oracles
    f1, ostats = oracles(chk, binp, 160 if thorough else 48)
    fails += f1
    for k, v in ostats.items():
        chk.add_eval(v["runs"], v["changed"])
    chk.note("oracles", ostats)
    # ---- model correspondence
    dis, tot, kinds, generic, fonts = correspondence(chk, binp, 1500 if thorough else 300, 16, 25, 24 if thorough else 3)
    chk.add_eval(tot["cases"], tot["moved"])
    nuf = sum(1 for cs in CASES_SEEN for c in cs if "uf=-" not in c)
    nrg = sum(1 for cs in CASES_SEEN for c in cs if "uf=" in c and "uf=-" not in c and
              any(not u.endswith(":0:4294967295") for u in re.search(r"uf=(\S+)", c).group(1).split(",")))
    chk.note("texts_of_70_to_300_glyphs_compared", sum(1 for cs in CASES_SEEN for c in cs if c.split("text=", 1)[1].split(" ", 1)[0].count(",") >= 69))
    chk.note("user_features", {"fonts_with_feat": sum(1 for v in FEATS.values() if v != "None"), "fonts": len(FEATS),
                               "cases_with_user_features": nuf, "cases_with_range_restricted_features": nrg,
                               "cases_whose_result_depends_on_the_features": len(FX)})
    chk.note("model_correspondence", tot)
    chk.note("subtable_kinds_ran_changed", {k: {"ran": v[0], "changed_string": v[1]} for k, v in kinds.items()})
    for g in generic:
        g2 = dict(g)
        g2["what"] = "generated-font-generic-predicate"
        g2["stream"] = "wf"
        fails.append(g2)
    # ---- malformed stream
    gm, nm = generic_streams(chk, binp, 3000 if thorough else 600, 8)
    chk.add_eval(nm, 0)
    chk.note("malformed_stream_shapes", nm)
    chk.note("shapes_abandoned_by_watchdog_4s", SLOW[:12])
    for line in SLOW:
        m = re.match(r"slow (\d+) (\d+) (\S+) :: (.*)$", line)
        if m:
            fails.append({"what": "generated-font-shaping-too-slow", "font": int(m.group(1)), "text": int(m.group(2)),
                          "why": "no answer within the watchdog limit (" + m.group(3) + ")", "request": m.group(4), "stream": SLOW_STREAM.get(line, "mal")})
    for g in gm:
        g2 = dict(g)
        g2["what"] = "generated-font-generic-predicate"
        g2["stream"] = "mal"
        fails.append(g2)
    # ---- malformed stream on the overflow-checked build (overflow-checks + debug-assertions)
    okc, binc, blogc = C.cargo_build("checked", hooks=True)
    if not okc:
        broken.append("checked-build-failed: " + blogc[-400:])
    else:
        _, _, gc, sc = run_gen(binc, chk.seed, 3000 if thorough else 500, 8, "mal")
        mc = re.search(r"shapes=(\d+)", sc or "")
        chk.add_eval(int(mc.group(1)) if mc else 0, 0)
        chk.note("malformed_stream_shapes_checked_build", {"shapes": int(mc.group(1)) if mc else 0, "failures": len(gc)})
        for g in gc:
            if "panic:Overflow" in g.get("why", "") and chk.is_known("morx_overflow_checked_build"):
                chk.known_finding("morx_overflow_checked_build", "arithmetic overflow panic in an overflow-checked build: mal stream font %s, %s" % (g.get("font"), g.get("request", "")[:120]))
                continue
            g2 = dict(g)
            g2["what"] = "generated-font-generic-predicate-checked-build"
            g2["stream"] = "mal"
            g2["profile"] = "checked"
            fails.append(g2)
    # ---- corpus fonts
    f3, cstats = corpus_random(chk, binp, 400 if thorough else 60)
    fails += f3
    chk.add_eval(cstats.get("shapes", 0), cstats.get("changed", 0))
    chk.note("corpus_morx_fonts", cstats)
    chk.note("correspondence_disagreements", len(dis))
    # ---- verdicts
    reported = 0
    rest_fails = []
    for f in fails:
        if f.get("profile") == "checked" and "Overflow" in str(f.get("why")) and chk.is_known("morx_overflow_checked_build"):
            chk.known_finding("morx_overflow_checked_build", "arithmetic overflow panic in an overflow-checked build: %s" % str(f.get("request"))[:120])
        else:
            rest_fails.append(f)
    fails = rest_fails
    for f in fails:
        if reported >= 5:
            break
        payload = dict(f)
        if "font" in f and isinstance(f["font"], int):
            d = dump_font(binp, chk.seed, f.get("stream", "wf"), f["font"])
            payload.update({"font_spec": d.get("spec"), "font_base64": d.get("b64"), "font_coq": d.get("coq"), "feat_term": d.get("featcoq")})
        payload["how_to_replay"] = "./check C17 --replay <this file>"
        chk.violation(f["what"], payload)
        reported += 1
    for d in dis[:5]:
        payload = dict(d)
        if "font" in d:
            dd = dump_font(binp, chk.seed, "wf", d["font"])
            payload.update({"font_spec": dd.get("spec"), "font_base64": dd.get("b64")})
            payload["model_says"] = diagnose(d["font_term"], d["request"], d["implementation"], d.get("feat_term"))
            payload["how_to_replay"] = "./check C17 --replay <this file>"
            payload["note"] = ("rustybuzz::shape and the extended state-machine model (Model/MorxPipe.v shape_morx) give different glyphs/clusters "
                               "for this generated font and text")
            chk.violation(d["what"], payload)
        else:
            broken.append("%s:%s" % (d["what"], d.get("file")))
    if broken and not fails and not [d for d in dis if "font" in d]:
        chk.violation("tie-or-proof-broken", {"broken": broken, "note": "Props/C17.v or the cases files no longer check; no failing input found"}, no_input=True)
    elif broken:
        chk.note("also_broken", broken)
    chk.cov["trusted_base"] = C.DEFAULT_TRUSTED_BASE + [
        "harness/src/fontgen (font writer + Coq printer of the same FontSpec), ttf-parser's morx/aat parsing is inside the compared implementation",
        "Model/Buffer.v (zipper buffer; validated separately against hb_buffer_t by random op sequences)"]
    chk.assumptions = C.DEFAULT_ASSUMPTIONS + [
        "domain: PUA text (default shaper, no GSUB/GPOS/kerx); fonts with or without a `feat` table, user features (global and range-restricted) "
        "through the mapping table extracted from the source; table indices inside the written arrays (runs that leave them are counted as "
        "outside_table and not compared), buffer length budget not exceeded (outside_alloc)",
        "glyph flags (unsafe-to-break/concat) are not modelled or compared; glyph ids and clusters are"]


def replay(chk, path):
    body = json.load(open(path))
    ok, binp, _ = C.cargo_build("release", hooks=True)
    if not ok:
        print("harness build failed")
        return 1
    print("kind:", body.get("kind"))
    if body.get("profile") == "checked":
        ok, binp, _ = C.cargo_build("checked", hooks=True)
        print("(overflow-checked build)")
    req = body.get("request")
    rcode = 0
    if "cases" in body:   # a corpus file
        cs = [("replay", c["font"], c["request"]) for c in body["cases"] if "font" in c]
        emb = [("replay", c) for c in body["cases"] if "font_base64" in c]
        f1, _ = run_cases(binp, cs) if cs else ([], 0)
        f2, _ = run_embedded_cases(binp, emb)
        for f in f1 + f2:
            print("STILL FAILING:", {k: v for k, v in f.items() if k != "font_base64"})
        if not (f1 + f2):
            print("all %d case(s) pass now" % (len(cs) + len(emb)))
        return 1 if (f1 + f2) else 0
    if body.get("font_base64") and req:
        out = shape_b64(binp, body["font_base64"], req)
        print("request:", req)
        print("implementation now:", out)
        if body.get("font_coq") or body.get("font_term"):
            m = diagnose(body.get("font_term") or body.get("font_coq"), req, out if out.startswith(("ok", "panic")) else "panic", body.get("feat_term"))
            print("model:", m)
            if m.get("model") == "ok" and m.get("ambiguity_flags") == 0:
                got = out[2:].strip().split(" generic-fail")[0].strip() if out.startswith("ok") else None
                if got != m.get("glyphs"):
                    print("STILL DIFFERENT from the model")
                    rcode = 1
        if out.startswith("panic") or "generic-fail" in out:
            print("STILL FAILING (generic predicate)")
            rcode = 1
        if body.get("kind", "").startswith("oracle"):
            print("expected (oracle):", body.get("detail"))
            m = re.search(r"want=\[([^\]]*)\]", body.get("detail", ""))
            if m and out.startswith("ok"):
                want = [int(x) for x in m.group(1).split(",") if x.strip()]
                got = [int(it.split("=")[0]) for it in out[2:].strip().split(",") if it]
                if "dir=rtl" in req:
                    got.reverse()
                if got != want:
                    print("STILL FAILING (oracle): got", got)
                    rcode = 1
                else:
                    print("oracle satisfied now")
    elif body.get("font") and isinstance(body.get("font"), str) and req:
        fails, n = run_cases(binp, [("replay", body["font"], req)])
        for f in fails:
            print("STILL FAILING:", f)
            rcode = 1
        if not fails:
            print("passes now")
    else:
        print(json.dumps(body, indent=1)[:3000])
    return rcode
