"""C18 — script and language select the font's script and language-system records.
Proof: Props/C18.v over Model/Tag.v with the registry, the complex-language rules, the script tables, the
select_script fallback list and five code-shape constants regenerated from /repo/src by translator/tr_lang.py.
Tie: hook correspondence (rustybuzz::verif::tag) on every registry language, rule-derived and hand-checked
BCP 47 strings, private-use forms, random/malformed/non-ASCII strings, every known ISO 15924 script, lang_cmp
pairs, the complex matcher, generated GSUB/GPOS tables (select_script / language / required / find feature) and
the public API on generated fonts (which substitutions / adjustments happen); release and checked builds.
Search: the property evaluated on the implementation directly (registry -> first registered tag, hand-checked
pairs, case metamorphism, no panic, script order / language order on generated fonts)."""
import os
import random
import re
import struct
import sys

import common as C
from common import nlist

sys.path.insert(0, os.path.join(C.VERIF, "translator"))

LEVEL = "proof"
MY_GUARDS = {"tr_lang", "lang_table", "complex_rules", "registry_len_adjust", "lang_cmp_shape", "new_script_tags", "old_script_special",
             "no_gen3_tag", "language_from_str", "known_scripts", "script_from_iso", "script_fallbacks", "lang_fallback"}

HDR = ("From Coq Require Import List NArith Bool.\n"
       "From RB Require Import Base.Bytes Gen.LangTable Model.Tag Corr.Common Corr.TagC.\n"
       "Import ListNotations.\nLocal Open Scope N_scope.\n")


def T(s):
    b = s.encode("latin-1")
    assert len(b) == 4
    return struct.unpack(">I", b)[0]


def tag_str(t):
    return struct.pack(">I", t).decode("latin-1")


def hx(s):
    return s.encode("utf-8").hex()


def coq_bytes(s):
    return nlist(s.encode("utf-8"))


def coq_opt(x, f):
    return "None" if x is None else "Some (%s)" % f(x)


# ------------------------------------------------------------------ hand-checked expectations
# (each pair was read off the OpenType language-system tag registry / the BCP 47 registry by hand and
#  compared with the text of OPEN_TYPE_LANGUAGES in tag_table.rs when this list was written)
HAND = [
    ("en", ["ENG "]), ("de", ["DEU "]), ("fr", ["FRA "]), ("es", ["ESP "]), ("it", ["ITA "]), ("nl", ["NLD "]),
    ("pt", ["PTG "]), ("ru", ["RUS "]), ("pl", ["PLK "]), ("cs", ["CSY "]), ("sv", ["SVE "]), ("da", ["DAN "]),
    ("fi", ["FIN "]), ("el", ["ELL "]), ("tr", ["TRK "]), ("hu", ["HUN "]), ("ro", ["ROM "]), ("mo", ["MOL ", "ROM "]),
    ("bg", ["BGR "]), ("uk", ["UKR "]), ("sr", ["SRB "]), ("hr", ["HRV "]), ("sk", ["SKY "]), ("sl", ["SLV "]),
    ("ar", ["ARA "]), ("fa", ["FAR "]), ("ur", ["URD "]), ("he", ["IWR "]), ("hi", ["HIN "]), ("bn", ["BEN "]),
    ("ta", ["TAM "]), ("te", ["TEL "]), ("mr", ["MAR "]), ("gu", ["GUJ "]), ("kn", ["KAN "]), ("ml", ["MAL ", "MLR "]),
    ("pa", ["PAN "]), ("ne", ["NEP "]), ("si", ["SNH "]), ("th", ["THA "]), ("lo", ["LAO "]), ("km", ["KHM "]),
    ("my", ["BRM "]), ("ja", ["JAN "]), ("ko", ["KOR ", "KOH "]), ("zh", ["ZHS "]), ("vi", ["VIT "]), ("ka", ["KAT "]),
    ("hy", ["HYE0", "HYE "]), ("am", ["AMH "]), ("sw", ["SWK "]), ("ga", ["IRI ", "IRT "]), ("cy", ["WEL "]), ("eu", ["EUQ "]),
    ("ca", ["CAT "]), ("is", ["ISL "]), ("lt", ["LTH "]), ("lv", ["LVI "]), ("et", ["ETI "]), ("sq", ["SQI "]),
    ("mk", ["MKD "]), ("az", ["AZE "]), ("kk", ["KAZ "]), ("mn", ["MNG "]), ("bo", ["TIB "]), ("dz", ["DZN "]),
    ("sa", ["SAN "]), ("yi", ["JII "]), ("la", ["LAT "]), ("eo", ["NTO "]), ("nb", ["NOR "]), ("nn", ["NYN "]),
    ("no", ["NOR "]), ("za", ["ZHA "]), ("zzj", ["ZHA "]), ("zyj", ["ZHA "]), ("aa", ["AFR "]),
    # region / script / variant subtags
    ("es-419", ["ESP "]), ("ar-001", ["ARA "]), ("en-150", ["ENG "]), ("en-001-x-foo", ["ENG "]), ("es-Latn-419", ["ESP "]),
    ("en-US", ["ENG "]), ("en-GB", ["ENG "]), ("de-CH-1996", ["DEU "]), ("fr-CA", ["FRA "]), ("pt-BR", ["PTG "]),
    ("sr-Cyrl", ["SRB "]), ("sr-Latn-RS", ["SRB "]), ("zh-Hans", ["ZHS "]), ("zh-CN", ["ZHS "]), ("zh-Hans-CN", ["ZHS "]),
    ("zh-Hant", ["ZHT "]), ("zh-TW", ["ZHT "]), ("zh-Hant-TW", ["ZHT "]), ("zh-HK", ["ZHH "]), ("zh-Hant-HK", ["ZHH "]),
    ("zh-MO", ["ZHTM", "ZHH "]), ("zh-Hant-MO", ["ZHTM", "ZHH "]), ("zh-Hant-CN", ["ZHT "]), ("zh-Hant-SG", ["ZHT "]),
    ("zh-Hans-SG", ["ZHS "]), ("yue-Hans-CN", ["ZHS "]), ("yue", ["ZHH "]), ("cmn-Hant-TW", ["ZHT "]), ("zh-cmn", ["ZHS "]), ("zh-yue", ["ZHH "]),
    ("ga-Latg", ["IRT "]), ("ga-Latg-IE", ["IRT "]), ("ro-MD", ["MOL ", "ROM "]), ("el-polyton", ["PGR "]),
    ("und-fonipa", ["IPPH"]), ("en-fonipa", ["IPPH"]), ("und-fonnapa", ["APPH"]), ("hy-arevmda", ["HYE "]),
    ("oc-provenc", ["PRO "]), ("syr-Syre", ["SYRE"]), ("syr-Syrj", ["SYRJ"]), ("syr-Syrn", ["SYRN"]), ("ka-Geok", ["KGE "]),
    ("no-bok", ["NOR "]), ("no-nyn", ["NYN "]), ("art-lojban", ["JBO "]), ("i-navajo", ["NAV ", "ATH "]), ("i-lux", ["LTZ "]),
    # upper / mixed case
    ("EN", ["ENG "]), ("En-us", ["ENG "]), ("ZH-HANT-HK", ["ZHH "]), ("Sr-CYRL", ["SRB "]), ("ZZJ", ["ZHA "]),
    # a registry row with the null tag ("Abé != Abaza") selects nothing
    ("aba", []),
    # private use
    ("x-hbotABCD", ["ABCD"]), ("x-hbotabcd", ["ABCD"]), ("x-hbot-abcd", []), ("en-x-hbotabc", ["ABC "]), ("fr-x-hbotzhs", ["ZHS "]),
    ("x-hbotpap0-hbsccopt", ["PAP0"]), ("en-x-foo", ["ENG "]), ("en-a-bcd-x-hbotxyz1", ["XYZ1"]), ("x-hbotdflt", ["dflt"]),
    ("x-hbscdeva", []), ("en-x-hbscdev2", ["ENG "]),
]
# language -> expected *script* tags with script Beng requested
HAND_SCRIPT = [
    ("x-hbscdeva", ["deva"]), ("x-hbscDEV2", ["dev2"]), ("en-x-hbscdev3", ["dev3"]), ("x-hbscabc", ["abc "]),
    ("x-hbotpap0-hbsccopt", ["copt"]), ("x-hbscdflt", ["DFLT"]), ("en", ["bng3", "bng2", "beng"]), ("x-hbsc", ["bng3", "bng2", "beng"]),
]
# ISO 15924 -> OpenType script tags (OpenType script-tag registry; two generations for nine Indic scripts, v2 only for Myanmar)
TWO_GEN = {"Beng": "bng2", "Deva": "dev2", "Gujr": "gjr2", "Guru": "gur2", "Knda": "knd2", "Mlym": "mlm2", "Orya": "ory2",
           "Taml": "tml2", "Telu": "tel2"}
OLD_SPECIAL = {"Hira": "kana", "Laoo": "lao ", "Yiii": "yi  ", "Nkoo": "nko ", "Vaii": "vai "}
FALLBACK_SCRIPTS = [T("DFLT"), T("dflt"), T("latn")]


def spec_script_tags(iso):
    old = OLD_SPECIAL.get(iso, iso[0].lower() + iso[1:])
    if iso in TWO_GEN:
        v2 = TWO_GEN[iso]
        return [T(v2[:3] + "3"), T(v2), T(old)]
    if iso == "Mymr":
        return [T("mym2"), T(old)]
    return [T(old)]


# ------------------------------------------------------------------ inputs

NONASCII = ["é", "ß", "日", "本", "😀", "́", "İ", "ı", "K", " ", "\u0080", "߿", "ࠀ", "￿", "\U00010000"]


def rule_strings(prelude, arms):
    """Strings built from the complex-matcher rules: exact, extended with a subtag, with a non-dash
    continuation, truncated, with the region in another position, in upper case."""
    out = []
    for kind, args, _ in prelude:
        sub = args[0]
        for pre in ("und", "en", "zh-hant", "x"):
            out += [pre + sub, pre + sub + "-x", pre + sub + "x", pre + sub[:-1], pre + sub + sub, pre + sub + "é", pre + sub + "9" + sub]
    for first, rules in arms:
        f = chr(first)
        for kind, args, _ in rules:
            if kind in ("CExact", "CLang"):
                base = f + args[0]
                out += [base, base + "-xx", base + "x", base[:-1], base + "-", base.upper(), base + "-é", base + "é", "x" + base, base + "-x-hbotabcd"]
            elif kind == "CStrn":
                p, n, sub = args
                base = f + p
                out += [base + sub[1:], base + "hant" + sub, base + "hant" + sub + "-x", base + sub[1:] + "x", base + "x" + sub,
                        f + p[:-1] + sub, f + p[:-1] + "x" + sub, (base + sub[1:]).upper(), base + "é" + sub, f + "é" + sub, f + p[:1] + "é" + sub,
                        base + "a" + sub + "b" + sub]
    return out


def random_strings(rng, n, registry_langs):
    out = []
    alpha = "abcdefghijklmnopqrstuvwxyz"
    pool_sub = ["x", "hbot", "hbsc", "hbotabcd", "hbscdeva", "hant", "hans", "hk", "mo", "tw", "latn", "cyrl", "us", "fonipa",
                "polyton", "a", "b", "i", "1996", "", "é", "日本", "zh", "cmn", "yue", "und", "art", "lojban", "min", "nan", "419", "001", "0a1", "ab1"]
    for k in range(n):
        m = rng.randrange(8)
        if m == 0:     # arbitrary bytes of a small alphabet
            s = "".join(rng.choice("abxz-09AZ" + "éß日😀") for _ in range(rng.randrange(0, 10)))
        elif m == 1:   # subtags from the pool
            s = "-".join(rng.choice(pool_sub) for _ in range(rng.randrange(1, 6)))
        elif m == 2:   # registry language + pool subtags
            s = rng.choice(registry_langs) + "".join("-" + rng.choice(pool_sub) for _ in range(rng.randrange(0, 4)))
        elif m == 3:   # near-registry: mutate one char
            s = list(rng.choice(registry_langs))
            s[rng.randrange(len(s))] = rng.choice(alpha + "-é")
            s = "".join(s)
        elif m == 4:   # random 1-4 letter code, optional region
            s = "".join(rng.choice(alpha) for _ in range(rng.randrange(1, 5)))
            if rng.random() < 0.5:
                s += "-" + "".join(rng.choice(alpha) for _ in range(rng.randrange(1, 5)))
        elif m == 5:   # non-ASCII sprinkled into a plausible tag
            s = rng.choice(registry_langs + ["zh-hant-hk", "en-x-hbotabcd", "x-hbscdeva", "cmn-hant", "a-b-c"])
            p = rng.randrange(len(s) + 1)
            s = s[:p] + rng.choice(NONASCII) + s[p:]
        elif m == 6:   # private use shapes
            s = rng.choice(["", "en-", "a-", "-", "zh-hant-"]) + "x-" + rng.choice(["hbot", "hbsc", "hbo", "HBOT", "foo-hbot", "hbot-hbsc"]) + \
                "".join(rng.choice(alpha + "019-éAZ") for _ in range(rng.randrange(0, 7)))
        else:          # random case of something known
            s = rng.choice(registry_langs + ["zh-hant-hk", "en-x-hbotabcd", "sr-cyrl-rs"])
            s = "".join(c.upper() if rng.random() < 0.5 else c for c in s)
        out.append(s)
    return out


def language_inputs(chk, rows, prelude, arms, thorough):
    """list of (script or None, language or None, origin)"""
    rng = random.Random(chk.seed * 7919 + 18)
    langs = []
    seen = set()
    for l, _ in rows:
        if l not in seen:
            seen.add(l)
            langs.append(l)
    inp = [(None, l, "registry") for l in langs]
    inp += [(None, l.upper(), "registry-upper") for l in langs[::3 if not thorough else 1]]
    inp += [(None, l + "-" + rng.choice(["us", "latn", "x-foo", "zz-1996", "Hant", "a-bcd", "419", "001", "150-x-a", "4a9", "a19", "19", "1996"]), "registry-subtag") for l in langs[::4 if not thorough else 1]]
    inp += [("Beng", l, "hand") for l, _ in HAND] + [("Beng", l, "hand-script") for l, _ in HAND_SCRIPT]
    inp += [(None, s, "rule") for s in rule_strings(prelude, arms)]
    inp += [(rng.choice([None, "Deva", "Latn", "Mymr"]), s, "random") for s in random_strings(rng, 6000 if thorough else 1500, langs)]
    inp += [(None, s, "edge") for s in ["", "-", "--", "x", "x-", "-x-", "a-x-", "-x-hbot", "a", "é", "a-é", "zaé", "céé", "zé", "aé", "éa-b",
                                         "a-é-x-hbotab", "x-hbscé", "x-hbot-é", "x-hbotaéb", "en-x-hbot" + "é", "日本語", "zh-日本", "zh-hant-é", "-a-b", "a-b-", "a--b",
                                         "en-" + "a" * 300, "a" * 1000, "x-hbot" + "z" * 100, "i-é", "iéé", "İ", "kK"]]
    inp.append(("Beng", None, "no-language"))
    inp.append((None, None, "nothing"))
    # dedup preserving order
    out = []
    seen = set()
    for x in inp:
        k = (x[0], x[1])
        if k not in seen:
            seen.add(k)
            out.append(x)
    return out, langs


def run_lines(binp, sub, lines):
    rc, out, err = C.run_rbv(binp, ["c18", sub], stdin="\n".join(lines) + "\n")
    if rc != 0:
        raise RuntimeError("rbv c18 %s failed rc=%d: %s" % (sub, rc, err[-500:]))
    res = {}
    for line in out.splitlines():
        p = line.split(" ", 2)
        if len(p) >= 2 and p[0].isdigit():
            res[int(p[0])] = (p[1], p[2] if len(p) > 2 else "")
    if len(res) != len(lines):
        raise RuntimeError("rbv c18 %s answered %d of %d lines" % (sub, len(res), len(lines)))
    return [res[i] for i in range(len(lines))]


def parse_tags(ans):
    """('ok', 's|l') -> (scripts, langs) ; panic -> None"""
    if ans[0] != "ok":
        return None
    a, b = ans[1].split("|")
    f = lambda x: [int(v) for v in x.split(",") if v]
    return f(a), f(b)


def shard(name, items, per, typ, fn):
    jobs = []
    for i in range(0, len(items), per):
        body = HDR + "Definition cases : list %s := [\n%s].\n" % (typ, ";\n".join(items[i:i + per]))
        body += "Eval vm_compute in (failing %s cases).\n" % fn
        jobs.append(("%s_%d" % (name, i // per), body))
    return jobs


def collect(res, prefix, per, raw, dis, what):
    for name, out in sorted(res.items()):
        if not name.startswith(prefix + "_"):
            continue
        if isinstance(out, Exception):
            dis.append({"what": "cases-file-failed", "file": name, "error": str(out)[-600:]})
            continue
        lists = C.parse_eval_lists(out)
        if not lists:
            dis.append({"what": "no-answer", "file": name})
            continue
        base = int(name.rsplit("_", 1)[1]) * per
        for idx in lists[0]:
            dis.append({"what": what, "case": raw[base + idx]})


# ------------------------------------------------------------------ generated fonts (GSUB / GPOS)

def be16(*v):
    return b"".join(struct.pack(">H", x & 0xFFFF) for x in v)


def be32(*v):
    return b"".join(struct.pack(">I", x & 0xFFFFFFFF) for x in v)


BASE_GID = 10
SUB_GID = 110
NGLYPHS = 220
PUA = 0xE000


def langsys_bytes(ls):
    req, feats = ls
    return be16(0, 0xFFFF if req is None else req, len(feats)) + be16(*feats)


def layout_table(ly, gpos):
    """ly = {'scripts': [(tag, default or None, [(ltag, (req, feats))...])], 'feats': [tag...]}
    feature k -> lookup k: GSUB single substitution (BASE+k -> SUB+k); GPOS single adjustment xAdvance += k+1."""
    # script list
    srecs = b""
    sbodies = b""
    soff0 = 2 + 6 * len(ly["scripts"])
    for tag, dflt, langs in ly["scripts"]:
        hdr_len = 4 + 6 * len(langs)
        body_tail = b""
        d_off = 0
        if dflt is not None:
            d_off = hdr_len
            body_tail += langsys_bytes(dflt)
        lrecs = b""
        for ltag, ls in langs:
            lrecs += be32(ltag) + be16(hdr_len + len(body_tail))
            body_tail += langsys_bytes(ls)
        body = be16(d_off, len(langs)) + lrecs + body_tail
        srecs += be32(tag) + be16(soff0 + len(sbodies))
        sbodies += body
    script_list = be16(len(ly["scripts"])) + srecs + sbodies
    # feature list
    n = len(ly["feats"])
    frecs = b""
    fbodies = b""
    for k, tag in enumerate(ly["feats"]):
        frecs += be32(tag) + be16(2 + 6 * n + len(fbodies))
        fbodies += be16(0, 1, k)
    feature_list = be16(n) + frecs + fbodies
    # lookup list
    loffs = b""
    lbodies = b""
    for k in range(n):
        cov = be16(1, 1, BASE_GID + k)
        if gpos:
            cov = be16(1, 2, BASE_GID + k, SUB_GID + k)    # a GSUB table of the same font may have substituted the glyph
            sub = be16(1, 8, 0x0004, k + 1) + cov          # SinglePos format 1, xAdvance
        else:
            sub = be16(1, 6, SUB_GID - BASE_GID) + cov      # SingleSubst format 1, delta
        lk = be16(1, 0, 1, 8) + sub
        loffs += be16(2 + 2 * n + len(lbodies))
        lbodies += lk
    lookup_list = be16(n) + loffs + lbodies
    hdr = be16(1, 0, 10, 10 + len(script_list), 10 + len(script_list) + len(feature_list))
    return hdr + script_list + feature_list + lookup_list


def make_font(gsub=None, gpos=None):
    head = be32(0x00010000, 0x00010000, 0, 0x5F0F3CF5) + be16(0x000B, 1000) + b"\0" * 16 + be16(0, 0, 1000, 1000, 0, 8, 2, 0, 0)
    hhea = be32(0x00010000) + be16(800, -200 & 0xFFFF, 0, 1000, 0, 0, 1000, 1, 0, 0, 0, 0, 0, 0, 0, NGLYPHS)
    maxp = be32(0x00005000) + be16(NGLYPHS)
    hmtx = b"".join(be16(500, 0) for _ in range(NGLYPHS))
    ngroups = 1
    cmap_sub = be16(12, 0) + be32(16 + 12 * ngroups, 0, ngroups) + be32(PUA, PUA + 99, BASE_GID)
    cmap = be16(0, 1) + be16(3, 10) + be32(12) + cmap_sub
    tables = [(b"cmap", cmap), (b"head", head), (b"hhea", hhea), (b"hmtx", hmtx), (b"maxp", maxp)]
    if gpos is not None:
        tables.append((b"GPOS", layout_table(gpos, True)))
    if gsub is not None:
        tables.append((b"GSUB", layout_table(gsub, False)))
    tables.sort()
    n = len(tables)
    off = 12 + 16 * n
    recs = b""
    data = b""
    for tag, t in tables:
        pad = (-len(t)) % 4
        recs += tag + be32(0, off + len(data), len(t))
        data += t + b"\0" * pad
    return be32(0x00010000) + be16(n, 0, 0, 0) + recs + data


def coq_langsys(ls):
    req, feats = ls
    return "{| ls_req := %s; ls_feats := [%s] |}" % ("None" if req is None else "Some %d%%nat" % req, "; ".join("%d%%nat" % f for f in feats))


def coq_layout(ly):
    scs = []
    for tag, dflt, langs in ly["scripts"]:
        scs.append("(%d, {| sc_default := %s; sc_langs := [%s] |})" % (
            tag, "None" if dflt is None else "Some " + coq_langsys(dflt),
            "; ".join("(%d, %s)" % (lt, coq_langsys(ls)) for lt, ls in langs)))
    return "{| ly_scripts := [%s]; ly_feats := %s |}" % ("; ".join(scs), nlist(ly["feats"]))


GSUB_ON = ["ccmp", "locl", "rlig", "calt", "clig", "rclt"]   # not liga: the Indic / Khmer shapers switch it off
GPOS_ON = ["kern", "dist", "abvm", "blwm"]
OFF = ["ss01", "smcp", "zzzz", "cpsp"]
DEFAULT_REQUESTED = ["rvrn", "ltra", "ltrm", "Harf", "HARF", "Buzz", "BUZZ", "abvm", "blwm", "ccmp", "locl", "mark", "mkmk", "rlig",
                     "calt", "clig", "curs", "dist", "kern", "liga", "rclt"]


def rand_langsys(rng, nfeat, pool_idx):
    k = rng.randrange(0, min(5, len(pool_idx)) + 1)
    feats = sorted(rng.sample(pool_idx, k))
    req = None
    r = rng.random()
    if r < 0.45:
        req = rng.choice(pool_idx)
    elif r < 0.5:
        req = nfeat + rng.randrange(3)      # required index beyond the feature list: ignored
    return (req, feats)


def rand_layout(rng, script_cands, lang_cands, gpos, combo=None):
    """Random layout: which of the candidate scripts (+ DFLT, dflt, latn) exist, which language systems,
    default present or not, required features. `combo` forces the presence bits of the script candidates."""
    on = GPOS_ON if gpos else GSUB_ON
    ftags = sorted([T(x) for x in on + OFF] + [T(rng.choice(on)) for _ in range(rng.randrange(0, 4))])
    nfeat = len(ftags)
    pool_idx = list(range(nfeat))
    cands = list(dict.fromkeys(script_cands + FALLBACK_SCRIPTS))
    present = []
    for i, t in enumerate(cands):
        bit = (combo >> i) & 1 if combo is not None else rng.random() < 0.45
        if bit:
            present.append(t)
    if rng.random() < 0.3:
        present.append(T("zzzz"))
    if rng.random() < 0.3:
        present.append(T("AAAA"))
    scripts = []
    for t in sorted(set(present)):
        dflt = rand_langsys(rng, nfeat, pool_idx) if rng.random() < 0.7 else None
        lt = [x for x in dict.fromkeys(lang_cands + [T("dflt")]) if rng.random() < 0.4]
        if rng.random() < 0.3:
            lt.append(T("ZZZ "))
        langs = [(x, rand_langsys(rng, nfeat, pool_idx)) for x in sorted(set(lt))]
        scripts.append((t, dflt, langs))
    return {"scripts": scripts, "feats": ftags}


# independent (python) statement of the property on a generated table
def spec_select(ly, stags, ltags):
    keys = [s[0] for s in ly["scripts"]]
    chosen = None
    for t in stags:
        if t in keys:
            chosen = (1, keys.index(t), t)
            break
    if chosen is None:
        for t in FALLBACK_SCRIPTS:
            if t in keys:
                chosen = (0, keys.index(t), t)
                break
    if chosen is None:
        return None
    _, dflt, langs = ly["scripts"][chosen[1]]
    lkeys = [l[0] for l in langs]
    lidx = None
    for t in ltags + [T("dflt")]:
        if t in lkeys:
            lidx = lkeys.index(t)
            break
    sys_ = langs[lidx][1] if lidx is not None else dflt
    req = None
    if sys_ is not None and sys_[0] is not None and sys_[0] < len(ly["feats"]):
        req = (sys_[0], ly["feats"][sys_[0]])
    return chosen, lidx, req, sys_


def spec_active(ly, stags, ltags, requested):
    r = spec_select(ly, stags, ltags)
    if r is None:
        return []
    chosen, lidx, req, sys_ = r
    act = set()
    if req is not None:
        act.add(req[0])
    if sys_ is not None:
        for t in requested:
            for i in sys_[1]:
                if i < len(ly["feats"]) and ly["feats"][i] == t:
                    act.add(i)
                    break
    return sorted(act)


# ------------------------------------------------------------------ the check

def load_tables(chk):
    import tr_lang
    fails = []
    tt = tr_lang.read(C.REPO, "src/hb/tag_table.rs")
    rows = tr_lang.registry(tt, fails)
    prelude, arms = tr_lang.complex_rules(tt, fails)
    cm = tr_lang.common_rs(tr_lang.read(C.REPO, "src/hb/common.rs"), fails)
    return rows, prelude, arms, [v for _, v in cm["scripts"]], cm["aliases"]


def first_registered(rows):
    d = {}
    for l, t in rows:
        if l not in d:
            d[l] = t
    return d


def language_part(chk, binp, flavour, thorough, rows, prelude, arms, fails, dis):
    inputs, langs = language_inputs(chk, rows, prelude, arms, thorough)
    lines = ["%s %s" % (sc or "-", "-" if l is None else "h" + hx(l)) for sc, l, _ in inputs]
    ans = run_lines(binp, "tags", lines)
    obs = [parse_tags(a) for a in ans]
    # ---- the property on the implementation
    firsts = first_registered(rows)
    by_key = {(sc, l): o for (sc, l, _), o in zip(inputs, obs)}
    npan = 0
    for (sc, l, origin), o, a in zip(inputs, obs, ans):
        if o is None:
            npan += 1
            if npan <= 3:
                fails.append({"what": "language-string-panics", "language": l, "language_utf8_hex": hx(l or ""), "script": sc,
                              "panic": a[1], "flavour": flavour,
                              "replay_cmd": "printf '%s %s\\n' | rbv c18 tags" % (sc or "-", "h" + hx(l or ""))})
    chk.note("panics_" + flavour, npan)
    nreg = 0
    for l in langs:
        o = by_key.get((None, l))
        if o is None:
            continue
        nreg += 1
        want = firsts[l]
        got = o[1]
        if (want == 0 and got != []) or (want != 0 and (not got or got[0] != want)):
            fails.append({"what": "registry-language-misses-first-registered-tag", "language": l,
                          "expected_first_tag": tag_str(want) if want else "(none: null row)", "got": [tag_str(t) for t in got], "flavour": flavour,
                          "replay_cmd": "printf -- '- h%s\\n' | rbv c18 tags" % hx(l)})
    for l, want in HAND:
        o = by_key.get(("Beng", l))
        if o is not None and o[1] != [T(w) for w in want]:
            fails.append({"what": "hand-checked-language-differs", "language": l, "expected": want, "got": [tag_str(t) for t in o[1]], "flavour": flavour})
    for l, want in HAND_SCRIPT:
        o = by_key.get(("Beng", l))
        if o is not None and o[0] != [T(w) for w in want]:
            fails.append({"what": "hand-checked-script-override-differs", "language": l, "expected": want, "got": [tag_str(t) for t in o[0]], "flavour": flavour})
    # case metamorphism: every input against its ASCII-upper and ASCII-lower variants
    meta = []
    for sc, l, _ in inputs:
        if l:
            up = "".join(c.upper() if "a" <= c <= "z" else c for c in l)
            lo = "".join(c.lower() if "A" <= c <= "Z" else c for c in l)
            for v in (up, lo):
                if v != l:
                    meta.append((sc, l, v))
    mlines = ["%s h%s" % (sc or "-", hx(v)) for sc, _, v in meta]
    mans = run_lines(binp, "tags", mlines) if mlines else []
    ncase = 0
    for (sc, l, v), a in zip(meta, mans):
        o1, o2 = by_key.get((sc, l)), parse_tags(a)
        if o1 is not None and o2 is not None:
            ncase += 1
            if o1 != o2:
                fails.append({"what": "language-tags-depend-on-ascii-case", "language": l, "variant": v, "script": sc,
                              "got": [[tag_str(t) for t in x] for x in o1], "got_variant": [[tag_str(t) for t in x] for x in o2], "flavour": flavour})
    chk.add_eval(len(inputs) + len(meta), len(set(l for _, l, _ in inputs)))
    chk.note("language_inputs_" + flavour, {"total": len(inputs), "registry_languages": nreg, "hand_checked": len(HAND) + len(HAND_SCRIPT),
                                            "case_pairs": ncase, "by_origin": {k: sum(1 for x in inputs if x[2] == k) for k in sorted(set(x[2] for x in inputs))}})
    # ---- model vs implementation
    cases = []
    raw = []
    for (sc, l, origin), o in zip(inputs, obs):
        cases.append("(%s, %s, %s)" % (coq_opt(sc, coq_bytes), coq_opt(l, coq_bytes),
                                       "None" if o is None else "Some (%s, %s)" % (nlist(o[0]), nlist(o[1]))))
        raw.append({"script": sc, "language": l, "origin": origin, "impl": "panic" if o is None else [[tag_str(t) for t in x] for x in o], "flavour": flavour})
    jobs = shard("c18_tags_" + flavour, cases, 250, "tags_case", "check_tags")
    if flavour == "release":
        # registry as compiled vs as translated
        rc, out, err = C.run_rbv(binp, ["c18", "registry"])
        reg = [ln.split(" ") for ln in out.splitlines() if ln.startswith("reg ")]
        items = ["(%s, %s)" % (coq_bytes(p[1]), p[2]) for p in reg]
        chunks = [items[i:i + 500] for i in range(0, len(items), 500)]
        body = HDR + "".join("Definition r%d : list (bytes * N) := [%s].\n" % (i, "; ".join(ch)) for i, ch in enumerate(chunks))
        body += "Eval vm_compute in (check_registry (%s)).\n" % (" ++ ".join("r%d" % i for i in range(len(chunks))) or "[]")
        jobs.append(("c18_registry", body))
        chk.add_eval(len(reg), len(reg))
        # lang_cmp pairs
        rng = random.Random(chk.seed * 31 + 5)
        subs = [l for _, l, _ in inputs if l]
        pairs = []
        for _ in range(3000 if thorough else 1200):
            a = rng.choice(langs)
            b = rng.choice(subs) if rng.random() < 0.6 else rng.choice(langs)
            if rng.random() < 0.2:
                a, b = b, a
            pairs.append((a, b))
        pans = run_lines(binp, "langcmp", ["%s %s" % (hx(a), hx(b)) for a, b in pairs])
        lc_cases = []
        lc_raw = []
        for (a, b), r in zip(pairs, pans):
            o = None if r[0] != "ok" else int(r[1]) + 1
            lc_cases.append("(%s, %s, %s)" % (coq_bytes(a), coq_bytes(b), "None" if o is None else "Some %d" % o))
            lc_raw.append({"lang_cmp": [a, b], "impl": r})
        jobs += shard("c18_langcmp", lc_cases, 600, "(bytes * bytes * option N)", "check_langcmp")
        chk.add_eval(len(pairs), len(set(pairs)))
        # complex matcher directly (already lower-case strings, as the code receives them)
        cx = list(dict.fromkeys([s.lower() for s in rule_strings(prelude, arms)] + [l.lower() for _, l, _ in inputs if l]))
        cx = [s for s in cx if s]
        cans = run_lines(binp, "complex", [hx(s) for s in cx])
        cx_cases = []
        cx_raw = []
        nclaimed = 0
        for s_, r in zip(cx, cans):
            if r[0] != "ok":
                o = "None"
            elif r[1] == "none":
                o = "Some None"
            else:
                o = "Some (Some %s)" % nlist(r[1].split(","))
                nclaimed += 1
            cx_cases.append("(%s, %s)" % (coq_bytes(s_), o))
            cx_raw.append({"complex": s_, "impl": r})
        jobs += shard("c18_complex", cx_cases, 500, "(bytes * option (option (list N)))", "check_complex")
        chk.add_eval(len(cx), nclaimed)
        chk.note("complex_matcher_cases", {"total": len(cx), "claimed": nclaimed})
    res = C.coq_eval_many(jobs)
    collect(res, "c18_tags_" + flavour, 250, raw, dis, "tags-model-differs")
    if flavour == "release":
        collect(res, "c18_langcmp", 600, lc_raw, dis, "lang_cmp-model-differs")
        collect(res, "c18_complex", 500, cx_raw, dis, "complex-model-differs")
        out = res.get("c18_registry")
        if isinstance(out, Exception) or not C.parse_eval_lists(out) or C.parse_eval_lists(out)[0]:
            dis.append({"what": "compiled-registry-differs-from-translated", "detail": str(out)[-300:]})
    if raw:
        chk.sample({"tags_case": raw[len(raw) // 3]})
        chk.sample({"tags_case": raw[-40]})


def script_part(chk, binp, known, aliases, fails, dis):
    rng = random.Random(chk.seed * 101 + 3)
    strs = list(known) + [a for a, _ in aliases] + [k.lower() for k in known[::5]] + [k.upper() for k in known[::7]]
    strs += ["", "L", "La", "Lat", "Latnx", "1234", "zzzz", "Zzzz", "Zyyy", "Zinh", "Qaai", "Qaac", "l@tn", "Hira", "Kana", "日本", "é", "abé"]
    strs += ["".join(rng.choice("ABCDXYZabcdxyz019 @[`{") for _ in range(rng.randrange(1, 6))) for _ in range(200)]
    strs = list(dict.fromkeys(strs))
    tans = run_lines(binp, "scripttag", [hx(s) for s in strs])
    sc_cases = []
    sc_raw = []
    for s_, r in zip(strs, tans):
        if r[0] != "ok":
            fails.append({"what": "script-string-panics", "script": s_, "panic": r[1]})
            continue
        sc_cases.append("(%s, %s)" % (coq_bytes(s_), r[1]))
        sc_raw.append({"script_of": s_, "impl": r[1]})
    # tags for every script string (language absent)
    ans = run_lines(binp, "tags", ["%s -" % s_ for s_ in strs if s_ and " " not in s_ and s_.isascii()])
    tstrs = [s_ for s_ in strs if s_ and " " not in s_ and s_.isascii()]
    tg_cases = []
    tg_raw = []
    nk = 0
    for s_, a in zip(tstrs, ans):
        o = parse_tags(a)
        if o is None:
            fails.append({"what": "script-string-panics", "script": s_, "panic": a[1]})
            continue
        tg_cases.append("(Some %s, None, Some (%s, %s))" % (coq_bytes(s_), nlist(o[0]), nlist(o[1])))
        tg_raw.append({"script": s_, "impl": [tag_str(t) for t in o[0]]})
        if s_ in known:
            nk += 1
            want = spec_script_tags(s_)
            if o[0] != want:
                fails.append({"what": "script-tags-differ-from-opentype-registry", "script": s_, "expected": [tag_str(t) for t in want],
                              "got": [tag_str(t) for t in o[0]]})
    jobs = shard("c18_script", sc_cases, 600, "(bytes * N)", "check_script") + shard("c18_scripttags", tg_cases, 600, "tags_case", "check_tags")
    res = C.coq_eval_many(jobs)
    collect(res, "c18_script", 600, sc_raw, dis, "script_of-model-differs")
    collect(res, "c18_scripttags", 600, tg_raw, dis, "script-tags-model-differ")
    chk.add_eval(len(sc_cases) + len(tg_cases), len(strs))
    chk.note("scripts", {"strings": len(strs), "known_iso15924": nk})
    return tstrs


def select_part(chk, binp, flavour, thorough, rows, fails, dis):
    """Generated GSUB/GPOS tables: hook-level select + public-API shaping."""
    rng = random.Random(chk.seed * 977 + (1 if flavour == "release" else 2))
    firsts = first_registered(rows)
    lang_choices = [("en", [T("ENG ")]), ("mo", [T("MOL "), T("ROM ")]), ("zh-hant-hk", [T("ZHH ")]), ("zh-mo", [T("ZHTM"), T("ZHH ")]),
                    ("x-hbotabcd", [T("ABCD")]), ("zzj", [T("ZHA ")]), ("qqq", [T("QQQ ")]), ("aba", []), (None, []), ("SR-cyrl", [T("SRB ")]),
                    ("ml", [T("MAL "), T("MLR ")]), ("x-hbscdeva", []), ("en-x-hbsclatn", [T("ENG ")])]
    overrides = {"x-hbscdeva": [T("deva")], "en-x-hbsclatn": [T("latn")]}
    script_choices = ["Beng", "Deva", "Mymr", "Latn", "Arab", "Hira", "Laoo", "Zyyy", None, "Taml"]
    cases = []
    n_random = 1200 if thorough else 300
    # exhaustive presence combinations for a two-generation script: [gen3, gen2, old, DFLT, dflt, latn]
    for iso in (["Deva", "Mymr", "Latn"] if not thorough else ["Deva", "Beng", "Mymr", "Latn", "Laoo"]):
        stags = spec_script_tags(iso)
        ncand = len(list(dict.fromkeys(stags + FALLBACK_SCRIPTS)))
        for combo in range(1 << ncand):
            lang, ltags = lang_choices[combo % len(lang_choices)]
            cases.append((iso, lang, overrides.get(lang, stags), ltags, combo, stags))
    for _ in range(n_random):
        iso = rng.choice(script_choices)
        lang, ltags = rng.choice(lang_choices)
        st = spec_script_tags(iso) if iso else []
        cases.append((iso, lang, overrides.get(lang, st), ltags, None, st))
    sel_lines = []
    api_lines = []
    meta = []
    for iso, lang, stags, ltags, combo, cand in cases:
        gpos = rng.random() < 0.3
        ly = rand_layout(rng, cand, ltags, gpos, combo)
        other = rand_layout(rng, cand, ltags, not gpos, None) if rng.random() < 0.5 else None
        font = make_font(gsub=other if gpos else ly, gpos=ly if gpos else other)
        user = [T("ss01")] if rng.random() < 0.4 else []
        # hook-level: the tags the model/impl derive are checked elsewhere; here the spec tags are used directly,
        # and sometimes arbitrary tag lists
        st2, lt2 = stags, ltags
        if rng.random() < 0.25:
            st2 = [rng.choice([T("zzzz"), T("latn"), T("DFLT"), T("deva"), T("AAAA")]) for _ in range(rng.randrange(0, 4))]
            lt2 = [rng.choice([T("ZZZ "), T("ENG "), T("dflt"), T("ROM ")]) for _ in range(rng.randrange(0, 4))]
        ftq = sorted(set(ly["feats"])) + [T("none")]
        sel_lines.append("%s %d %s %s %s" % (font.hex(), 1 if gpos else 0, ",".join(map(str, st2)) or "-", ",".join(map(str, lt2)) or "-",
                                             ",".join(map(str, ftq))))
        n = len(ly["feats"])
        text = "".join(chr(PUA + k) for k in range(n))
        api_lines.append("%s %s %s %s %s" % (font.hex(), iso or "-", "-" if lang is None else "h" + hx(lang), hx(text), ",".join(map(str, user)) or "-"))
        meta.append({"iso": iso, "lang": lang, "stags": stags, "ltags": ltags, "st2": st2, "lt2": lt2, "ftq": ftq, "gpos": gpos, "ly": ly,
                     "user": user, "font_hex": font.hex()})
    sans = run_lines(binp, "select", sel_lines)
    aans = run_lines(binp, "shape", api_lines)
    sel_cases, sel_raw, api_cases, api_raw = [], [], [], []
    nontriv = 0
    for m, sa, aa in zip(meta, sans, aans):
        ly = m["ly"]
        desc = {"script": m["iso"], "language": m["lang"], "table": "GPOS" if m["gpos"] else "GSUB",
                "font_scripts": [(tag_str(t), d, [(tag_str(x), y) for x, y in ls]) for t, d, ls in ly["scripts"]],
                "font_features": [tag_str(t) for t in ly["feats"]], "flavour": flavour}
        # ---- hook level
        if sa[0] != "ok":
            fails.append(dict(desc, what="select-panics-or-font-unparsed", answer=sa, font_hex=m["font_hex"]))
            continue
        want = spec_select(ly, m["st2"], m["lt2"])
        if sa[1] == "none":
            obs = "None"
            got = None
        else:
            p = sa[1].split(" ")
            found, sidx, stag = int(p[0]), int(p[1]), int(p[2])
            lidx = None if p[3] == "-" else int(p[3])
            req = None if p[4] == "-" else tuple(int(x) for x in p[4].split(":"))
            fs = [None if x == "-" else int(x) for x in p[5].split(",")]
            got = ((found, sidx, stag), lidx, req)
            obs = "Some (%s, %d, %d, %s, %s, [%s])" % ("true" if found else "false", sidx, stag, "None" if lidx is None else "Some %d" % lidx,
                                                      "None" if req is None else "Some (%d, %d)" % req,
                                                      "; ".join("None" if x is None else "Some %d" % x for x in fs))
        if (want is None) != (got is None) or (want is not None and (want[0], want[1], want[2]) != got):
            fails.append(dict(desc, what="script-or-language-system-selection-differs-from-the-stated-order",
                              script_tags=[tag_str(t) for t in m["st2"]], language_tags=[tag_str(t) for t in m["lt2"]],
                              expected=None if want is None else {"script": (want[0][0], want[0][1], tag_str(want[0][2])), "language_index": want[1], "required": want[2]},
                              got=None if got is None else {"script": (got[0][0], got[0][1], tag_str(got[0][2])), "language_index": got[1], "required": got[2]},
                              font_hex=m["font_hex"]))
        sel_cases.append("(%s, %s, %s, %s, %s)" % (coq_layout(ly), nlist(m["st2"]), nlist(m["lt2"]), nlist(m["ftq"]), obs))
        sel_raw.append(dict(desc, script_tags=m["st2"], language_tags=m["lt2"], impl=sa[1]))
        if want is not None and len(ly["scripts"]) > 1:
            nontriv += 1
        # ---- public API
        if aa[0] != "ok":
            fails.append(dict(desc, what="shaping-generated-font-panics", answer=aa, font_hex=m["font_hex"]))
            continue
        out = [x.split(":") for x in aa[1].split(",")] if aa[1] else []
        n = len(ly["feats"])
        active = []
        for k in range(n):
            gid, adv = int(out[k][0]), int(out[k][1])
            if m["gpos"]:
                if adv == 500 + k + 1:
                    active.append(k)
                elif adv != 500:
                    active.append(1000 + k)
            else:
                if gid == SUB_GID + k:
                    active.append(k)
                elif gid != BASE_GID + k:
                    active.append(1000 + k)
        requested = [T(x) for x in DEFAULT_REQUESTED] + m["user"]
        want_act = spec_active(ly, m["stags"], m["ltags"], requested)
        if active != want_act:
            fails.append(dict(desc, what="features-taking-part-differ-from-the-selected-language-system", user_features=[tag_str(t) for t in m["user"]],
                              expected_active_feature_indices=want_act, got_active_feature_indices=active, font_hex=m["font_hex"],
                              replay_cmd="rbv c18 shape < (font_hex script language text features)"))
        api_cases.append("(%s, %s, %s, %s, %s)" % (coq_layout(ly), coq_opt(m["iso"], coq_bytes), coq_opt(m["lang"], coq_bytes), nlist(requested), nlist(active)))
        api_raw.append(dict(desc, user=m["user"], impl_active=active))
    jobs = shard("c18_select_" + flavour, sel_cases, 150, "select_case", "check_select") + shard("c18_api_" + flavour, api_cases, 150, "api_case", "check_api")
    res = C.coq_eval_many(jobs)
    collect(res, "c18_select_" + flavour, 150, sel_raw, dis, "select-model-differs")
    collect(res, "c18_api_" + flavour, 150, api_raw, dis, "api-active-features-model-differs")
    chk.add_eval(len(sel_cases) + len(api_cases), nontriv)
    chk.note("generated_fonts_" + flavour, {"fonts": len(cases), "exhaustive_presence_combinations": len(cases) - n_random, "multi_script_selected": nontriv})
    if api_raw:
        chk.sample({"generated_font_case": {k: v for k, v in api_raw[len(api_raw) // 2].items()}})


def model_search(chk, pr, binp, rows, prelude, arms):
    """A proof broke: search the MODEL for concrete strings that contradict the statements (registry languages
    that do not reach their first registered tag; well-formed strings on which the model panics), then confirm
    each on the implementation. Returns (broken descriptions, confirmed failing inputs)."""
    broken = ["proof:" + f for f in pr["failed"]]
    firsts = first_registered(rows)
    langs = list(firsts)
    cands = langs + [l for _, l, _ in language_inputs(chk, rows, prelude, arms, False)[0] if l]
    cands = list(dict.fromkeys(cands))
    jobs = []
    per = 400
    for i in range(0, len(cands), per):
        body = HDR + "Definition cases : list bytes := [\n%s].\nEval vm_compute in (map model_first cases).\n" % ";\n".join(coq_bytes(c) for c in cands[i:i + per])
        jobs.append(("c18_msearch_%d" % (i // per), body))
    res = C.coq_eval_many(jobs)
    found = []
    for name, out in sorted(res.items()):
        if isinstance(out, Exception):
            broken.append("model-search-failed:" + name)
            continue
        vals = C.parse_eval_lists(out)
        if not vals:
            continue
        base = int(name.rsplit("_", 1)[1]) * per
        for k, v in enumerate(vals[0]):
            l = cands[base + k]
            if v == 1:
                found.append((l, "model-panics"))
            elif l in firsts and v != firsts[l]:
                found.append((l, "model-misses-first-registered-tag"))
    confirmed = []
    if binp and found:
        ans = run_lines(binp, "tags", ["- h" + hx(l) for l, _ in found])
        for (l, why), a in zip(found, ans):
            o = parse_tags(a)
            if o is None:
                confirmed.append({"what": "language-string-panics", "language": l, "found_by": "model search (" + why + ")", "panic": a[1]})
            elif l in firsts and ((firsts[l] == 0 and o[1]) or (firsts[l] != 0 and (not o[1] or o[1][0] != firsts[l]))):
                confirmed.append({"what": "registry-language-misses-first-registered-tag", "language": l, "found_by": "model search (" + why + ")",
                                  "expected_first_tag": tag_str(firsts[l]) if firsts[l] else "(none)", "got": [tag_str(t) for t in o[1]]})
    chk.note("model_search", {"candidates": len(cands), "model_counterexamples": [x for x in found[:20]], "confirmed_on_implementation": len(confirmed)})
    return broken, confirmed


def run(chk):
    thorough = chk.tier == "thorough"
    chk.cov["rule"] = ("hook correspondence on: every distinct registry language (+ upper case, + subtags), strings derived from every rule of the "
                       "complex-language matcher, a hand-checked BCP47->OpenType list, private-use forms, random / malformed / non-ASCII strings, "
                       "lang_cmp pairs, every known ISO 15924 script and aliases; generated fonts with every present/absent combination of "
                       "[gen3, gen2, old, DFLT, dflt, latn] script records, random language systems / required features, GSUB and GPOS, at hook level "
                       "(select) and through the public API (shape); release and overflow-checked builds. non-trivial = distinct strings, "
                       "strings claimed by the complex matcher, fonts with more than one script record where a script was selected")
    pr = chk.prove(extra_targets=["Corr/TagC.vo"])
    broken = []
    mine = [g for g in chk.guards_failed if g[0] in MY_GUARDS or g[0].startswith("complex_helper_")]
    chk.note("translator_guards_failed", mine)   # guards of other properties' extractors are not this check's business
    if mine:
        broken += ["translator-guard:%s (%s)" % tuple(g) for g in mine]
    fails, dis = [], []
    rows, prelude, arms, known, aliases = load_tables(chk)
    ok, binp, blog = C.cargo_build("release", hooks=True)
    if not pr["ok"]:
        ok_model, mlog = C.coq_make(["Corr/TagC.vo"])
        b, confirmed = model_search(chk, pr, binp if ok else None, rows, prelude, arms) if ok_model else (["proof:" + f for f in pr["failed"]] + ["model-does-not-build"], [])
        broken += b
        fails += confirmed
    if not ok:
        broken.append("hook-build-failed: " + blog[-600:])
    else:
        language_part(chk, binp, "release", thorough, rows, prelude, arms, fails, dis)
        script_part(chk, binp, known, aliases, fails, dis)
        select_part(chk, binp, "release", thorough, rows, fails, dis)
        # a feature record the selected language system does not list has no effect, not even through a shaper that asks
        # whether the font "has" a feature (font pairs that differ in such a record only; Arabic shaper, calt / liga / rclt)
        rc, out, err = C.run_rbv(binp, ["c18", "unlisted-probe"])
        m = re.search(r"unlisted-probe cases=(\d+) bad=(\d+)", out)
        if m:
            chk.add_eval(int(m.group(1)), int(m.group(1)))
            chk.note("unlisted_feature_probe", {"cases": int(m.group(1)), "bad": int(m.group(2))})
        for line in out.splitlines():
            if line.startswith("unlisted-probe differ"):
                fails.append({"what": "features-taking-part-differ-from-the-selected-language-system", "probe": line,
                              "language": line.split("lang=")[1].split()[0] if "lang=" in line else None,
                              "note": "fonts that differ only in a feature record the selected language system does not list shape differently (rbv c18 unlisted-probe)"})
        if not m:
            broken.append("unlisted-probe produced no summary: " + err[-300:])
        ok2, binc, blog2 = C.cargo_build("checked", hooks=True)
        if ok2:
            language_part(chk, binc, "checked", False, rows, prelude, arms, fails, dis)
            select_part(chk, binc, "checked", False, rows, fails, dis)
        else:
            broken.append("checked-build-failed: " + blog2[-600:])
    chk.note("correspondence_disagreements", len(dis))
    chk.note("broken", broken)
    # ---- verdict: one violation per kind (first instance), concrete inputs first
    seen = set()
    for f in fails:
        k = f["what"]
        if k in seen:
            continue
        seen.add(k)
        same = [x for x in fails if x["what"] == k]
        f = dict(f)
        f["instances_of_this_kind"] = len(same)
        f["more_inputs"] = [x.get("language", x.get("script")) for x in same[1:6]]
        chk.violation(k, f)
    if not fails and (broken or dis):
        chk.violation("tie-or-proof-broken", {"broken": broken, "disagreements": dis[:10],
                      "note": "theorems of Props/C18.v, a translator shape guard or the model/implementation correspondence no longer check; "
                              "the implementation-level searches (registry, hand-checked pairs, case, panics, generated fonts) found no failing input"},
                      no_input=True)
    chk.assumptions = C.DEFAULT_ASSUMPTIONS + [
        "binary_search_by (core::slice) is modelled by its documented contract: on a slice partitioned Less*/Equal*/Greater* w.r.t. the comparator it "
        "returns some index whose comparison is Equal, or Err when there is none; C18_search_partitioned proves the precondition for every probe "
        "string and C18_registry_hits quantifies over every permitted result; the executable model scans linearly (first Equal row)",
        "RecordList::index (ttf-parser binary search over script / language-system records) is modelled as membership: fonts whose record arrays "
        "are not sorted by tag (invalid OpenType) are outside the model",
        "C18_features abstracts hb_ot_map_builder_t::compile to the set of feature indices that take part (requested global features found through "
        "the selected language system + its required feature); mask allocation, stages, global-search and fallback features are not modelled",
    ]
    chk.cov["trusted_base"] = C.DEFAULT_TRUSTED_BASE + [
        "hook: src/hb/verif/tag.rs (tags, lang_cmp, complex, registry, select, find_feature) and the guarded wrappers verif_lang_cmp / "
        "verif_tags_from_language in src/hb/tag.rs",
        "props/C18.py font writer (sfnt with cmap/head/hhea/hmtx/maxp + GSUB/GPOS); validated only by ttf-parser parsing it and model = implementation",
        "the hand-checked BCP 47 -> OpenType list and the ISO 15924 -> script tag table in props/C18.py",
    ]


def replay(chk, path):
    import json
    body = json.load(open(path))
    print(json.dumps({k: v for k, v in body.items() if k != "font_hex"}, indent=1, ensure_ascii=False))
    ok, binp, _ = C.cargo_build("release", hooks=True)
    if not ok:
        print("hook build failed")
        return 1
    if "language" in body and body.get("language") is not None and "font_hex" not in body:
        line = "%s h%s" % (body.get("script") or "-", hx(body["language"]))
        ans = run_lines(binp, "tags", [line])
        print("rbv c18 tags <<<", line, "->", ans[0])
    fails, dis = [], []
    rows, prelude, arms, known, aliases = load_tables(chk)
    language_part(chk, binp, "release", False, rows, prelude, arms, fails, dis)
    script_part(chk, binp, known, aliases, fails, dis)
    select_part(chk, binp, "release", False, rows, fails, dis)
    kinds = sorted(set(f["what"] for f in fails))
    for k in kinds:
        print("STILL FAILING:", k)
    return 1 if body.get("kind") in kinds or (body.get("kind") == "tie-or-proof-broken" and (fails or dis)) else 0
