#!/bin/sh
# Build the framework from files on disk only (offline): translate, full Coq .vo build, harness in
# two profiles. Safe to re-run. Every long step runs under a shell timeout.
set -e
cd "$(dirname "$0")"
export CARGO_NET_OFFLINE=true
mkdir -p .build evidence replays
python3 translator/translate.py /repo
python3 - <<'PY'
import sys
sys.path.insert(0, "lib")
import common
common.coq_project()
PY
( cd coq && timeout 3000 make -j16 ) 
cp -n /repo/Cargo.lock harness/Cargo.lock 2>/dev/null || true
( cd harness && RUSTFLAGS="--cfg rustybuzz_verif" CARGO_TARGET_DIR=../.build/cargo-hook timeout 1500 cargo build --offline --quiet --release )
( cd harness && RUSTFLAGS="--cfg rustybuzz_verif" CARGO_TARGET_DIR=../.build/cargo-hook timeout 1500 cargo build --offline --quiet --profile checked )
echo setup-ok
