#!/usr/bin/env python3
"""Collects the failing instances of the fixed-seed corpus sweeps of C03 (pieces vs whole) and C04
(even/odd redistribution) on a CLEAN build of the committed /repo tree and writes them, grouped into
root-cause classes decided on the input, to corpus/C03-known-instances.json and
corpus/C04-known-instances.json.  Run by the lead when the generator changes; never at check time.
usage: tools/collect_known.py <rbv binary>"""
import json
import os
import re
import subprocess
import sys

HERE = os.path.dirname(os.path.dirname(os.path.abspath(__file__)))
sys.path.insert(0, os.path.join(HERE, "lib"))
import sweeps  # noqa

binp = sys.argv[1]
env = dict(os.environ, RBV_ALL_FAILS="1")
for prop, spec in sweeps.SWEEPS.items():
    out = subprocess.run([binp, "e2e", prop.lower(), "--seed", str(spec["seed"]), "--n", str(spec["n_thorough"])] + spec["extra"],
                         env=env, capture_output=True, text=True, timeout=3600).stdout
    inst = []
    for line in out.splitlines():
        m = re.match(r"^fail (C\d+) (\S+) font=(\S+) req=\[(.*?)\] ?(.*)$", line)
        if m and m.group(2) in spec["kinds"]:
            f = {"kind": m.group(2), "font": m.group(3), "req": m.group(4)}
            f["class"] = sweeps.classify(f)
            inst.append(f)
    classes = {}
    for f in inst:
        classes.setdefault(f["class"], 0)
        classes[f["class"]] += 1
    summary = [l for l in out.splitlines() if l.startswith("summary")]
    path = os.path.join(HERE, "corpus", "%s-known-instances.json" % prop)
    json.dump({"property": prop, "sweep": {k: spec[k] for k in ("seed", "n_quick", "n_thorough", "extra")},
               "summary": summary, "classes": classes, "instances": inst}, open(path, "w"), indent=1)
    print(prop, len(inst), classes, summary)


def gen_class(seed, k):
    out = subprocess.run([binp, "e2e", "flaggen-spec", "--seed", str(seed), "--k", str(k)], capture_output=True, text=True, timeout=60).stdout
    if "GPOS features" in out:
        return "generated_pair_fonts"
    if "ljmo" in out or "[108, 106, 109, 111]" in out:
        return "generated_hangul_fonts"
    for line in out.splitlines():
        m = re.search(r"Multiple \{.*sequences: (.*)", line)
        if m and re.search(r"\[\]", m.group(1)):
            return "generated_context_fonts_with_deleting_multiple"
    return "generated_context_fonts_other"


for prop, g in sweeps.GEN.items():
    out = subprocess.run([binp, "e2e", g["cmd"], "--seed", str(g["seed"]), "--n", str(g["n_thorough"])] + g["extra"],
                         env=dict(env, RBV_DUMP_DIR="/tmp/collect_known_dump"), capture_output=True, text=True, timeout=3600).stdout
    inst = []
    for line in out.splitlines():
        m = re.match(r"^fail (C\d+) (\S+) font=(\S+) req=\[(.*?)\] ?(.*)$", line)
        if m:
            name = os.path.basename(m.group(3))
            mm = re.match(r"flaggen-(\d+)-(\d+)\.ttf", name)
            f = {"kind": m.group(2), "font": name, "req": m.group(4), "class": gen_class(int(mm.group(1)), int(mm.group(2)))}
            inst.append(f)
    classes = {}
    for f in inst:
        classes[f["class"]] = classes.get(f["class"], 0) + 1
    summary = [l for l in out.splitlines() if l.startswith("summary")]
    path = os.path.join(HERE, "corpus", "%s-known-gen-instances.json" % prop)
    json.dump({"property": prop, "sweep": g, "summary": summary, "classes": classes, "instances": inst}, open(path, "w"), indent=1)
    print(prop, "generated fonts:", len(inst), classes, summary)
subprocess.run(["rm", "-rf", "/tmp/collect_known_dump"])
