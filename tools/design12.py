#!/usr/bin/env python3
"""Rewrites section 12 of DESIGN.md (prose with counts + the table of tools/seed_table.py) from seeded/*/meta.json."""
import os
import re
import subprocess

HERE = os.path.dirname(os.path.dirname(os.path.abspath(__file__)))
table = subprocess.run(["python3", os.path.join(HERE, "tools", "seed_table.py")], capture_output=True, text=True, cwd=HERE).stdout.rstrip("\n")
m = re.search(r"counts: (\d+) seeds, (\d+) caught by the property's own check \(final state\), (\d+) of them with a strengthening note, (\d+) not caught", table)
total, own, noted, missed = map(int, m.groups())
rows = [l for l in table.split("\n") if l.startswith("| C")]
not_own = [l.split("|")[1].strip() for l in rows if "**NO**" in l.split("|")[4]]
rounds = len(set(re.sub(r"^C\d\d", "", l.split("|")[1].strip()) for l in rows))
missing = "" if not not_own else (" Not caught by their own property's check: " + ", ".join(not_own) + " (see the table: what catches them instead, or why nothing does).")
prose = f'''## 12. Seeded changes and the checks that catch them

{rounds} rounds of 18 independent sub-agents (one per property and round, {total} changes kept; each agent saw only the
property text and its own scratch worktree of /repo, nothing of /verif; from round 2 on the agents were told
which changes earlier rounds had used and asked for a different mechanism in a different place). Each
produced one change that compiles, passes the unedited suite and breaks the property for a specific kind of
input, with a demonstration program. Every change was re-confirmed by the lead in a scratch worktree (suite
green with the change; demonstration FAILs with it and PASSes without it; `tools/seed_eval.py scratch`)
before it was kept under `seeded/<id>/` (`patch.diff`, `seed_demo.rs`, `meta.json`). The checks were then run
against each change in a fresh worktree of /repo's HEAD with the patch applied (`tools/seed_eval.py
check-alt`, through `RB_REPO`, from an rsync snapshot of /verif so that evaluation never races with
development; nothing is ever applied to or committed in /repo), the property's own check first, neighbouring
checks afterwards. Where a change was missed the check was strengthened (last column, from
`seeded/strengthened.json`) and the evaluation repeated; the table shows the final state, from a last
re-evaluation of every change against the checks as committed.

Final state: {own} of the {total} changes are caught by the check of the property they were written against;
{own - noted} by the check as it stood when the change arrived, {noted} after that check was strengthened (the last column
says what was missing).{missing} The misses fell into a few kinds, which is what the rounds were for:
* the generator never produced the shape of input the change needs (most of them: > 32 marks, 16 / 64
  ligature components, a tone mark behind a mapped syllable, a skipped glyph between input and lookahead,
  numeric region subtags, buffer histories with `push_str`, a positioning pair that starts with an
  ignorable's glyph, a coverage range of 65 glyphs, a record on a deleted position, a guess between two
  fills of a buffer, ...);
* a generated font made the effect invisible (C15i: one of two ranged features was on by default with the
  same delta as the other; C14c/C12c: every feature had its own lookup; C15k: the `feat` names of the
  generated AAT fonts were unsorted, so `smcp` was never found);
* a known-finding class was wider than the defect it lists and swallowed the seeded failure (C02, C08e,
  C07f): the class predicates were narrowed to the listed root cause, and the rule since then is to look at
  the class predicate first whenever a directly reproduced failure is not reported;
* the drivers judged only the first dozen failing cases the harness printed (found with C03j, §11 (k)): fixed, and
  what it had hidden on the unchanged tree (C02 thorough, §11 (l); a buffer-operation sequence outside the
  callers' domain in C01 thorough) was dealt with;
* a later generator change moved the random stream away from the inputs that had caught an earlier seed
  (C07d, C05f, C16h): every change was re-evaluated after rounds 8, 10 and 12, the losses were repaired
  (symbol-like fonts, for one, are no longer left to chance).
From round 10 on the changes lean on state that outlives a call (a cache in the Face, a flag in the buffer),
on optional tables and defaults (OS/2 line metrics, a `DFLT`-only GSUB, a missing tone-mark glyph), on
paths the suite never enters (morx with `feat`, type-8 lookups under ranged features, vertical PRESERVE) and
on exact boundaries (ring of 64 components, span of 64 in a digest, 33 glyphs for the sort); the checks that
met them first were the ties (audit, pass order, buffer correspondence), the failing inputs came from the
strengthened searches.
The seeding agents' reading of the code also led to genuine defects of the unchanged tree (section 10: rows
19d, 19f-19j, 29-34 came from their side observations or from inputs added for their changes).

'''
p = os.path.join(HERE, "DESIGN.md")
s = open(p).read()
i = s.index("## 12. Seeded changes and the checks that catch them")
open(p, "w").write(s[:i] + prose + table + "\n")
print("section 12 rewritten:", total, own, noted, missed, not_own)
