HOOK_COMMITS = ["7220a95"]
NOTES = ("Technique family: machine-checked proof in Coq 8.16.1. ./check <id> --tier quick|thorough; evidence in /verif/evidence/<id>.json; "
         "known findings in /verif/KNOWN_FINDINGS.txt; DESIGN.md explains model, tie and trusted base.")
NOT_CLAIMED = {}
CLAIMED = {
    "C10": {
        "text": "Coq theorems (Props/C10.v): add/add_array/add_range (incl. cyclic wrap of bit positions and saturation; release wrap semantics) and may_have/may_have_glyph of the three-pattern digest are sound for ALL masks, glyph ids and ranges, and the overflow-checked build never traps for a<=b. "
                "Shifts and mask width are re-extracted from set_digest.rs on every run; the model is run against the real hb_set_digest_t (hook) exhaustively on bit positions and on structured+random ranges and op sequences in release and overflow-checked builds; the prefilter switch hook compares shaping with and without prefilters on corpus fonts.",
        "note": "Trusted: Coq kernel + vm_compute; translator regexes; harness and hook accessors; the theorem that shaping is unchanged by the prefilters (C10_transparent over the GSUB/GPOS interpreter model) is covered by the on/off correspondence search only until the interpreter model lands.",
        "technique": "Coq proof (finite sweep lifted by lemma) + hook correspondence (exhaustive/random) + prefilter on/off differential",
    },
}
