HOOK_COMMITS = ["7220a95", "181c387", "62547bd", "e919609", "ac6ee53"]
NOTES = ("Technique family: machine-checked proof in Coq 8.16.1. ./check <id> --tier quick|thorough; evidence in /verif/evidence/<id>.json; "
         "known findings in /verif/KNOWN_FINDINGS.txt; DESIGN.md explains model, tie and trusted base.")
NOT_CLAIMED = {}
CLAIMED = {
    "C10": {
        "text": "Coq theorems (Props/C10.v): add/add_array/add_range (incl. cyclic wrap of bit positions and saturation; release wrap semantics) and may_have/may_have_glyph of the three-pattern digest are sound for ALL masks, glyph ids and ranges, and the overflow-checked build never traps for a<=b. "
                "Shifts and mask width are re-extracted from set_digest.rs on every run; the model is run against the real hb_set_digest_t (hook) exhaustively on bit positions and on structured+random ranges and op sequences in release and overflow-checked builds; the prefilter switch hook compares shaping with and without prefilters on corpus fonts.",
        "note": "Trusted: Coq kernel + vm_compute; translator regexes; harness and hook accessors; the theorem that shaping is unchanged by the prefilters (C10_transparent over the GSUB/GPOS interpreter model) is covered by the on/off correspondence search only until the interpreter model lands.",
        "technique": "Coq proof (finite sweep lifted by lemma) + hook correspondence (exhaustive/random) + prefilter on/off differential",
    },
    "C14": {
        "text": "Coq theorems (Props/C14.v) over an executable model of Feature::new (five RangeBounds shapes), buffer set_masks, the mask-bit allocation of the feature map and the alternate index: for ALL inputs set_masks writes value<<shift into exactly the glyphs with start <= cluster < end and leaves every other bit of every glyph unchanged; allocated fields are pairwise disjoint, inside bits 4..29, clear of the flag bits and the global bit, wide enough for min(value,255), and a feature is dropped rather than overlapped when bits run out; value 0 disables, value k selects the k-th alternate. Feature::new deviates for every bounded range end (known class, _refuted witness replayed every run); parser round-trip is partial.",
        "note": "Constants re-extracted from ot_map.rs/common.rs each run; model == code checked by vm_compute correspondence through hooks (Feature::new, from_str streams, set_masks, compiled plans; release and overflow-checked builds) and an implementation-level predicate search on generated and corpus fonts (all (start,end) x values over short texts). Known classes: feature_new_end_bound, from_str_index_i32. GSUB matching itself is C06's. Domain: clusters < u32::MAX.",
        "technique": "Coq proof (lia, bit-level N lemmas, induction over info lists) + translator constants + hook/API correspondence by vm_compute + exhaustive small-range predicate search",
    },
    "C13": {
        "text": "Coq theorems (Props/C13.v): the classification function REGENERATED from the match arms of is_default_ignorable equals Unicode 16 Default_Ignorable_Code_Point minus the four fillers for every code point outside U+1BCA0..3 (range arithmetic, no enumeration; inside: known class with _refuted witness); delete_glyphs_inplace keeps exactly the non-filtered glyphs with untouched positions, clusters subset, minimum kept; the two default-ignorable passes hide (space/invisible glyph, zero advance and offsets) or remove exactly the ignorable, unsubstituted glyphs and are the identity under PRESERVE; insertion of ignorables is inert for the cmap+hmtx+passes pipeline (model level).",
        "note": "Model == code checked per run: classification exhaustively over all 1,114,112 code points (hook), delete/passes on the real functions via hooks with random buffers, public API on generated cmap-only fonts; implementation-level predicate over all default-ignorable candidates x insertion positions x flags x directions x 4 fonts. DICP ranges typed in from the standard (no UCD file offline). Known class: shorthand_format_controls (U+1BCA0..3, deliberate HarfBuzz-compatible exclusion).",
        "technique": "Coq proof over a structurally translated classification function and hand-written pass models + exhaustive/hook/API correspondence + exhaustive predicate search",
    },
}
