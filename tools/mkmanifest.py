#!/usr/bin/env python3
"""Regenerate MANIFEST.json from tools/manifest_src.py (single source of truth for claimed checks)."""
import json
import os
import sys

HERE = os.path.dirname(os.path.dirname(os.path.abspath(__file__)))
sys.path.insert(0, os.path.join(HERE, "tools"))
import manifest_src as M  # noqa

props = [json.loads(l)["id"] for l in open(os.path.join(HERE, "properties.jsonl"))]
checks = []
na = []
for p in props:
    if p in M.CLAIMED:
        c = M.CLAIMED[p]
        checks.append({
            "property_id": p,
            "quick_cmd": "./check %s --tier quick" % p,
            "thorough_cmd": "./check %s --tier thorough" % p,
            "evidence_file": "/verif/evidence/%s.json" % p,
            "replay_cmd_template": "./check %s --replay {path}" % p,
            "engine": "coq-proof+correspondence",
            "level_claimed": {"category": c.get("category", "proof"), "text": c["text"], "design_ref": c.get("design_ref", "DESIGN.md §6 " + p)},
            "level_note": c["note"],
            "technique": c["technique"],
        })
    else:
        na.append({"property_id": p, "reason": M.NOT_CLAIMED.get(p, "check not built yet in this round; see DESIGN.md §6 for the plan")})
man = {
    "version": 1,
    "setup_cmd": "./setup.sh",
    "hooks": {
        "guard": "rustybuzz_verif",
        "enable": "RUSTFLAGS=\"--cfg rustybuzz_verif\" cargo build --offline (harness crate /verif/harness with path dependency on /repo)",
        "baseline_off_cmd": "cd /repo && cargo test --workspace --no-fail-fast --offline",
        "source_commits": M.HOOK_COMMITS,
        "add_only": True,
    },
    "engines": [{
        "name": "coq-proof+correspondence",
        "path": "/verif/check",
        "serves_properties": sorted(M.CLAIMED.keys()),
        "kind_free_text": "Coq 8.16.1 theorems over hand-written Gallina models (coq/Model, coq/Proofs, coq/Props) with data regenerated from /repo/src by translator/, "
                          "tied to the code by correspondence: the real implementation (harness/, guarded hooks and public API) and the model (vm_compute in generated cases files) run on the same inputs",
    }],
    "checks": checks,
    "not_applicable": na,
    "notes": M.NOTES,
}
with open(os.path.join(HERE, "MANIFEST.json"), "w") as f:
    json.dump(man, f, indent=1)
print("claimed:", len(checks), "not claimed:", len(na))
