#!/usr/bin/env python3
"""Evaluates seeded breaking changes produced by independent agents.
  tools/seed_eval.py scratch Cnn   # in the agent's scratch worktree: suite passes with the patch, demo FAILs with it and PASSes without
  tools/seed_eval.py check Cnn [more ids to run, default: the seed's property]   # apply to /repo, run ./check, revert
Results are stored in /verif/seeded/<id>/ (patch.diff, seed_demo.rs, meta.json)."""
import json
import os
import shutil
import subprocess
import sys

HERE = os.path.dirname(os.path.dirname(os.path.abspath(__file__)))
OUT = "/tmp/seed_out"


def sh(cmd, cwd=None, timeout=1800, env=None):
    e = dict(os.environ, CARGO_NET_OFFLINE="true")
    if env:
        e.update(env)
    p = subprocess.run(cmd, cwd=cwd, shell=isinstance(cmd, str), capture_output=True, text=True, timeout=timeout, env=e)
    return p.returncode, p.stdout + p.stderr


def scratch(pid):
    wt = "/tmp/seed_%s" % pid
    out = os.path.join(OUT, pid)
    res = {"id": pid}
    patch = os.path.join(out, "patch.diff")
    rc, cur = sh("git diff -- src", cwd=wt)
    if not os.path.exists(patch) or not open(patch).read().strip():
        open(patch, "w").write(cur)
    tgt = {"CARGO_TARGET_DIR": os.path.join(wt, "target")}
    # with the change: suite + demo
    rc, o = sh("cargo test --offline 2>&1 | grep -E '^test result|FAILED|panicked' | head -8", cwd=wt, env=tgt)
    res["suite_with_patch"] = o.strip().split("\n")
    res["suite_passes"] = ("FAILED" not in o) and o.count("test result: ok") >= 2
    rc1, o1 = sh("cargo run --offline --release --example seed_demo 2>&1 | tail -15", cwd=wt, env=tgt)
    rc1b, _ = sh("cargo run --offline --release --example seed_demo > /dev/null 2>&1", cwd=wt, env=tgt)
    res["demo_with_patch_rc"] = rc1b
    res["demo_with_patch_tail"] = o1[-600:]
    # without the change
    sh("git diff -- src > /tmp/seed_%s.patch && git checkout -- src" % pid, cwd=wt)
    rc2b, _ = sh("cargo run --offline --release --example seed_demo > /dev/null 2>&1", cwd=wt, env=tgt)
    rc2, o2 = sh("cargo run --offline --release --example seed_demo 2>&1 | tail -5", cwd=wt, env=tgt)
    res["demo_original_rc"] = rc2b
    res["demo_original_tail"] = o2[-300:]
    sh("git apply /tmp/seed_%s.patch" % pid, cwd=wt)
    res["confirmed"] = bool(res["suite_passes"] and rc1b != 0 and rc2b == 0)
    json.dump(res, open(os.path.join(out, "scratch_eval.json"), "w"), indent=1)
    print(pid, "confirmed" if res["confirmed"] else "NOT CONFIRMED", res["suite_passes"], rc1b, rc2b)
    return res


def check(pid, props, alt=False):
    out = os.path.join(OUT, pid)
    patch = os.path.join(out, "patch.diff")
    env = None
    wt = None
    if alt:
        # evaluate in a fresh scratch worktree of /repo's HEAD with the patch applied, through RB_REPO
        # (used while /repo's working tree is not clean; nothing is ever applied to /repo this way)
        wt = "/tmp/seedwt_%s_%d" % (pid, os.getpid())
        sh("git -C /repo worktree remove --force %s" % wt)
        shutil.rmtree(wt, ignore_errors=True)
        rc, o = sh("git -C /repo worktree add --detach %s HEAD" % wt)
        if rc != 0:
            print("cannot create worktree:", o)
            return None
        if not os.path.exists(patch):
            patch = os.path.join(HERE, "seeded", pid, "patch.diff")
        rc, o = sh("git apply %s" % patch, cwd=wt)
        if rc != 0:
            print("patch does not apply to HEAD:", o)
            sh("git -C /repo worktree remove --force %s" % wt)
            return None
        env = {"RB_REPO": wt}
    else:
        rc, st = sh("git status --porcelain", cwd="/repo")
        if st.strip():
            print("refusing: /repo working tree is not clean:\n" + st)
            return None
        rc, o = sh("git apply %s" % patch, cwd="/repo")
        if rc != 0:
            print("patch does not apply to /repo:", o)
            return None
    results = {}
    try:
        for p in props:
            rc, o = sh("./check %s --tier quick" % p, cwd=HERE, timeout=3000, env=env)
            lines = [l for l in o.splitlines() if l.startswith("VIOLATION") or l.startswith("KNOWN-FINDING")]
            replay = None
            for l in lines:
                if l.startswith("VIOLATION") and "replay=" in l:
                    replay = l.split("replay=")[1].split()[0]
                    break
            summary = None
            if replay and os.path.exists(replay):
                try:
                    b = json.load(open(replay))
                    summary = {k: (str(v)[:400]) for k, v in b.items() if k in ("kind", "font", "req", "detail", "what", "input", "broken", "failing_op")}
                except Exception:
                    pass
            results[p] = {"exit": rc, "violation_lines": [l[:300] for l in lines if l.startswith("VIOLATION")][:4],
                          "no_failing_input_found": any("no-failing-input-found" in l for l in lines if l.startswith("VIOLATION")),
                          "first_replay": summary}
            print(pid, "->", p, "exit", rc, "violations", len(results[p]["violation_lines"]))
    finally:
        if not alt:
            sh("git checkout -- .", cwd="/repo")
        elif wt:
            sh("git -C /repo worktree remove --force %s" % wt)
            shutil.rmtree(wt, ignore_errors=True)
            import hashlib
            shutil.rmtree(os.path.join(HERE, ".build", "alt", hashlib.sha1(wt.encode()).hexdigest()[:10]), ignore_errors=True)
    return results


def store(pid, scr, chk):
    d = os.path.join(HERE, "seeded", pid)
    os.makedirs(d, exist_ok=True)
    out = os.path.join(OUT, pid)
    for f in ("patch.diff", "seed_demo.rs"):
        if os.path.exists(os.path.join(out, f)):
            shutil.copy(os.path.join(out, f), os.path.join(d, f))
    meta = {}
    try:
        meta = json.load(open(os.path.join(out, "meta.json")))
    except Exception:
        pass
    prev = {}
    try:
        prev = json.load(open(os.path.join(d, "meta.json")))
    except Exception:
        pass
    if not meta:
        meta = {k: v for k, v in prev.items() if k not in ("checks_run", "caught_by", "caught_with_input", "confirmed_by_lead")}
    meta["property"] = pid[:3]
    meta["seed_id"] = pid
    meta["confirmed_by_lead"] = scr or prev.get("confirmed_by_lead")
    runs = dict(prev.get("checks_run") or {})
    runs.update(chk or {})
    meta["checks_run"] = runs
    meta["caught_by"] = sorted(p for p, r in runs.items() if r["exit"] != 0)
    meta["caught_with_input"] = sorted(p for p, r in runs.items() if r["exit"] != 0 and not r["no_failing_input_found"])
    json.dump(meta, open(os.path.join(d, "meta.json"), "w"), indent=1)


if __name__ == "__main__":
    mode, pid = sys.argv[1], sys.argv[2]
    if mode == "scratch":
        scratch(pid)
    elif mode in ("check", "check-alt"):
        props = sys.argv[3:] or [pid[:3]]
        scr = None
        try:
            scr = json.load(open(os.path.join(OUT, pid, "scratch_eval.json")))
        except Exception:
            pass
        chk = check(pid, props, alt=(mode == "check-alt"))
        if chk is not None:
            store(pid, scr, chk)
