#!/usr/bin/env python3
"""Writes the prompts for one round of independent seeding agents (one per property) and creates their scratch
worktrees.  usage: tools/seed_prompts.py <suffix>   e.g. f  -> /tmp/seed_out/prompts/C01f.txt ..., worktrees /tmp/seed_C01f ...
The prompt carries ONLY the property text (properties.jsonl) and one-line summaries of the changes earlier rounds
used for that property (so that a different mechanism is chosen); nothing else from /verif."""
import glob
import json
import os
import re
import subprocess
import sys

HERE = os.path.dirname(os.path.dirname(os.path.abspath(__file__)))
suffix = sys.argv[1]
out = "/tmp/seed_out/prompts"
os.makedirs(out, exist_ok=True)
tmpl = open(os.path.join(out, "C03e.txt")).read() if os.path.exists(os.path.join(out, "C03e.txt")) else None
props = [json.loads(l) for l in open(os.path.join(HERE, "properties.jsonl"))]
for p in props:
    pid = p["id"]
    sid = pid + suffix
    earlier = []
    files = set()
    for d in sorted(glob.glob(os.path.join(HERE, "seeded", pid + "*"))):
        try:
            m = json.load(open(os.path.join(d, "meta.json")))
        except Exception:
            continue
        earlier.append((m.get("summary") or "")[:200])
        fs = m.get("files")
        for f in (fs if isinstance(fs, list) else [str(fs)]):
            files.add(f)
    an = p["anchors"]
    mech = "; ".join("%s (%s)" % (m["name"], m["where"]) for m in an.get("mechanism", []))
    note = ""
    if earlier:
        note = ("NOTE: %d earlier attempts already used these changes: " % len(earlier)
                + "; ".join('(%d) "%s"' % (i + 1, e) for i, e in enumerate(earlier))
                + ". They touched: " + ", ".join(sorted(files))
                + ". Choose a DIFFERENT mechanism and kind of triggering input from all of them, if possible in a function none of them touched. "
                "Think about what a careful reviewer would still miss: two code sites that must stay in step (a value computed in one place and consumed in another), "
                "an index that means different things in two buffers or two coordinate systems, a default that only matters when an optional table or argument is absent, "
                "state that survives from one API call to the next, a rounding or signedness choice that only matters for negative or odd values, "
                "a condition equivalent for every input the tests use but not in general (inclusive vs exclusive bound at a rare boundary, a flag combination, iteration order when two entries tie, "
                "behaviour at exactly 0 / 1 / 255 / 256 / 65535 / 65536 / u32::MAX).")
    text = f"""You are testing how well a semantic property of a Rust library is protected by its tests. The library is rustybuzz (a pure-Rust port of the HarfBuzz text shaping engine). You have your OWN scratch git worktree of it at /tmp/seed_{sid} (a normal checkout; work only inside that directory and inside /tmp/seed_out/{sid}). The sandbox is offline: build and test with `cargo build --offline` / `cargo test --offline` (the full existing suite is 187 + 2128 tests and takes about a minute; use `CARGO_TARGET_DIR=/tmp/seed_{sid}/target`). Do NOT look at or use anything under /verif or /repo, and do not use the network.

THE PROPERTY (read it carefully; it is a for-all statement that sampled tests cannot settle):

{pid} — {p['title']}

Statement: {p['statement']}

Quantifier: {p['quantifier']['text']}

Why tests cannot settle it: {p['why_tests_cant']}

Anchored in files: {', '.join(an.get('files', []))}
Mechanisms: {mech}

{note}

YOUR TASK: make ONE small, realistic source change to the library (the kind of slip a maintainer could make in a refactor, an optimisation, a port from C++, or a boundary condition) such that
 1. the crate still compiles, and the ENTIRE existing test suite still passes unedited (`cargo test --offline` in /tmp/seed_{sid}: all tests green — verify this yourself at the end);
 2. the property above is violated for some inputs — and the violation needs SOMETHING SPECIFIC to manifest: a particular kind of input (an unusual but legal font feature combination, a specific cluster numbering, direction, flag, buffer history, text length, script, a multi-step sequence of API calls, two code sites that each look fine alone …), not something ordinary use would expose at once;
 3. you can DEMONSTRATE it: write a small self-contained demonstration that uses only the crate's public API (a Rust example file `examples/seed_demo.rs` in the worktree, run with `cargo run --offline --example seed_demo`; it may read fonts from `tests/fonts/...` of the worktree or build font bytes in memory) which exits 0 / prints PASS on the ORIGINAL code and exits non-zero / prints FAIL with your change. Check both directions yourself (use `git diff -- src > /tmp/seed_out/{sid}/p.diff; git checkout -- src; ...; git apply /tmp/seed_out/{sid}/p.diff` inside YOUR worktree only; do NOT use `git stash`: the stash is shared by all worktrees of the repository and other agents are working in theirs).
Prefer a change in the code the property is anchored in (see the file list in the property text), but any place that breaks the property is fine. Avoid changes that merely crash on every input or break obviously common cases (the suite would catch those anyway). Subtle is better than big; semantic is better than syntactic.

DELIVERABLES in /tmp/seed_out/{sid}:
 - patch.diff : `git -C /tmp/seed_{sid} diff -- src` of your change ONLY (not the demo);
 - seed_demo.rs : the demonstration program (copy of examples/seed_demo.rs);
 - meta.json : {{"property": "{pid}", "summary": "<one sentence: what was changed>", "needs": "<what specific input/sequence is needed for it to manifest>", "files": ["<changed files>"], "suite_passes": true|false, "demo_original": "<PASS output>", "demo_changed": "<FAIL output>"}}.
Leave the worktree with your change applied and the demo file present. FINAL REPORT (≤ 15 lines): the change, why the suite does not notice, what the demo shows.
"""
    open(os.path.join(out, sid + ".txt"), "w").write(text)
    os.makedirs("/tmp/seed_out/" + sid, exist_ok=True)
    wt = "/tmp/seed_" + sid
    if not os.path.exists(wt):
        subprocess.run(["git", "-C", "/repo", "worktree", "add", "--detach", wt, "HEAD"], capture_output=True)
print("prompts written for suffix", suffix)
