#!/usr/bin/env python3
"""Prints the markdown table of DESIGN.md section 12 from seeded/*/meta.json and seeded/strengthened.json."""
import glob
import json
import os

HERE = os.path.dirname(os.path.dirname(os.path.abspath(__file__)))


def main():
    strengthened = {}
    try:
        strengthened = json.load(open(os.path.join(HERE, "seeded", "strengthened.json")))
    except Exception:
        pass
    rows = []
    for d in sorted(glob.glob(os.path.join(HERE, "seeded", "C*"))):
        sid = os.path.basename(d)
        try:
            m = json.load(open(os.path.join(d, "meta.json")))
        except Exception:
            continue
        prop = m.get("property", sid[:3])
        runs = m.get("checks_run") or {}
        own = runs.get(prop, {})
        kind = (own.get("first_replay") or {}).get("kind", "")
        how = "-"
        if own.get("exit"):
            how = "failing input" if not own.get("no_failing_input_found") else "tie/proof only"
        others = sorted(p for p, r in runs.items() if p != prop and r.get("exit"))
        missed_by = sorted(p for p, r in runs.items() if p != prop and not r.get("exit"))
        files = m.get("files")
        files = ", ".join(os.path.basename(f) for f in files) if isinstance(files, list) else str(files)
        summary = (m.get("summary") or "").replace("|", "/").replace("\n", " ")
        if len(summary) > 260:
            summary = summary[:257] + "..."
        rows.append("| %s | %s | %s | %s | %s | %s | %s |" % (
            sid, files, summary, "yes" if own.get("exit") else "**NO**", how + (" (%s)" % kind if kind else ""),
            ", ".join(others) or "-", strengthened.get(sid, "")))
    total = len(rows)
    own = sum(1 for r in rows if "| yes |" in r)
    stren = sum(1 for sid in strengthened if any(r.startswith("| %s |" % sid) for r in rows) and any(r.startswith("| %s |" % sid) and "| yes |" in r for r in rows))
    print("<!-- counts: %d seeds, %d caught by the property's own check (final state), %d of them with a strengthening note, %d not caught by the own check -->" % (total, own, stren, total - own))
    print("| seed | file | change | caught by its property's check | how | also caught by | strengthening it prompted |")
    print("|---|---|---|---|---|---|---|")
    print("\n".join(rows))


if __name__ == "__main__":
    main()
