#!/usr/bin/env python3
"""Shrinks a failing public-API request of the e2e searches (C01 C02 C03 C04 C15) to a smaller one that still
fails with the same kind.
  tools/shrink.py <replay.json>            # reads property/font/req/kind (and build) from a replay file
  tools/shrink.py Cnn <font> "<req>"       # explicit
Tries, in rounds until nothing changes: dropping characters, renumbering clusters 0..n-1, dropping features,
language, context, flags beyond 3, explicit direction -> none, level -> 0.  Prints the minimal request."""
import json
import os
import re
import sys

sys.path.insert(0, os.path.join(os.path.dirname(os.path.abspath(__file__)), "..", "lib"))
import common as C  # noqa: E402
import e2e  # noqa: E402


def parse(req):
    d = {}
    for tok in req.split():
        if "=" in tok:
            k, v = tok.split("=", 1)
            d[k] = v
    text = []
    for it in d.get("text", "").split(","):
        if it:
            c, k = it.split(":")
            text.append((c, int(k)))
    d["text"] = text
    return d


def fmt(d):
    keys = ["text", "dir", "script", "lang", "feats", "flags", "level", "pre", "post", "nfvs"]
    out = []
    for k in keys:
        if k not in d:
            continue
        v = d[k]
        if k == "text":
            v = ",".join("%s:%d" % (c, n) for c, n in v)
        out.append("%s=%s" % (k, v))
    return " ".join(out)


def fails(binp, prop, font, d, kind):
    rc, fl, out = e2e.replay_one(binp, prop, font, fmt(d))
    for l in fl:
        m = e2e.FAIL.match(l)
        if m and (kind is None or m.group(2) == kind):
            return l
    return None


def shrink(binp, prop, font, req, kind):
    d = parse(req)
    if not fails(binp, prop, font, d, kind):
        print("does not fail (kind %s): %s" % (kind, req))
        return None
    changed = True
    while changed:
        changed = False
        # drop characters
        i = 0
        while i < len(d["text"]):
            t = dict(d, text=d["text"][:i] + d["text"][i + 1:])
            if fails(binp, prop, font, t, kind):
                d = t
                changed = True
            else:
                i += 1
        # simplifications of the other fields
        cands = []
        cands.append(dict(d, text=[(c, i) for i, (c, _) in enumerate(d["text"])]))
        for k, v in (("feats", "-"), ("lang", "-"), ("pre", "-"), ("post", "-"), ("flags", "3"), ("dir", "none"), ("level", "0"), ("script", "-")):
            if d.get(k) != v:
                cands.append(dict(d, **{k: v}))
        if "nfvs" in d:
            t = dict(d)
            del t["nfvs"]
            cands.append(t)
        if d.get("feats", "-") != "-" and ";" in d["feats"]:
            for f in d["feats"].split(";"):
                cands.append(dict(d, feats=";".join(x for x in d["feats"].split(";") if x != f)))
        for t in cands:
            if fmt(t) != fmt(d) and fails(binp, prop, font, t, kind):
                d = t
                changed = True
    line = fails(binp, prop, font, d, kind)
    print("MINIMAL:", fmt(d))
    print(line[:1500])
    return d


if __name__ == "__main__":
    build = "release"
    if len(sys.argv) == 2:
        b = json.load(open(sys.argv[1]))
        prop, font, req, kind = b["property"], b["font"], b["req"], b.get("kind")
        if b.get("build") == "overflow-checked":
            build = "checked"
    else:
        prop, font, req = sys.argv[1:4]
        kind = sys.argv[4] if len(sys.argv) > 4 else None
    ok, binp, log = C.cargo_build(build, hooks=True)
    shrink(binp, prop, font, req, kind)
