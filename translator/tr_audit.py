"""Source audit for C05 (no shared mutable state): counts global items with interior mutability and
`unsafe` code other than the bytemuck Pod/Zeroable marker impls, outside `#[cfg(rustybuzz_verif)]`."""
import os
import re

from tr_util import Gen

MUT = re.compile(r"\b(Atomic\w*|Mutex|RwLock|RefCell|Cell|UnsafeCell|OnceCell|OnceLock|Lazy|LazyLock)\b")


# uses of an interior-mutability type that were read and are local to one call (no state survives it):
# (file, whitespace-free line) -> why
REVIEWED_SITES = {
    ("src/hb/ot_shaper_use_machine.rs", "usecore::cell::Cell;"): "import for the line below",
    ("src/hb/ot_shaper_use_machine.rs", "letinfos=Cell::as_slice_of_cells(Cell::from_mut(&mutbuffer.info));"):
        "a Cell VIEW of the caller's &mut buffer for the duration of find_syllables_use; nothing is stored",
    ("src/hb/ot_shaper_use_machine.rs", "buffer:&[Cell<hb_glyph_info_t>],"): "parameter: the borrowed Cell view above",
    ("src/hb/ot_shaper_use_machine.rs", "fnincluded(infos:&[Cell<hb_glyph_info_t>],i:usize)->bool{"): "parameter: the borrowed Cell view above",
    ("src/hb/shape_wasm.rs", "config.compilation_mode(wasmi::CompilationMode::Lazy);"): "an enum variant of the wasm runtime, not std's Lazy",
}


def run(repo, fails):
    g = Gen("Audit")
    g.header("audit of global mutable state and unsafe code in /repo/src (regenerated each run)")
    statics = []
    unsafes = []
    interior = []
    nfiles = 0
    for root, _, fs in os.walk(os.path.join(repo, "src")):
        if os.sep + "verif" in root:
            continue
        for f in fs:
            if not f.endswith(".rs"):
                continue
            nfiles += 1
            path = os.path.join(root, f)
            lines = open(path, encoding="utf-8").read().split("\n")
            for i, line in enumerate(lines):
                code = line.split("//")[0]
                guarded = any("cfg(rustybuzz_verif)" in lines[j] for j in range(max(0, i - 3), i + 1))
                if guarded:
                    continue
                rel = os.path.relpath(path, repo)
                if re.search(r"\bstatic\s+mut\b", code) or re.search(r"\b(thread_local|lazy_static)!", code):
                    statics.append("%s:%d" % (rel, i + 1))
                elif re.match(r"\s*(pub(\([^)]*\))?\s+)?static\s+\w+\s*:", code):
                    decl = " ".join(lines[i:i + 3])
                    if MUT.search(decl.split("=")[0]):
                        statics.append("%s:%d" % (rel, i + 1))
                # any other mention of an interior-mutability type (a struct field, a local, a type alias): hidden state in a
                # Face, a plan or a buffer would be exactly that
                if MUT.search(code) and (rel.replace(os.sep, "/"), re.sub(r"\s+", "", code)) not in REVIEWED_SITES:
                    interior.append("%s:%d" % (rel, i + 1))
                if re.search(r"\bunsafe\b", code) and not re.search(r"unsafe impl bytemuck::(Zeroable|Pod) for", code):
                    unsafes.append("%s:%d" % (rel, i + 1))
    if nfiles < 40:
        fails.append(("audit_files", "only %d source files found" % nfiles))
    g.raw("(* hits: statics %s ; unsafe %s *)" % (", ".join(statics) or "none", ", ".join(unsafes) or "none"))
    g.defN("audited_files", nfiles)
    g.defN("shared_mutable_statics", len(statics))
    g.defN("unsafe_sites", len(unsafes))
    g.raw("(* interior-mutability mentions outside the reviewed sites: %s *)" % (", ".join(interior) or "none"))
    g.defN("unreviewed_interior_mutability_sites", len(interior))
    return [g]
